(* Property C19, third part: a target that answers with REDIRECTS (Model/RobustRedirect.v).  With the gun option
   `redirect: true` Client.Do is net/http's loop "send; while the answer is a redirect with a Location the policy
   allows, send again": how long it runs is up to the target unless the policy bounds it.  The target is any graph
   (step -> response and where its Location points: itself, an earlier step, a later one, nowhere, an unparsable or a
   dead URL).  Statements only; proofs in Proofs/RobustRedirectProofs.v.  Gen/RedirClient_bridge.v ties the policy to
   the source (the Client literal of NewRedirectingClient leaves CheckRedirect alone). *)
From Coq Require Import List ZArith Bool.
From PV Require Import Model.Robust Model.RobustRedirect Proofs.RobustProofs Proofs.RobustRedirectProofs.
Import ListNotations.
Local Open Scope Z_scope.

(* ANY policy that refuses at some length L makes the loop end after at most L requests, for every target graph *)
Theorem C19_redirect_loop_ends : forall check L tgt, check L = false ->
  forall fuel via cur, (L <= length via + fuel)%nat -> (length via < L)%nat ->
  exists d, client_loop check tgt fuel via cur = Some d /\
            (length (dr_trace d) <= L)%nat /\ (length via < length (dr_trace d))%nat.
Proof. exact client_loop_total. Qed.
Print Assumptions C19_redirect_loop_ends.

(* the guns' Client.Do (redirect option on or off): comes back for every target and every start, after 1..10 requests *)
Theorem C19_redirect_do_total : forall redirect tgt cur,
  exists d, client_do redirect tgt cur = Some d /\ (1 <= length (dr_trace d) <= redirect_limit)%nat.
Proof. exact client_do_total. Qed.
Print Assumptions C19_redirect_do_total.

(* what it comes back with keeps the client contract "no error => a response"; the converse fails on purpose: at the
   redirect limit Do returns the last response AND an error *)
Theorem C19_redirect_do_contract : forall redirect tgt cur d, client_do redirect tgt cur = Some d -> do_ok d.
Proof. exact client_do_contract. Qed.
Print Assumptions C19_redirect_do_contract.

(* the guns over a Do result ("response present" and "error" as separate facts) are the guns of Model/Robust.v on the
   response Do ended with - so every theorem of Properties/C19.v carries over *)
Theorem C19_redirect_gun_refines : forall c inv d, do_ok d -> base_shoot_do c inv d = base_shoot c inv (dr_resp d).
Proof. exact base_shoot_do_refines. Qed.
Print Assumptions C19_redirect_gun_refines.

Theorem C19_redirect_step_refines : forall s d, do_ok d -> shoot_step_do s d = shoot_step (step_with_resp s (dr_resp d)).
Proof. exact shoot_step_do_refines. Qed.
Print Assumptions C19_redirect_step_refines.

(* one shot at any step of any redirecting target: it returns, after at most 10 requests, with exactly one sample -
   the final status for a clean exchange, a failure otherwise (redirect limit, bad or dead Location, any transport
   failure on any hop) *)
Theorem C19_redirect_gun_total : forall c redirect tgt cur,
  bc_bound c = true -> bc_connect c <> Some false -> (bc_http2 c = true -> forall j, rs_h2 (hp_resp (tgt j)) = true) ->
  exists d sm, client_do redirect tgt cur = Some d /\
    (1 <= length (dr_trace d) <= redirect_limit)%nat /\
    base_shoot_redir c redirect tgt cur = Some (Returned [sm]) /\
    (clean (dr_resp d) = true -> sm = {| sm_code := rs_status (dr_resp d); sm_err := false |}) /\
    (clean (dr_resp d) = false -> sm_err sm = true).
Proof. exact redir_gun_total. Qed.
Print Assumptions C19_redirect_gun_total.

(* the instance goes on with the next ammo: any list of ammo against any redirecting target - every shot comes back,
   the instance never fails, one sample per ammo, at most 10 requests per ammo *)
Theorem C19_instance_survives_redirects : forall c redirect tgt ammo,
  bc_bound c = true -> bc_connect c <> Some false -> bc_http2 c = false ->
  exists shots, map (base_shoot_redir c redirect tgt) ammo = map Some shots /\
    snd (instance_run shots) = false /\ length (fst (instance_run shots)) = length ammo /\
    Forall (fun cur => (length (dr_trace (do_of redirect tgt cur)) <= redirect_limit)%nat) ammo.
Proof. exact instance_redirect_survives. Qed.
Print Assumptions C19_instance_survives_redirects.

(* the contrast (why the statement is about the policy and not about any client): with a policy that always allows,
   a target that always redirects keeps the loop going for every amount of fuel - the shot never returns, no sample *)
Theorem C19_redirect_policy_always_allow_refuted : forall tgt, always_redirects tgt ->
  forall fuel via cur, client_loop always_check tgt fuel via cur = None.
Proof. exact always_allow_never_returns. Qed.
Print Assumptions C19_redirect_policy_always_allow_refuted.

(* non-vacuity: 0 -> 1 -> 0 -> ... (a cycle), step 2 -> 3 = 200, step 4 -> a dead URL, step 5 -> unparsable Location,
   step 6 = 302 without Location *)
Example C19_example_redirect :
  let mk st l := {| hp_resp := {| rs_conn := ConnOk; rs_status := st; rs_body_ok := true; rs_h2 := false |}; hp_loc := l |} in
  let tgt (j : nat) := match j with
    | 0%nat => mk 302 (LocStep 1) | 1%nat => mk 301 (LocStep 0) | 2%nat => mk 307 (LocStep 3)
    | 4%nat => mk 302 LocDead | 5%nat => mk 302 LocBad | 6%nat => mk 302 LocNone | _ => mk 200 LocNone end in
  let c := {| bc_bound := true; bc_connect := None; bc_http2 := false;
              bc_opts := {| go_dump := true; go_trace := true; go_answlog := Some AnswAll; go_debug := true |} |} in
  map (base_shoot_redir c true tgt) [0; 2; 4; 5; 6]%nat =
    map Some [Returned [{| sm_code := 0; sm_err := true |}]; Returned [{| sm_code := 200; sm_err := false |}];
              Returned [{| sm_code := 0; sm_err := true |}]; Returned [{| sm_code := 0; sm_err := true |}];
              Returned [{| sm_code := 302; sm_err := false |}]] /\
  option_map (fun d => (dr_present d, length (dr_trace d))) (client_do true tgt 0%nat) = Some (true, 10%nat) /\
  base_shoot_redir c false tgt 0%nat = Some (Returned [{| sm_code := 302; sm_err := false |}]) /\
  always_redirects self_loop /\ client_loop always_check self_loop 1000 [] 0%nat = None.
Proof. repeat split; try (vm_compute; reflexivity). exists 0%nat. reflexivity. Qed.
