(* Property C17, round 8: "${env:NAME} placeholders are substituted in ... numeric ... and duration fields" and "a wrongly
   typed value is an error rather than being silently ignored", for a placeholder that is the whole value of a signed
   integer option (int, int8 .. int64): confutil.castInt reads the variable's text as an integer LITERAL of the option's
   width (strconv.ParseInt, base 0).  The reader is modelled (Model/ConfigIntLiteral.v: sign, base prefix, digits below
   the base, separators, range of the width) instead of being an oracle: the decoder below runs with
   `orc_with_int orc0`, i.e. every ParseInt answer is the modelled one, all other library parsers stay oracles.
   Statements only; proofs in Proofs/ConfigIntLiteralProofs.v. *)
From Coq Require Import List NArith ZArith Bool QArith.
From PV Require Import Model.ConfigDecode Model.ConfigIntLiteral Proofs.ConfigDecodeProofs Proofs.ConfigIntLiteralProofs
  Gen.ConfigSchemaGen.
Import ListNotations.
Local Open Scope N_scope.

(* (1) The variable holds a text the literal reader of the option's width does not take -- a fraction, an exponent form,
   NaN / Inf, a literal beyond the width, a blank around the digits: the whole configuration is refused, wherever the
   option sits (any path, any component, any registry, any fuel).  (2) It holds a literal: the option decodes exactly
   like the written integer, and that integer lies in the range of the width (nothing wraps). *)
Theorem C17_integer_placeholder :
  forall env prop orc0 orcq reg lz uq,
  (forall p s cur v tags d name t b,
     reach reg lz uq p [] s cur v = Some (SScalar (KInt b), tags, d, VStr (ph_env name)) ->
     simple_name name = true -> env name = Some t -> has_dollar_brace t = false ->
     parse_int b t = None ->
     forall F c, notok (decode env prop (orc_with_int orc0) orcq reg lz F s c v))
  /\
  (forall name t b z F c,
     simple_name name = true -> env name = Some t -> has_dollar_brace t = false ->
     parse_int b t = Some z ->
     decode env prop (orc_with_int orc0) orcq reg lz (S F) (SScalar (KInt b)) c (VStr (ph_env name)) =
     decode env prop (orc_with_int orc0) orcq reg lz (S F) (SScalar (KInt b)) c (VInt z)
     /\ (- pow2 (b - 1) <= z < pow2 (b - 1))%Z).
Proof.
  intros. split.
  - apply int_placeholder_refused.
  - intros. split; [apply int_placeholder_taken with (t := t); assumption|eapply parse_int_range; eassumption].
Qed.
Print Assumptions C17_integer_placeholder.

(* The same for the unsigned options (uint, uint8 .. uint64; strconv.ParseUint, base 0: no sign at all, the whole unsigned
   range of the width): a refused text -- "-1", "+7", a fraction, a literal beyond the width -- is an error wherever the
   option sits; a literal decodes like the written integer, which lies in the range of the width. *)
Theorem C17_unsigned_placeholder :
  forall env prop orc0 orcq reg lz uq,
  (forall p s cur v tags d name t b,
     reach reg lz uq p [] s cur v = Some (SScalar (KUint b), tags, d, VStr (ph_env name)) ->
     simple_name name = true -> env name = Some t -> has_dollar_brace t = false ->
     parse_uint b t = None ->
     forall F c, notok (decode env prop (orc_with_int orc0) orcq reg lz F s c v))
  /\
  (forall name t b z F c,
     simple_name name = true -> env name = Some t -> has_dollar_brace t = false ->
     parse_uint b t = Some z ->
     decode env prop (orc_with_int orc0) orcq reg lz (S F) (SScalar (KUint b)) c (VStr (ph_env name)) =
     decode env prop (orc_with_int orc0) orcq reg lz (S F) (SScalar (KUint b)) c (VInt z)
     /\ (0 <= z < pow2 b)%Z).
Proof.
  intros. split.
  - apply uint_placeholder_refused.
  - intros. split; [apply uint_placeholder_taken with (t := t); assumption|eapply parse_uint_range; eassumption].
Qed.
Print Assumptions C17_unsigned_placeholder.

(* What the literal reader takes, for every width, signed and unsigned: only texts made of a sign, digits, letters and
   underscores -- a text with any other byte (decimal point, blank, comma, ...) is refused; a text whose first byte
   after the sign is a non-zero digit ... is read in base ten, so every byte of it is a decimal digit or an underscore
   (no exponent, no hexadecimal digit); a taken value lies in the range of the width. *)
Theorem C17_integer_literal :
  (forall b s c, In c s -> lit_char c = false -> parse_int b s = None /\ parse_uint b s = None)
  /\
  (forall c r m, (c =? c_zero) = false -> parse_mag (c :: r) = Some m -> forallb dec_char (c :: r) = true)
  /\
  (forall b s z, parse_int b s = Some z -> (- pow2 (b - 1) <= z < pow2 (b - 1))%Z)
  /\
  (forall b s z, parse_uint b s = Some z -> (0 <= z < pow2 b)%Z).
Proof.
  split; [exact parse_int_refuses_foreign_byte|split; [exact parse_mag_decimal|split; [exact parse_int_range|exact parse_uint_range]]].
Qed.
Print Assumptions C17_integer_literal.

(* ---- non-vacuity: the reader on concrete texts *)
Example C17_literal_examples :
  parse_int 8 [49;50;55] = Some 127%Z /\                      (* 127 *)
  parse_int 8 [49;50;56] = None /\                            (* 128 *)
  parse_int 8 [45;49;50;56] = Some (-128)%Z /\                (* -128 *)
  parse_int 8 [51;48;48] = None /\                            (* 300: beyond int8, not 44 *)
  parse_int 64 [49;46;53] = None /\                           (* 1.5 *)
  parse_int 64 [49;101;51] = None /\                          (* 1e3 *)
  parse_int 64 [78;97;78] = None /\                           (* NaN *)
  parse_int 64 [73;110;102] = None /\                         (* Inf *)
  parse_int 64 [48;120;49;70] = Some 31%Z /\                  (* 0x1F *)
  parse_int 64 [48;98;49;48;49] = Some 5%Z /\                 (* 0b101 *)
  parse_int 64 [48;49;55] = Some 15%Z /\                      (* 017 *)
  parse_int 64 [49;95;48;48;48] = Some 1000%Z /\              (* 1_000 *)
  parse_int 64 [49;95;95;48] = None /\                        (* 1__0 *)
  parse_int 64 [95;49] = None /\                              (* _1 *)
  parse_int 64 [48;120] = None /\                             (* 0x *)
  parse_int 64 [48] = Some 0%Z /\                             (* 0 *)
  parse_int 64 [32;53] = None /\                              (* " 5" *)
  parse_int 64 [] = None /\
  parse_int 64 [57;50;50;51;51;55;50;48;51;54;56;53;52;55;55;53;56;48;55] = Some 9223372036854775807%Z /\
  parse_int 64 [57;50;50;51;51;55;50;48;51;54;56;53;52;55;55;53;56;48;56] = None /\
  parse_uint 8 [50;53;53] = Some 255%Z /\ parse_uint 8 [50;53;54] = None /\ parse_uint 8 [45;49] = None /\ parse_uint 8 [43;55] = None /\
  parse_uint 64 [49;56;52;52;54;55;52;52;48;55;51;55;48;57;53;53;49;54;49;53] = Some 18446744073709551615%Z.
Proof. vm_compute. repeat split; reflexivity. Qed.

(* ---- non-vacuity on the generated schema: startup {type: once, times: ${env:T}} of a pool (times is an int) *)
Definition cx_env (t : str) (n : str) : option str := if str_eqb n [84] then Some t else None.
Definition cx_prop (_ _ : str) : option str := None.
Definition cx_orc0 (k : okind) (_ : str) : option Z := match k with OEndpoint => Some 1%Z | _ => None end.
Definition cx_orcq (_ : str) : option Q := None.
Definition cx_plug (name : str) (kvs : list (str * value)) : value := VMap ((s_type, VStr name) :: kvs).
Definition cx_cfg (times : value) : value :=
  VMap [(s_pools, VList [
    VMap [ ([97;109;109;111], cx_plug [100;117;109;109;121] []);
           ([114;101;115;117;108;116], cx_plug [100;105;115;99;97;114;100] []);
           ([103;117;110], cx_plug [104;116;116;112] [([116;97;114;103;101;116], VStr [104;58;49])]);
           ([114;112;115], cx_plug [111;110;99;101] [([116;105;109;101;115], VInt 1)]);
           ([115;116;97;114;116;117;112], cx_plug [111;110;99;101] [([116;105;109;101;115], times)]) ]])].
Definition cx_run (t : str) (v : value) : res cval :=
  decode_and_validate (cx_env t) cx_prop (orc_with_int cx_orc0) cx_orcq gen_registry model_factory_lazy (fuel_for v)
    gen_root_schema gen_root_default v.
Definition cx_ok (r : res cval) : bool := match r with Ok _ => true | _ => false end.
Definition cx_err (r : res cval) : bool := match r with Err _ => true | _ => false end.
Definition cx_same (a b : res cval) : bool :=
  match a, b with Ok x, Ok y => cval_eqb x y | _, _ => false end.

Example C17_integer_placeholder_example :
  (* T=3 and T=0x1F: like the written integers *)
  cx_same (cx_run [51] (cx_cfg (VStr (ph_env [84])))) (cx_run [] (cx_cfg (VInt 3))) = true /\
  cx_same (cx_run [48;120;49;70] (cx_cfg (VStr (ph_env [84])))) (cx_run [] (cx_cfg (VInt 31))) = true /\
  (* T=1.5, T=1e3, T=NaN, T=9223372036854775808: refused *)
  cx_err (cx_run [49;46;53] (cx_cfg (VStr (ph_env [84])))) = true /\
  cx_err (cx_run [49;101;51] (cx_cfg (VStr (ph_env [84])))) = true /\
  cx_err (cx_run [78;97;78] (cx_cfg (VStr (ph_env [84])))) = true /\
  cx_err (cx_run [57;50;50;51;51;55;50;48;51;54;56;53;52;55;55;53;56;48;56] (cx_cfg (VStr (ph_env [84])))) = true /\
  (* the hypotheses of C17_integer_placeholder hold there *)
  (exists tags d b, reach gen_registry model_factory_lazy false
     [SKey s_pools; SIdx 0; SKey [115;116;97;114;116;117;112]; SKey [116;105;109;101;115]] [] gen_root_schema gen_root_default
     (cx_cfg (VStr (ph_env [84]))) = Some (SScalar (KInt b), tags, d, VStr (ph_env [84]))
     /\ parse_int b [49;46;53] = None) /\
  simple_name [84] = true /\ has_dollar_brace [49;46;53] = false.
Proof.
  vm_compute. repeat split; try reflexivity. do 3 eexists. split; reflexivity.
Qed.
