(* Property C09, the keep-alive / connection sentence: "With keep-alives enabled (the default) and per-instance clients an
   instance sends its successive requests over one connection, so a target that keeps connections open sees no more
   connections than there are instances, and one connection per request when keep-alives are disabled."
   Statements only; proofs live in Proofs/HttpConnsProofs.v.

   Model (Model/HttpConns.v): [prepare_pool c] = BaseGun.prepareClientPool on the `shared-client` block c (run once per
   pool by the engine's warm-up gun), [client_of pool k] = the client the k-th bound gun shoots through after BaseGun.Bind
   (own client / clientPool.Next()), [t_run cl keepalive max_idle t_init h] = the transports of the clients [cl] after the
   history h of request starts / ends (every interleaving of instances that each shoot sequentially is a history; anything
   else is None), with t_dials = connections opened = what a target that keeps connections open counts, and t_log = the
   connection every request went over.  The transport part is a MODEL of net/http (idle-connection parking per client,
   bound max-idle-conns-per-host >= 1), compared with the real one by the correspondence run on every case. *)
From Coq Require Import List Arith ZArith Bool.
From PV Require Import Model.HttpConns Proofs.HttpConnsProofs.
Import ListNotations.

(* Per-instance clients: unless the shared client is ENABLED, no two instances of a pool shoot through the same client —
   whatever `client-number` says (0, the documented default 1, or more). *)
Theorem C09_per_instance_clients : forall c, sc_enabled c = false ->
  (forall i, client_of (prepare_pool c) i = COwn i) /\
  (forall i j, client_of (prepare_pool c) i = client_of (prepare_pool c) j -> i = j) /\
  (forall n, length (distinct_clients (instance_clients c n)) = n).
Proof.
  intros c H. split; [exact (per_instance_clients_own c H)|].
  split; [exact (per_instance_clients c H)|]. intro n. exact (distinct_per_instance c n H).
Qed.
Print Assumptions C09_per_instance_clients.

(* Shared client enabled: every instance gets a pool client, slots < max 1 client-number, handed out round-robin. *)
Theorem C09_shared_clients : forall c, sc_enabled c = true ->
  let m := Nat.max 1 (Z.to_nat (sc_number c)) in
  (forall k, exists s, client_of (prepare_pool c) k = CPool s /\ (s < m)%nat) /\
  (forall k, client_of (prepare_pool c) (k + m) = client_of (prepare_pool c) k) /\
  (forall n, (length (distinct_clients (instance_clients c n)) <= m)%nat).
Proof.
  intros c H m. destruct (shared_clients c H) as [H1 H2].
  split; [exact H1|]. split; [exact H2|]. intro n. exact (distinct_shared c n H).
Qed.
Print Assumptions C09_shared_clients.

(* The specification the run judges the observed number of distinct clients with holds of the model. *)
Theorem C09_clients_spec : forall c n, clients_ok c n (length (distinct_clients (instance_clients c n))) = true.
Proof. exact clients_ok_model. Qed.
Print Assumptions C09_clients_spec.

(* Keep-alives on + per-instance clients, for EVERY history of n instances (any number of requests, any interleaving):
   the target sees at most n connections, and all requests of one instance went over one and the same connection. *)
Theorem C09_one_connection_per_instance : forall c max_idle n h st,
  sc_enabled c = false -> (0 < max_idle)%nat ->
  Forall (fun e => (ev_inst e < n)%nat) h ->
  t_run (client_of (prepare_pool c)) true max_idle t_init h = Some st ->
  (t_dials st <= n)%nat /\
  (forall i x y, In (i, x) (t_log st) -> In (i, y) (t_log st) -> x = y).
Proof. exact conns_per_instance. Qed.
Print Assumptions C09_one_connection_per_instance.

(* Keep-alives disabled, whatever the clients: one connection per request. *)
Theorem C09_no_keepalive_one_connection_per_request : forall cl max_idle h st,
  t_run cl false max_idle t_init h = Some st -> t_dials st = requests_of h.
Proof. exact conns_no_keepalive. Qed.
Print Assumptions C09_no_keepalive_one_connection_per_request.

(* The connection-count specification of the correspondence run (conn_ok) holds of every history of the model. *)
Theorem C09_conn_spec : forall c keepalive max_idle n h st,
  (0 < max_idle)%nat ->
  Forall (fun e => (ev_inst e < n)%nat) h ->
  t_run (client_of (prepare_pool c)) keepalive max_idle t_init h = Some st ->
  conn_ok keepalive (sc_enabled c) n (requests_of h) (t_dials st) = true.
Proof. exact conn_ok_sound. Qed.
Print Assumptions C09_conn_spec.

(* Why "per-instance clients" is a hypothesis of the sentence: with ONE shared client (net/http parks 2 idle connections
   per host by default) three instances shooting two rounds in step open 4 connections > 3 instances. *)
Definition ex_rounds : list ev :=
  [Begin 0; Begin 1; Begin 2; End 0; End 1; End 2; Begin 0; Begin 1; Begin 2; End 0; End 1; End 2].
Example C09_shared_client_exceeds_instances :
  option_map t_dials (t_run (client_of (prepare_pool {| sc_enabled := true; sc_number := 1 |})) true 2 t_init ex_rounds) = Some 4.
Proof. reflexivity. Qed.

(* non-vacuity: the same history with `enabled: false, client-number: 1` (the gun example of docs/eng/http-generator.md) is
   a history of the model, opens 3 connections, and each instance kept its own. *)
Example C09_per_instance_example :
  let c := {| sc_enabled := false; sc_number := 1 |} in
  option_map (fun st => (t_dials st, t_log st)) (t_run (client_of (prepare_pool c)) true 2 t_init ex_rounds)
  = Some (3, [(2, 2); (1, 1); (0, 0); (2, 2); (1, 1); (0, 0)]) /\
  Forall (fun e => (ev_inst e < 3)%nat) ex_rounds /\
  map (client_of (prepare_pool c)) [0; 1; 2] = [COwn 0; COwn 1; COwn 2].
Proof. split; [reflexivity|]. split; [|reflexivity]. repeat constructor. Qed.

(* The judge of the scripted histories (case kind `hist`: real guns, clients and transports driven event by event) holds
   of every history of the model: connection count, every request logged once, one connection per instance. *)
Theorem C09_hist_spec : forall c keepalive max_idle n h st,
  (0 < max_idle)%nat ->
  Forall (fun e => (ev_inst e < n)%nat) h ->
  t_run (client_of (prepare_pool c)) keepalive max_idle t_init h = Some st ->
  hist_ok keepalive (sc_enabled c) n (requests_of h) (t_dials st) (rev (t_log st)) = true.
Proof. exact hist_ok_sound. Qed.
Print Assumptions C09_hist_spec.
