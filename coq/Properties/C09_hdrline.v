(* Property C09, "headers from the provider's 'headers' option" / in-file header lines: the "[key: value]" line syntax
   (util.DecodeHeader), the one place where a header's key and value are cut out of the text the user wrote — for the
   `headers` option of every format and for the in-file header lines of uri / uripost alike.  Statements only; proofs live
   in Proofs/HdrLineProofs.v.  The model decode_header (Model/HdrLine.v) is compared with the real decoder on every wire
   case: the correspondence run writes the lines in three styles ("[k: v]", "[k:v]", "[  k \t:   v ]") and the OCaml driver
   feeds the model of the merge sites with what the extracted decode_header makes of the same text. *)
From Coq Require Import List NArith Bool.
From PV Require Import Model.Headers Model.HdrLine Proofs.HdrLineProofs.
Import ListNotations.
Local Open Scope N_scope.

(* whatever (ASCII) blanks surround the key and the value, the header that goes on to the merge sites is exactly
   (key, value): nothing of the brackets, the colon or the padding reaches the wire, nothing of the value is lost *)
Theorem C09_header_line_decodes : forall p1 k p2 p3 v p4,
  blanks p1 -> blanks p2 -> blanks p3 -> blanks p4 ->
  k <> [] -> no_colon k -> edges_ok k -> edges_ok v ->
  decode_header (header_line p1 k p2 p3 v p4) = Some (k, v).
Proof. exact decode_header_line. Qed.
Print Assumptions C09_header_line_decodes.

(* the FIRST colon separates: the value may contain colons, brackets, inner blanks *)
Theorem C09_header_line_first_colon : forall k v, k <> [] -> no_colon k -> edges_ok k -> edges_ok v ->
  decode_header ([91] ++ k ++ [58] ++ v ++ [93]) = Some (k, v).
Proof. exact decode_header_first_colon. Qed.
Print Assumptions C09_header_line_first_colon.

(* non-vacuity: "[  X-A \t:   a:b [z] ]" gives ("X-A", "a:b [z]"); the hypotheses hold of that key and value;
   refused: "[]", "[: v]", "[k v]", "k: v", "[k: v" *)
Example C09_header_line_example :
  decode_header (header_line [32;32] [88;45;65] [32;9] [32;32;32] [97;58;98;32;91;122;93] [32]) = Some ([88;45;65], [97;58;98;32;91;122;93]) /\
  blanks [32;9] /\ no_colon [88;45;65] /\ edges_ok [88;45;65] /\ edges_ok [97;58;98;32;91;122;93] /\
  decode_header [91;93] = None /\ decode_header [91;58;32;118;93] = None /\ decode_header [91;107;32;118;93] = None /\
  decode_header [107;58;32;118] = None /\ decode_header [91;107;58;32;118] = None.
Proof.
  repeat split; try reflexivity; try (repeat constructor);
    try (intros c r H; injection H as <- _; reflexivity).
Qed.
