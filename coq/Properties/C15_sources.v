(* Property C15, two parts of the sentence "executes the scenario's requests in the listed order with the
   stated multiplicities ..., renders URI, headers and body from data-source variables and from values
   captured by earlier steps' ... postprocessors":

   (1) what a file/csv variable source holds (Model/CsvSource.v: readCsv with the options delimiter,
       fields, ignore_first_line over the unquoted fragment of encoding/csv), for EVERY valid delimiter;
   (2) what reaches the target and the steps when the gun's client does not follow redirects — the
       registered default of the scenario guns (Model/ScenarioClient.v).

   Statements only (closed by [exact]); proofs in Proofs/CsvSourceProofs.v, Proofs/ScenarioClientProofs.v. *)
From Coq Require Import List NArith ZArith Bool.
From PV Require Import Model.Scenario Model.CsvSource Model.ScenarioClient.
From PV Require Import Proofs.CsvSourceProofs Proofs.ScenarioClientProofs.
Import ListNotations.

(* ANY file of lines of w cells (cells without the delimiter, line breaks and quotes; no line prints
   empty), ANY delimiter byte d a csv reader accepts (tab and blank included), the `delimiter` option
   naming d (or absent when d is the comma), ANY `fields` and ignore_first_line options: the source holds
   exactly csv_spec — the j-th field name (option `fields`, else the cells of the first line) mapped to the
   j-th cell of every line, the first line dropped iff ignore_first_line. *)
Theorem C15_csv_source :
  forall d w lines dopt fields ignore,
    valid_delim d = true -> (d < 128)%N -> comma_of dopt = d ->
    forallb (line_ok d w) lines = true ->
    read_csv {| co_delim := dopt; co_fields := fields; co_ignore := ignore |} (print_csv d lines)
    = CsvOk (csv_spec fields ignore lines).
Proof. exact csv_source_correct. Qed.
Print Assumptions C15_csv_source.

(* the pieces of the statement, each usable on its own: the record lines of a printed file are its lines,
   and the reader splits every line back into its cells *)
Theorem C15_csv_records :
  forall d w lines, valid_delim d = true -> forallb (line_ok d w) lines = true ->
    csv_lines (print_csv d lines) = map (join_cells d) lines /\
    read_records d None (map (join_cells d) lines) = RdOk lines.
Proof.
  exact (fun d w lines Hv H => conj (csv_lines_print d w lines Hv H)
                                    (read_records_print d w lines None Hv H (or_introl eq_refl))).
Qed.
Print Assumptions C15_csv_records.

(* what csv_spec means cell by cell: with distinct non-empty field names the j-th name of a row gives the
   j-th cell of its line (the empty string past the end of a short line) — the value a template or a
   preprocessor path `source.<name>[i].<field>` reads *)
Theorem C15_csv_cell :
  forall names cells j k,
    Forall (fun f => f <> []) names -> NoDup names -> nth_error names j = Some k ->
    row_get (mk_row names 0 cells []) k = Some (nth j cells []).
Proof. exact (fun names cells => mk_row_nth names 0%N cells []). Qed.
Print Assumptions C15_csv_cell.

Definition tab_file : bytes := [117;48;9;110;48;10; 117;49;9;110;49;10]%N.   (* "u0\tn0\nu1\tn1\n" *)
Definition tab_opts : csv_opts := {| co_delim := [9%N]; co_fields := [[105;100]; [110;97;109;101]]%N; co_ignore := false |}.

(* non-vacuity: a tab separated file with `delimiter: "\t"`, fields id, name *)
Example C15_csv_example :
  line_ok 9 2 [[117;48];[110;48]]%N = true /\
  print_csv 9 [[[117;48];[110;48]]; [[117;49];[110;49]]]%N = tab_file /\
  read_csv tab_opts tab_file
  = CsvOk [ [([105;100], [117;48]); ([110;97;109;101], [110;48])];
            [([105;100], [117;49]); ([110;97;109;101], [110;49])] ]%N.
Proof. vm_compute. repeat split. Qed.

(* the delimiter option is applied as written: were it trimmed first (not the code; exactly the seeded
   change) the tab would become "no delimiter", the reader would fall back to the comma, and every line of
   the same file would be ONE cell: id = the whole line, name = "" *)
Theorem C15_csv_trimmed_delimiter_refuted :
  exists o file, read_csv_trimmed o file <> read_csv o file /\
    read_csv_trimmed o file
    = CsvOk [ [([105;100], [117;48;9;110;48]); ([110;97;109;101], [])];
              [([105;100], [117;49;9;110;49]); ([110;97;109;101], [])] ]%N.
Proof. exists tab_opts, tab_file. vm_compute. split; [discriminate|reflexivity]. Qed.
Print Assumptions C15_csv_trimmed_delimiter_refuted.

(* ANY target (any function from arrival number and path to an answer), ANY list of steps that reach the
   client: with a client that does not follow redirects the target receives exactly the listed requests in
   the listed order — nothing else — and the i-th step gets the target's answer to ITS OWN request, a 3xx
   answer included (so the sample carries that code and the postprocessors see that response). *)
Theorem C15_no_redirect_listed_requests_only :
  forall target paths k,
    run_steps target false k paths = spec_steps target k paths /\
    fst (spec_steps target k paths) = paths /\
    (forall i p, nth_error paths i = Some p ->
       nth_error (snd (spec_steps target k paths)) i = Some (DoAnswer (target (k + i) p))).
Proof.
  exact (fun target paths k => conj (steps_no_follow target paths k)
          (conj (spec_steps_arrivals target paths k) (spec_steps_answers target paths k))).
Qed.
Print Assumptions C15_no_redirect_listed_requests_only.

(* the same holds for a following client as long as no answer is a redirect with a Location *)
Theorem C15_follow_without_redirects :
  forall target paths,
    (forall k p, is_redirect (an_status (target k p)) = false \/ an_location (target k p) = None) ->
    forall k, run_steps target true k paths = spec_steps target k paths.
Proof. exact steps_follow_no_redirect. Qed.
Print Assumptions C15_follow_without_redirects.

Definition login_target (k : nat) (p : bytes) : answer :=
  if beq p [108]%N then {| an_status := 302; an_location := Some [119]%N |}     (* "l" -> 302, Location "w" *)
  else {| an_status := 200; an_location := None |}.

(* with a following client (not the registered default; exactly the seeded change) a step answered
   302 + Location makes the target receive a request the scenario does not list, and the step sees 200 *)
Theorem C15_follow_redirects_refuted :
  exists target paths,
    run_steps target true 0 paths <> spec_steps target 0 paths /\
    run_steps target true 0 paths
    = ([[108]; [119]; [112]]%N, [DoAnswer {| an_status := 200; an_location := None |};
                                 DoAnswer {| an_status := 200; an_location := None |}]).
Proof. exists login_target, [[108]; [112]]%N. vm_compute. split; [discriminate|reflexivity]. Qed.
Print Assumptions C15_follow_redirects_refuted.

(* non-vacuity: the same target and steps with the default client: l, p received; the first step sees the 302 *)
Example C15_no_redirect_example :
  run_steps login_target false 0 [[108]; [112]]%N
  = ([[108]; [112]]%N, [DoAnswer {| an_status := 302; an_location := Some [119]%N |};
                        DoAnswer {| an_status := 200; an_location := None |}]).
Proof. vm_compute. reflexivity. Qed.
