(* Property C04, round 8 -- "no request is fired before its scheduled time", where the scheduled time
   is the one the CONFIGURED profile gives it and the profile is written with the types that build a
   composite themselves: `step` (a staircase of const levels) and `instance_step`.
   Statements only; proofs in Proofs/WaiterProfileProofs.v, model in Model/WaiterProfile.v.
   The tie of [cstep_levels] to core/schedule/step.go is Gen/WaiterStep_bridge.v (re-read loop of NewStep). *)
From Coq Require Import List ZArith Bool.
From PV Require Import Model.Waiter Model.WaiterProfile Proofs.WaiterProofs Proofs.WaiterProfileProofs.
Import ListNotations.
Local Open Scope Z_scope.

(* A profile followed by another: the second one starts when the first is over, whatever the first
   contains (parts without tokens included). *)
Theorem C04_profile_parts_follow_each_other : forall a b start,
  profile_offsets start (a ++ b) =
  (fst (profile_offsets start a) ++ fst (profile_offsets (start + total_dur a) b),
   snd (profile_offsets start a) ++ snd (profile_offsets (start + total_dur a) b)).
Proof. exact profile_offsets_app. Qed.
Print Assumptions C04_profile_parts_follow_each_other.

(* The staircase keeps its time.  For all rates, level heights, durations, numbers of levels and whatever
   follows: the tokens from the j-th level on are the tokens of that rest of the profile started at
   start + j*dur and none of them is scheduled before that instant - however many of the first j levels
   hold no token at all (rate 0, or rate * duration < 1): such a level is the staircase's pause. *)
Theorem C04_step_levels_keep_their_time : forall j k r s d rest start,
  0 <= d -> Forall seg_wf rest ->
  let later := profile_offsets (start + Z.of_nat j * d) (cstep_levels (r + Z.of_nat j * s) s d k ++ rest) in
  fst (profile_offsets start (cstep_levels r s d (j + k) ++ rest)) =
    fst (profile_offsets start (cstep_levels r s d j)) ++ fst later /\
  Forall (fun o => start + Z.of_nat j * d <= o) (fst later) /\
  Forall (fun w => start + Z.of_nat j * d <= fst w) (snd later).
Proof. exact step_levels_keep_time. Qed.
Print Assumptions C04_step_levels_keep_their_time.

(* A whole `step` part lasts (number of levels) * duration. *)
Theorem C04_step_part_length : forall f t st d segs,
  part_segments (CStep f t st d) = Some segs ->
  total_dur segs = Z.of_nat (level_count f t (st * 1000)) * d /\ Forall seg_wf segs.
Proof. exact step_part_length. Qed.
Print Assumptions C04_step_part_length.

(* No token of a configured profile - step / instance_step parts included - before the profile's start. *)
Theorem C04_configured_offsets_not_before_start : forall ps start o u,
  Forall (fun p => forall s, p = CSeg s -> seg_wf s) ps ->
  configured_offsets start ps = Some (o, u) ->
  Forall (fun x => start <= x) o /\ Forall (fun w => start <= fst w) u.
Proof. exact configured_offsets_ge. Qed.
Print Assumptions C04_configured_offsets_not_before_start.

(* the executable judgement of the `prof` cases: i-th request not before the i-th configured offset *)
Theorem C04_not_before_judgement : forall offs ats, length offs = length ats ->
  (not_before_b offs ats = true <-> Forall2 Z.le offs ats).
Proof. exact not_before_b_spec. Qed.
Print Assumptions C04_not_before_judgement.

(* False of a builder that leaves the token-less levels out (step 0 -> 2 rps by 1, 1 s per level): the
   requests configured for +1 s, +2 s, +2.5 s get the times +0 s, +1 s, +1.5 s. *)
Theorem C04_step_dropping_empty_levels_refuted :
  exists f t st d segs, part_segments (CStep f t st d) = Some segs /\
    let conf := fst (profile_offsets 0 segs) in
    let got := fst (profile_offsets 0 (drop_pauses segs)) in
    conf = [1000000000; 2000000000; 2500000000] /\ got = [0; 1000000000; 1500000000] /\
    length got = length conf /\ not_before_b conf got = false.
Proof. exact dropping_empty_levels_refuted. Qed.
Print Assumptions C04_step_dropping_empty_levels_refuted.

(* non-vacuity: a const part, a staircase 0.5 -> 2.5 rps by 1 of 1 s levels (its first level holds no token), an
   instance_step 1 -> 3 by 1 with 300 ms pauses, an unlimited tail *)
Example C04_example_configured_profile :
  configured_offsets 0 [CSeg (SConst 500000000 1 500000000); CStep 500 2500 1 1000000000;
                        CInstStep 1 3 1 300000000; CSeg (SUnl 200000000)] =
  Some ([0; 1500000000; 2500000000; 2900000000; 3500000000; 3800000000; 4100000000], [(4100000000, 200000000)]).
Proof. reflexivity. Qed.
