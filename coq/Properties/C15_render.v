(* Property C15, the sentence "renders URI, headers and body from data-source variables and from
   values captured by earlier steps": what the templater does with the variable tree it is given.

   Model/Templater.v models TextTemplater.Apply / HTMLTemplater.Apply (templates cache keyed by
   scenario, step and part; ONE builder per call, reset after every part) over a fragment of
   text/template (literal text, field chains, template functions as oracles; Execute writes as it
   goes and stops at the first failing piece).  Statements only (closed by [exact]); proofs in
   Proofs/TemplaterProofs.v. *)
From Coq Require Import List NArith ZArith Bool.
From PV Require Import Model.Iterator Model.Scenario Model.Templater.
From PV Require Import Proofs.TemplaterProofs.
Import ListNotations.

(* ANY history of Apply calls on one templater (text or html) that starts with an empty cache —
   any interleaving of steps, shots and scenarios, successful and failed renderings — in which the
   description fixes the templates of a step (calls with the same scenario and step carry the same
   parts; header names of a request are distinct): the i-th result is the specified rendering of
   the i-th call's OWN templates on the i-th call's OWN data.  Nothing an earlier call did shows:
   not the data of an earlier shot, not the partial output of a rendering that failed. *)
Theorem C15_render_own_data :
  forall html calls, consistent calls -> hdrs_nodup calls ->
    run_applies html [] calls = spec_applies html calls.
Proof. exact run_applies_spec. Qed.
Print Assumptions C15_render_own_data.

(* The specified rendering of one part: the concatenation of its pieces' outputs in order; a field
   chain through maps prints the value at that path, a key missing anywhere in the chain prints
   "no value" without an error; a failing piece (a field of a string / slice / nil, a template
   function that returns an error) fails the part — and what Execute has written before the failing
   piece is exactly the output of the earlier pieces (it is in the builder when Apply returns). *)
Theorem C15_render_pieces :
  (forall html s t data,
     render html (PLit s :: t) data
     = match render html t data with Some o => Some (s ++ o) | None => None end) /\
  (forall html fs t data,
     render html (PChain fs :: t) data
     = match eval_chain fs (Some data) with
       | ChErr => None
       | ChVal v => match render html t data with
                    | Some o => Some (print_final html v ++ o) | None => None end
       end) /\
  (forall html r t data,
     render html (PFunc r :: t) data
     = match r with
       | None => None
       | Some s => match render html t data with
                   | Some o => Some (print_func html s ++ o) | None => None end
       end) /\
  (forall fs, eval_chain fs None = ChVal None) /\
  (forall html t data, fst (exec_tmpl html t data []) = out_before html t data).
Proof.
  split; [exact render_lit|]. split; [exact render_chain|]. split; [exact render_func|].
  split; [exact eval_chain_missing|exact exec_tmpl_out].
Qed.
Print Assumptions C15_render_pieces.

(* The link to the shot model (Model/Scenario.v): the rendering decisions of the generated requests'
   X-Ref headers are what the templater model computes for their templates on the tree of the step
   (tval_of_tree: source part arbitrary, request part = the shot model's t_req):
   TRef r   = {{.request.r.postprocessor.tok}}: always renders; the captured value, "no value" while
              nothing is captured;
   TRefBad r = v={{.request.r.postprocessor.tok.id}}: the step FAILS (after "v=" was written) exactly
              when r has captured tok in this shot — the failure follows the variable flow. *)
Theorem C15_render_captured_value :
  (forall rq (t : ctree) w src r, cq_tmpl rq = TRef r ->
     exists rd, c_render rq t w = (w, Some rd) /\
       render false (ref_tmpl r) (tval_of_tree src t)
       = Some (match rd_ref rd with Some (Some v) => v | _ => s_novalue end)) /\
  (forall rq (t : ctree) w src r, cq_tmpl rq = TRefBad r ->
     match snd (c_render rq t w) with
     | None => render (cq_html rq) (refbad_tmpl r) (tval_of_tree src t) = None
     | Some rd => rd_ref rd = Some (render (cq_html rq) (refbad_tmpl r) (tval_of_tree src t))
     end) /\
  (forall html src (t : ctree) r,
     render html (refbad_tmpl r) (tval_of_tree src t) = None <-> c_captured_tok t r <> None).
Proof.
  split; [exact c_render_ref_spec|]. split; [exact c_render_refbad_spec|exact render_refbad_fails_iff].
Qed.
Print Assumptions C15_render_captured_value.

(* Not an idle detail: if the builder came from a pool and went back as it is (not the code;
   exactly the seeded "pooled buffer" change), the URI of the rendering after a failed one starts
   with the leftover of the failed template: "/u/" ++ "/a" instead of "/a". *)
Theorem C15_render_pooled_builder_refuted :
  exists calls, consistent calls /\ hdrs_nodup calls /\
    run_applies_pooled false [] [] calls <> spec_applies false calls /\
    run_applies_pooled false [] [] calls
      = [ApErr AeExecUrl; ApOk {| rp_url := [47;117;47;47;97]%N; rp_hdrs := []; rp_body := None |}].
Proof. exact pooled_refuted. Qed.
Print Assumptions C15_render_pooled_builder_refuted.

(* non-vacuity: the same two calls with the code's fresh builder, followed by the first step
   again with a tree in which the captured value is a map: failed, "/a", "/u/7/o" *)
Example C15_render_example :
  consistent [pool_call1; pool_call2;
              {| tc_scen := tc_scen pool_call1; tc_step := tc_step pool_call1; tc_parts := tc_parts pool_call1;
                 tc_data := TMap [([116]%N, TMap [([105]%N, TStr [55]%N)])] |}] /\
  run_applies false []
    [pool_call1; pool_call2;
     {| tc_scen := tc_scen pool_call1; tc_step := tc_step pool_call1; tc_parts := tc_parts pool_call1;
        tc_data := TMap [([116]%N, TMap [([105]%N, TStr [55]%N)])] |}]
  = [ApErr AeExecUrl;
     ApOk {| rp_url := [47;97]%N; rp_hdrs := []; rp_body := None |};
     ApOk {| rp_url := [47;117;47;55;47;111]%N; rp_hdrs := []; rp_body := None |}].
Proof.
  split; [|vm_compute; reflexivity].
  intros x y [<-|[<-|[<-|[]]]] [<-|[<-|[<-|[]]]]; cbn; intros; try reflexivity; discriminate.
Qed.
