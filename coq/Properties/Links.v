(* Composition theorems (Links): one model's hypotheses discharged by another model's theorems.
   Statements only; proofs live in Proofs/Link*.v (translation functions between the models'
   representations are defined there too: leaf_cfg / leaf_sched / profile_cfg, tok_abs, the
   composed engine cstep_inst / crun, prov_err / inst_err).  Compiled and counted as extra
   obligations of the check of property C03.

     L1  C01 -> C02   real profiles are well-behaved C02 leaves; trees of real profiles
     L2  C02 -> C03   the token counter of the engine model is the C02 stream of a finite schedule
     L3  C04 -> C03   the oracle discard bit is the Waiter's IsSlowDown for the token drawn
     L4  C12 <-> C02  the two instance_step streams are the same
     L5  C08 -> C03 -> C05   provider bounds, shot accounting and run outcome of one fault-free pool *)
From Coq Require Import ZArith QArith Qround List Bool Arith.
From PV Require Model.Provider Proofs.ProviderProofs Model.Pool Proofs.PoolProofs Model.StartLoop.
From PV Require Import Model.Sched Model.SchedTree Model.SchedConc Proofs.SchedProofs Proofs.SchedStep
  Proofs.SchedTreeProofs Proofs.SchedTreeSeq Proofs.SchedTreeRun Proofs.SchedTreeSpec
  Proofs.SchedConcSections Proofs.SchedConcProofs Proofs.SchedConcCor.
From PV Require Import Model.Waiter Proofs.WaiterProofs Model.Instance Proofs.InstanceProofs.
From PV Require Import Proofs.LinkSched Proofs.LinkSchedConc Proofs.LinkEngine Proofs.LinkProfile
  Proofs.LinkInstanceStep Proofs.LinkRun Proofs.LinkAll.
Import ListNotations.
Local Open Scope Z_scope.

(* ================================================================== L1 : C01 -> C02 *)

(* const / line / once: the DoAt leaf the C02 model is given for the profile (count, duration and
   instants of C01, translated by leaf_sched / at_nat) satisfies C02's leaf hypotheses [leaf_ok]
   (duration >= 0, every instant within [0, D], instants non-decreasing) and [unstarted]; the
   count and the instants are C01's count and at_. *)
Theorem L1_leaf_hypotheses : forall p, valid p -> (is_rate p = true \/ exists n, p = POnce n) ->
  let l := the_leaf p in
  leaf_ok (leaf_sched l) /\ unstarted (leaf_sched l) /\
  leaf_sched l = DoAt (Z.to_nat (count p)) (dur p) (at_nat l) 0 None /\
  Z.of_nat (Z.to_nat (count p)) = count p /\
  (forall k, (k < Z.to_nat (count p))%nat -> at_ p (Z.of_nat k) = Some (at_nat l k)).
Proof. exact the_leaf_link. Qed.
Print Assumptions L1_leaf_hypotheses.

(* every valid profile (step included: NewComposite of its const levels) as a C02 configuration:
   all flattened leaves are well behaved, nothing is of unknown length, and the abstract token
   stream from any start instant s is C01's drained stream shifted by s, finishing at
   s + C01's finish offset (= D for const / line, 0 for once, levels*D for step);
   the static count is C01's Left(). *)
Theorem L1_profile_stream : forall p, valid p ->
  exists c d xs, profile_cfg p = Some c /\ drain p = Some d /\
    d_tokens d = map Some xs /\ Z.of_nat (length xs) = d_left d /\
    Forall leaf_ok (flatten_cfg c) /\ Forall unstarted (flatten_cfg c) /\
    existsb unknown_part (flatten_cfg c) = false /\
    forall s, items_from s (flatten_cfg c) = (map (fun x => IT (s + x)) xs, s + d_finish d).
Proof. exact profile_stream. Qed.
Print Assumptions L1_profile_stream.

(* the drained stream of a const / line profile in C01's terms *)
Theorem L1_rate_drain : forall p, valid p -> is_rate p = true ->
  drain p = Some {| d_left := count p;
                    d_tokens := map (fun k => at_ p (Z.of_nat k)) (seq 0 (Z.to_nat (count p)));
                    d_finish := dur p |}.
Proof. exact rate_drain. Qed.
Print Assumptions L1_rate_drain.

(* step = the C02 composite of its const levels agrees with C01_step: the C02 stream is, level
   after level, the tokens of const(level_j, D) shifted by j*D; it finishes at levels*D; the
   number of tokens is the sum of the levels' counts. *)
Theorem L1_step : forall f t st D, valid (PStep f t st D) ->
  let lv := spec_levels f t st in
  exists c xs, profile_cfg (PStep f t st D) = Some c /\
    map Some xs = flat_map (level_tokens D 0) (combine (seq 0 (length lv)) lv) /\
    Z.of_nat (length xs) = fold_right Z.add 0 (map (fun r => count (PConst r D)) lv) /\
    Forall leaf_ok (flatten_cfg c) /\ Forall unstarted (flatten_cfg c) /\
    forall s, items_from s (flatten_cfg c) = (map (fun x => IT (s + x)) xs, s + Z.of_nat (length lv) * D).
Proof. exact step_stream. Qed.
Print Assumptions L1_step.

(* C02_seq_refines + C02_tokens_exactly_once instantiated: the tree the real constructors build
   for a valid profile, started at t0 and asked n times for the next token with any
   non-decreasing clock, never panics and returns exactly C01's tokens shifted by t0, each once,
   in order, then the finish instant for ever. *)
Theorem L1_profile_run : forall p, valid p ->
  exists c d xs, profile_cfg p = Some c /\ drain p = Some d /\ d_tokens d = map Some xs /\
    forall fuel now0, (size_cfg c <= fuel)%nat ->
    exists s, build fuel now0 c = Ok s /\
      forall lo t0 nows, clock_ok lo ((lo, OStart t0) :: next_ops nows) ->
        run_tree fuel s ((lo, OStart t0) :: next_ops nows) =
        RStart :: next_obs (firstn (length nows) (map (fun x => (t0 + x, true)) xs) ++
                            repeat (t0 + d_finish d, false) (length nows - length xs)).
Proof. exact profile_run. Qed.
Print Assumptions L1_profile_run.

(* A load profile as configured (a list of valid profiles run one after another: the nested
   composite of their schedules, step being itself a composite) discharges the hypotheses of
   C02_stream_ordered / C02_mono_finite / C02_conc_thread_mono: every leaf is leaf_ok and
   unstarted, nothing is of unknown length; hence the stream is ordered (for every lower bound m
   of the clock) and successive Next calls never return decreasing times, whatever the clock.  (C02_seq_refines needs no leaf
   hypothesis and applies to the configuration as it is.) *)
Theorem L1_profiles_composite : forall ps cs,
  Forall valid ps -> Forall2 (fun p c => profile_cfg p = Some c) ps cs ->
  let fl := flatten_cfg (CComp cs) in
  Forall leaf_ok fl /\ Forall unstarted fl /\ existsb unknown_part fl = false /\
  forall s m nows, ordered s m (fst (items_from s fl)) (snd (items_from s fl)) /\
                   nondecr s (nexts nows (snd (items_from s fl)) (fst (items_from s fl))).
Proof. exact profiles_composite. Qed.
Print Assumptions L1_profiles_composite.

(* C02_conc_flat + C02_conc_exactly_once + C02_conc_thread_mono instantiated: a profile with two
   or more leaves (a step profile with two or more levels) is built into a composite that
   satisfies the hypotheses of C02_conc_flat; under every interleaving of the atomic sections of
   any number of callers the Next results of ALL callers, in linearisation order, are C01's
   tokens shifted by the start instant, each once, then the finish; every caller sees
   non-decreasing times. *)
Theorem L1_profile_conc : forall p ls fuel now0,
  valid p -> leaves p = Some ls -> (2 <= length ls)%nat -> (length ls <= fuel)%nat ->
  let c0 := Comp (map leaf_sched ls) (la_of (map leaf_sched ls)) false in
  build fuel now0 (CComp (map leaf_cfg ls)) = Ok c0 /\
  exists d xs, drain p = Some d /\ d_tokens d = map Some xs /\
  forall lo0 ths st, init_threads ths ->
    ireach fuel {| i_g := {| g_c := c0; g_lo := lo0; g_threads := ths |};
                   i_a := a_init (flatten c0); i_log := [] |} st ->
    conc_conclusion fuel c0 lo0 ths st /\
    (exists t0, let n := length (next_nows (map evt (i_log st))) in
       next_results (map eres (i_log st)) =
       firstn n (map (fun x => (t0 + x, true)) xs) ++ repeat (t0 + d_finish d, false) (n - length xs)) /\
    (exists t0, forall i th, nth_error (g_threads (i_g st)) i = Some th -> nondecr t0 (next_results (t_hist th))).
Proof. exact profile_conc. Qed.
Print Assumptions L1_profile_conc.

(* ================================================================== L2 : C02 -> C03 *)

(* A finite flat schedule (no unlimited part) started at any instant hands out exactly
   sumcnt tokens and has no window: the abstraction [tok_abs] the engine model's counter needs. *)
Theorem L2_finite_stream : forall fl p, Forall is_leaf fl -> existsb unknown_part fl = false ->
  tok_abs (fst (items_from p fl)) (Z.to_nat (sumcnt fl)).
Proof. exact finite_stream. Qed.
Print Assumptions L2_finite_stream.

(* The same for a schedule tree of any nesting without unlimited part: the stream from any start
   instant has exactly the static count of tokens (= what Left() answers before the start,
   C02_seq_left_before_start). *)
Theorem L2_finite_tree : forall c p, existsb unknown_part (flatten_cfg c) = false ->
  tok_abs (fst (items_from p (flatten_cfg c))) (Z.to_nat (sumcnt (flatten_cfg c))) /\
  statl (flatten_cfg c) = sumcnt (flatten_cfg c).
Proof. exact finite_tree_stream. Qed.
Print Assumptions L2_finite_tree.

(* C02_seq_refines composed with the counter abstraction: the tree the real constructors build for
   a configuration without unlimited part, asked Left / Next in any order with any non-decreasing
   clock (never started explicitly, as in the engine), never panics and answers "Left() = 0" and
   Next's ok exactly as the token counter of the C03 model initialised with the static count. *)
Theorem L2_tree_is_counter : forall c fuel now0,
  (size_cfg c <= fuel)%nat -> existsb unknown_part (flatten_cfg c) = false ->
  exists s, build fuel now0 c = Ok s /\
    forall lo l, clock_ok lo (eng_ops l) ->
      map obs_bit (run_tree fuel s (eng_ops l)) = counter_obs (Z.to_nat (sumcnt (flatten_cfg c))) l.
Proof. exact tree_is_counter. Qed.
Print Assumptions L2_tree_is_counter.

(* C03's hypothesis "Left() = 0 <-> no token remains; Next succeeds <-> one remains" holds of
   the C02 stream whatever the clock (cf. C02_left_exact), and drawing a token keeps the
   abstraction with the counter decremented: for any sequence of Left / Next calls the stream and
   the counter give the same answers. *)
Theorem L2_stream_is_counter : forall f ops its n, tok_abs its n ->
  stream_obs f its ops = counter_obs n ops.
Proof. exact stream_is_counter. Qed.
Print Assumptions L2_stream_is_counter.

(* The engine driven by the real stream (Check asks abs_left, Wait draws with abs_next; shared
   schedule or one schedule per instance started at any instant; any clock values) is, step by
   step, the engine model of C03: from a coupled state every composed action is the C03 action
   [proj_action] on the C03 component, and the coupling is kept. *)
Theorem L2_step_refines : forall c fl a ts ts',
  sched_cfg_ok c fl -> Cpl c ts -> capply c fl a ts = Some ts' ->
  apply_action c (proj_action ts a) (t_s ts) = Some (t_s ts') /\ Cpl c ts'.
Proof. exact step_refines. Qed.
Print Assumptions L2_step_refines.

(* C03_conservation restated with tokens = the C01 count formula of the configured profile:
   floor of the integral of the rate for const / line, the sum over the levels for step, n for once. *)
Theorem L2_conservation_profile : forall p c s, valid p -> prof c = Z.to_nat (profile_count p) ->
  reach c s -> terminal s -> (length (insts s) >= 1)%nat ->
  (fired (sh s) + discarded (sh s))%nat =
  Nat.min ((if per_inst c then length (insts s) else 1%nat) * Z.to_nat (profile_count p)) (ammo0 c).
Proof. exact conservation_profile. Qed.
Print Assumptions L2_conservation_profile.

Theorem L2_profile_count : forall p d, valid p -> drain p = Some d ->
  d_left d = profile_count p /\
  (is_rate p = true -> profile_count p = Qfloor (cum p (dur p)) /\ profile_count p = count p).
Proof. exact profile_count_spec. Qed.
Print Assumptions L2_profile_count.

(* ================================================================== L2 + L3 : whole runs *)

(* Every run of the composed system (C02 stream + C04 Waiter + C03 sections) over a finite
   schedule: its C03 component is reachable in the C03 model (so C03_conservation,
   C03_acquire_release, C03_unfired, C03_counters hold of it), the counters are the streams, and
   (L3) the discard decisions are exactly the Waiter's: one ghost record per decision with the
   token's time, the instant Wait was entered and the earliest instant it returned; never before
   the token's time; discard_overflow off => none discarded; on => only tokens at least 2 s late
   when Wait returned, and all tokens at least 2 s late when Wait was entered (C04_late_discarded,
   after fix a013c75); the discarded records are, in order, the EDisc events of the C03 log.
   [shot_fact c r] is: sr_tok r <= sr_ret r /\ sr_enter r <= sr_ret r /\
     (sr_dec r = Discard -> discard_overflow c = true /\ max_overdue <= sr_ret r - sr_tok r) /\
     (discard_overflow c = true -> max_overdue <= sr_enter r - sr_tok r -> sr_dec r = Discard) /\
     (discard_overflow c = false -> sr_dec r = Fire);
   the oracle bit of the projected action is proj_action ts (CStep i w) = AStep i (is_slow_down (ax_w (t_aux ts i))). *)
Theorem L3_composed_run : forall c fl p0 l ts,
  sched_cfg_ok c fl -> crun c fl l (cinit c fl p0) = Some ts ->
  reach c (t_s ts) /\ Cpl c ts /\
  Forall (shot_fact c) (t_shots ts) /\
  disc_recs (t_shots ts) = disc_evs (log (sh (t_s ts))) /\
  length (filter is_disc (t_shots ts)) = discarded (sh (t_s ts)) /\
  length (filter (fun r => negb (is_disc r)) (t_shots ts)) = request (sh (t_s ts)).
Proof. exact composed_run. Qed.
Print Assumptions L3_composed_run.

(* the decision section of the C03 model with oracle bit d is C04's [decide] applied to d; and
   the bit the composed system passes is IsSlowDown of the instance's own Waiter state *)
Theorem L3_decision_is_decide : forall c i d s x a, pc x = Dec a ->
  exists s' x', local_step c i d s x = Some (s', x') /\
    (decide (discard_overflow c) d = Discard ->
       pc x' = Rel a /\ discarded s' = S (discarded s) /\ fired s' = fired s /\ request s' = request s) /\
    (decide (discard_overflow c) d = Fire ->
       pc x' = Shoot a /\ discarded s' = discarded s /\ request s' = S (request s)).
Proof. exact dec_section_is_decide. Qed.
Print Assumptions L3_decision_is_decide.

(* over the schedule of a real profile, at the end of the run: accounting with the C01 count, and
   the numbers of fired / discarded requests are the numbers of Fire / Discard decisions *)
Theorem L3_composed_profile : forall p c0 c p0 l ts, valid p -> profile_cfg p = Some c0 ->
  prof c = Z.to_nat (profile_count p) ->
  crun c (flatten_cfg c0) l (cinit c (flatten_cfg c0) p0) = Some ts ->
  reach c (t_s ts) /\ Cpl c ts /\ Forall (shot_fact c) (t_shots ts) /\
  disc_recs (t_shots ts) = disc_evs (log (sh (t_s ts))) /\
  (terminal (t_s ts) -> (length (insts (t_s ts)) >= 1)%nat ->
     (fired (sh (t_s ts)) + discarded (sh (t_s ts)))%nat =
       Nat.min ((if per_inst c then length (insts (t_s ts)) else 1%nat) * Z.to_nat (profile_count p)) (ammo0 c) /\
     fired (sh (t_s ts)) = length (filter (fun r => negb (is_disc r)) (t_shots ts)) /\
     discarded (sh (t_s ts)) = length (filter is_disc (t_shots ts))).
Proof. exact composed_profile. Qed.
Print Assumptions L3_composed_profile.

(* ================================================================== L4 : C12 <-> C02 *)

(* For all from, to, step (nat; translated to C12's Z arguments by Z.of_nat) and every duration
   and start instant: the abstract stream of C02's instance_step configuration is C12's
   istep_spec shifted by the start, and it finishes after istep_levels durations. *)
Theorem L4_instance_step : forall (from to step : nat) dur p,
  items_from p (flatten_cfg (instance_step from to step dur)) =
  (map (fun t => IT (p + t)) (istep_spec (Z.of_nat from) (Z.of_nat to) (Z.of_nat step) dur),
   p + Z.of_nat (istep_levels (Z.of_nat from) (Z.of_nat to) (Z.of_nat step)) * dur).
Proof. exact istep_stream_eq. Qed.
Print Assumptions L4_instance_step.

(* the same from C12's side (Z arguments under C12_instance_step's hypotheses), together with
   C12's statement about the code-shaped loop *)
Theorem L4_instance_step_Z : forall from to step dur p, 0 <= from -> 0 <= to -> 1 <= step ->
  istep_tokens from to step dur = Some (istep_spec from to step dur) /\
  items_from p (flatten_cfg (instance_step (Z.to_nat from) (Z.to_nat to) (Z.to_nat step) dur)) =
  (map (fun t => IT (p + t)) (istep_spec from to step dur),
   p + Z.of_nat (istep_levels from to step) * dur).
Proof. exact istep_stream_eq_Z. Qed.
Print Assumptions L4_instance_step_Z.

(* ================================================================== L5 : C08 -> C03 -> C05 *)

(* A history of the engine in which nothing fails -- the provider's message is the one given
   (not a failure), aggregator and start loop report nil or their context error, every instance
   reports nil / out of ammo (the only ways an instance of the C03 model leaves its loop,
   C12_monotone_instances) or its context error: Run returns nil unless the caller cancelled,
   and when nothing is left to run Engine.Wait() returns. *)
Theorem L5_fault_free_run : forall perr cfg tr g,
  Pool.msg_fail (Pool.ProvRes perr) = [] -> Forall (fault_free_ev perr) tr ->
  Pool.grun Pool.fixed cfg (Pool.ginit cfg) tr = Some g ->
  (forall er, Pool.eng g = Some er -> Pool.er_cancelled er = false -> Pool.er_res er = Pool.RNil) /\
  (Pool.terminal g = true -> Pool.eng g <> None /\ Pool.wait_returns g = true).
Proof. exact fault_free_run_nil. Qed.
Print Assumptions L5_fault_free_run.

(* One statement assembled from the three: provider kind k over a file of n >= 1 entries with
   bounds (limit, passes) whose min of the non-zero bounds is A; a valid (hence finite) profile p
   with T = profile_count p tokens; a pool over them in which nothing fails:
     - the provider delivers exactly A items (the cyclic prefix), returns nil, closes its sink;
     - the instances fire + discard min(T or started*T, A), release all they acquired,
       Request = Response = fired;
     - the run ends with Run = nil and Engine.Wait() returns. *)
Theorem L5_end_to_end : forall (p : profile) (k : Provider.pkind) es lim pas A fuel,
  valid p -> es <> [] -> Provider.bound lim pas (length es) = Some A ->
  (ProviderProofs.step_const * (A + length es + 1) < fuel)%nat ->
  let r := Provider.run k (ProviderProofs.cfg0 lim pas) es None fuel in
  let T := Z.to_nat (profile_count p) in
  (Provider.delivered r = Provider.cyc_prefix es A /\ length (Provider.delivered r) = A /\
   Provider.out r = Provider.Ok /\ Provider.closed r = true /\
   Provider.acquire_after r = Provider.AcqEndOfAmmo /\ prov_err (Provider.out r) = Pool.ENil) /\
  (forall c s, prof c = T -> ammo0 c = length (Provider.delivered r) ->
     reach c s -> terminal s -> (length (insts s) >= 1)%nat ->
     (fired (sh s) + discarded (sh s))%nat = Nat.min ((if per_inst c then length (insts s) else 1%nat) * T) A /\
     acquired (sh s) = released (sh s) /\ request (sh s) = fired (sh s) /\ response (sh s) = fired (sh s)) /\
  (forall cfg tr g, Forall (fault_free_ev (prov_err (Provider.out r))) tr ->
     Pool.grun Pool.fixed cfg (Pool.ginit cfg) tr = Some g ->
     (forall er, Pool.eng g = Some er -> Pool.er_cancelled er = false -> Pool.er_res er = Pool.RNil) /\
     (Pool.terminal g = true -> Pool.eng g <> None /\ Pool.wait_returns g = true)).
Proof. exact end_to_end_profile. Qed.
Print Assumptions L5_end_to_end.

(* ================================================================== non-vacuity *)

(* L1: a valid step profile with two levels (hypotheses of L1_profile_conc), and the stream of
   its C02 configuration computed by the C02 model: 1 token of level 1 rps, 3 of level 2 rps *)
Example Links_example_step :
  let p := PStep (1 # 1) (2 # 1) 1 1500000000 in
  valid p /\ (exists ls, leaves p = Some ls /\ length ls = 2%nat) /\
  option_map (fun c => items_from 100 (flatten_cfg c)) (profile_cfg p) =
    Some ([IT 100; IT 1500000100; IT 2000000100; IT 2500000100], 3000000100).
Proof.
  cbn zeta. split; [repeat split; easy|]. split; [eexists; split; vm_compute; reflexivity|].
  vm_compute. reflexivity.
Qed.

(* L2 + L3: one instance, discard_overflow on, shared profile = the C02 leaf with tokens at 0 s and
   5 s, two ammo items.  The instance picks the first token up 3 s late (discarded), then waits
   for the second (fired).  The run is accepted by the composed system, ends terminal, and the
   hypotheses of L3_composed_run hold. *)
Example Links_example_composed :
  let c := mkCfg false true 2 2 in
  let fl := [DoAt 2 6000000000 (fun k => Z.of_nat k * 5000000000) 0 None] in
  let w0 := mkWorld 0 0 {| c_ctx_done := false; c_tok := None; c_now := 0; c_cancel_in_sleep := false; c_wake := 0 |} in
  let w1 := mkWorld 3000000000 3000000000
              {| c_ctx_done := false; c_tok := Some 0; c_now := 3000000000; c_cancel_in_sleep := false; c_wake := 3000000000 |} in
  let w2 := mkWorld 3100000000 3100000000
              {| c_ctx_done := false; c_tok := Some 5000000000; c_now := 3100000000; c_cancel_in_sleep := false; c_wake := 5000000000 |} in
  let l := [CSpawn 0; CStep 0 w0; CStep 0 w0; CStep 0 w1; CStep 0 w0; CStep 0 w0;
            CStep 0 w0; CStep 0 w0; CStep 0 w2; CStep 0 w0; CStep 0 w0; CStep 0 w0; CStep 0 w0;
            CStep 0 w0; CClose] in
  sched_cfg_ok c fl /\
  exists ts, crun c fl l (cinit c fl 0) = Some ts /\ terminal_b (t_s ts) = true /\
    map sr_dec (t_shots ts) = [Fire; Discard] /\ map sr_tok (t_shots ts) = [5000000000; 0] /\
    fired (sh (t_s ts)) = 1%nat /\ discarded (sh (t_s ts)) = 1%nat.
Proof.
  cbn zeta. split.
  - split; [repeat constructor|]. split; reflexivity.
  - eexists. split; [vm_compute; reflexivity|]. vm_compute. repeat split; reflexivity.
Qed.

(* L4: the stream of C02's instance_step(2, 8, 3, 7) from instant 100 (cf. C12_instance_step_example) *)
Example Links_example_instance_step :
  items_from 100 (flatten_cfg (instance_step 2 8 3 7)) =
  ([IT 100; IT 100; IT 107; IT 107; IT 107; IT 114; IT 114; IT 114], 114) /\
  istep_spec 2 8 3 7 = [0; 0; 7; 7; 7; 14; 14; 14].
Proof. split; vm_compute; reflexivity. Qed.

(* L5: a provider with limit 3 over a file of 2 entries (A = 3, fuel 100 suffices), a valid profile
   with 7 tokens, and a fault-free history of one pool with one instance that ends with Run = nil *)
Example Links_example_end_to_end :
  let tr := [Pool.GvPool 0 (Pool.PvPre Pool.PreOk);
             Pool.GvPool 0 (Pool.PvMsg (Pool.StartRes 1 Pool.ENil) Pool.ChSend);
             Pool.GvPool 0 (Pool.PvMsg (Pool.RunRes 0 (inst_err false)) Pool.ChSend);
             Pool.GvPool 0 (Pool.PvMsg (Pool.ProvRes Pool.ENil) Pool.ChSend);
             Pool.GvPool 0 (Pool.PvMsg (Pool.AggrRes Pool.ENil) Pool.ChSend);
             Pool.GvPool 0 Pool.PvFrontClosed; Pool.GvEngRecv 0] in
  Provider.bound 3 0 2 = Some 3%nat /\ (ProviderProofs.step_const * (3 + 2 + 1) < 100)%nat /\
  valid (PLine 0 (10 # 1) 1500000000) /\ profile_count (PLine 0 (10 # 1) 1500000000) = 7 /\
  Forall (fault_free_ev Pool.ENil) tr /\
  exists g er, Pool.grun Pool.fixed [1%nat] (Pool.ginit [1%nat]) tr = Some g /\ Pool.terminal g = true /\
    Pool.eng g = Some er /\ Pool.er_res er = Pool.RNil /\ Pool.er_cancelled er = false.
Proof.
  cbn zeta. split; [reflexivity|]. split; [apply Nat.ltb_lt; vm_compute; reflexivity|]. split; [repeat split; easy|].
  split; [vm_compute; reflexivity|]. split.
  - repeat constructor. exists false. reflexivity.
  - eexists. eexists. split; [vm_compute; reflexivity|]. repeat split.
Qed.

(* What these links leave as explicit modelling steps (nothing is assumed as an axiom; these are the
   places where two models are put side by side rather than derived from one transition system):
   - L2/L3: the composed engine operates on the ABSTRACT stream, one atomic step per Next / Left.
     For the real tree this is exact under sequential callers (L2_tree_is_counter).  For
     concurrent instances the substitution of the real (nested, non-atomic) schedule for that
     atomic specification inside the engine is mechanised in Properties/Links_conc.v
     (Proofs/LinkConc*.v): the joint system "instance sections x nested schedule sections"
     (Model/SchedNested.v, shared tree of composites of any depth) is simulated by the engine of
     L2/L3 (LC_joint_simulation), so its terminal C03 state is reachable in the C03 model and the
     C03 theorems and L2_conservation_profile hold of it (LC_joint_terminal, LC_joint_accounting,
     LC_joint_profile); rps-per-instance = solo runs (LC_per_instance_solo).  (The instance of the
     same question inside C02, formerly C02_conc_nested_partial, is closed by C02_conc_nested.)
     Left as modelling decisions there: those of the nested schedule model (design/C02.md), and
     that the world of a Wait call is fixed in the step in which its Next returns.
   - L3: the worlds of Wait are restricted by [world_ok]: monotone clock, timers never early
     (C04's wf_call), no cancellation (cancellation is not in the C03 model; C05 covers it).
   - L5: the three models share numbers and result classes through explicit hypotheses of the
     assembled statement: ammo0 c = length (delivered r); the ProvRes message = prov_err (out r);
     instance results in {nil, out of ammo} (what C12_monotone_instances says of the C03 model). *)
