(* Property C07 — ammo decoding fidelity. Statements only; proofs live in Proofs/Ammo*.v.
   The third-party parsers (net/url.Parse; net/http.ReadRequest; encoding/json) are
   universally quantified parameters of every theorem. *)
From Coq Require Import List NArith ZArith Bool.
From PV Require Import Lib.AmmoBytes Lib.AmmoDecimal Lib.AmmoLines Model.AmmoCommon Model.AmmoUri
  Model.AmmoUripost Model.AmmoRaw Model.AmmoJson Model.AmmoBufio Model.AmmoBufioClients Model.AmmoSched
  Proofs.AmmoBufioProofs Proofs.AmmoBufioClientProofs Proofs.AmmoSchedProofs
  Proofs.AmmoBytesProofs Proofs.AmmoLinesProofs Proofs.AmmoDecimalProofs Proofs.AmmoUriProofs
  Proofs.AmmoUripostProofs Proofs.AmmoRawProofs Proofs.AmmoJsonProofs
  Model.AmmoConfigInput Model.AmmoCfgHeaders Proofs.AmmoCfgHeadersProofs.
Import ListNotations.
Local Open Scope N_scope.

(* uri format. For every url oracle, scanner buffer size, list of header / request / blank
   lines with any layout (leading and trailing blanks, CRLF or LF per line, blanks inside
   the header brackets, final newline or not) and every number k of Scan calls: the decoder
   delivers the first k elements of the infinite repetition of the entries the file means
   (uri_entries: each request with method GET, its uri and tag as written, empty body, and
   exactly the headers set above it since the start of the file, i.e. of the same pass). *)
Theorem C07_uri_roundtrip :
  forall url_parse maxtok (items : list (uitem * lay)) (final_nl : bool) (k : nat),
    forallb (wf_uitem url_parse maxtok) items = true ->
    uri_entries (map fst items) [] <> [] ->
    uri_decode url_parse maxtok cfg0 k (render_uri items final_nl) =
      map SDeliver (cycle_take k (uri_entries (map fst items) []) (uri_entries (map fst items) [])).
Proof. exact uri_roundtrip. Qed.
Print Assumptions C07_uri_roundtrip.

(* a well-formed file without any request ends with "no ammo" (no spinning) *)
Theorem C07_uri_no_requests :
  forall url_parse maxtok (items : list (uitem * lay)) (final_nl : bool) (k : nat),
    forallb (wf_uitem url_parse maxtok) items = true ->
    uri_entries (map fst items) [] = [] ->
    uri_decode url_parse maxtok cfg0 (S k) (render_uri items final_nl) = [SNoAmmo].
Proof. exact uri_no_requests. Qed.
Print Assumptions C07_uri_no_requests.

(* TrimSpace makes the scanner's dropCR invisible, for every line *)
Theorem C07_dropcr_invisible : forall l, trim (drop_cr l) = trim l.
Proof. exact trim_drop_cr. Qed.
Print Assumptions C07_dropcr_invisible.

(* uripost format (model of the repaired decoder, /repo 6356e4b). Items: header lines,
   blank lines, requests "size uri [tag]" LF body. Layout: blanks around every line, CRLF or
   LF, blanks inside header brackets, any number of blank lines anywhere (a body may be
   followed directly by the next line), and the LF of the very last line may be missing
   (also when that line is a request with an empty body). Bodies are arbitrary bytes (LF,
   CR, '[', digits included) and are delivered byte-exact. *)
Theorem C07_uripost_roundtrip :
  forall url_parse (items : list (pitem * lay)) (final_nl : bool) (k : nat),
    forallb (wf_pitem url_parse) items = true ->
    uripost_entries (map fst items) [] <> [] ->
    uripost_decode url_parse cfg0 k (render_uripost items final_nl) =
      map SDeliver (cycle_take k (uripost_entries (map fst items) []) (uripost_entries (map fst items) [])).
Proof. exact uripost_roundtrip. Qed.
Print Assumptions C07_uripost_roundtrip.

(* raw format: "size [tag]" LF request-bytes; the delivered ammo is exactly the request bytes
   (handed to net/http.ReadRequest at Acquire) and the tag. *)
Theorem C07_raw_roundtrip :
  forall (items : list (ritem * lay)) (final_nl : bool) (k : nat),
    forallb wf_ritem items = true ->
    raw_entries (map fst items) <> [] ->
    raw_decode cfg0 k (render_raw items final_nl) =
      map SDeliver (cycle_take k (raw_entries (map fst items)) (raw_entries (map fst items))).
Proof. exact raw_roundtrip. Qed.
Print Assumptions C07_raw_roundtrip.

(* http/json at the level of the decoded entities (the JSON text is an oracle): the object
   stream and the array form both deliver the entities cyclically, each materialised by
   entity_entry (method, "http://"+host+uri, body, tag, the entity's headers). *)
Theorem C07_json_cyclic :
  forall url_parse (ents : list entity) (es : list entry) (k : nat),
    read_array url_parse ents = Some es -> es <> [] ->
    json_stream_decode url_parse cfg0 k ents JEof = map SDeliver (cycle_take k es es) /\
    json_array_decode url_parse cfg0 k ents = Some (map SDeliver (cycle_take k es es)).
Proof. intros u ents es k H Hne. split; [apply json_stream_cyclic|apply json_array_cyclic]; assumption. Qed.
Print Assumptions C07_json_cyclic.

(* decimal sizes: Atoi inverts the rendering *)
Theorem C07_size_roundtrip : forall n, (Z.of_N n <= max_int)%Z -> atoi (dec n) = Some (Z.of_N n).
Proof. exact atoi_dec. Qed.
Print Assumptions C07_size_roundtrip.

(* non-vacuity: a concrete file meeting the hypotheses, with headers, CRLF, blanks, no final
   newline; two passes and one more delivery *)
Definition ex_url (u : bytes) : option (bytes * bytes) := Some (u, []).
Definition ex_items : list (uitem * lay) :=
  [ (UHeader [32] [65] [] [9] [98] [], {| l_lead := []; l_trail := [32]; l_cr := true |});
    (UReq [47; 97] [116; 32; 49], {| l_lead := [9]; l_trail := []; l_cr := false |});
    (UBlank, {| l_lead := [32]; l_trail := []; l_cr := true |});
    (UHeader [] [65] [] [] [] [], {| l_lead := []; l_trail := []; l_cr := false |});
    (UReq [47; 98] [], {| l_lead := []; l_trail := [32; 32]; l_cr := false |}) ].

Example C07_uri_example :
  forallb (wf_uitem ex_url max_token) ex_items = true /\
  uri_entries (map fst ex_items) [] <> [] /\
  uri_decode ex_url max_token cfg0 5 (render_uri ex_items false) =
    map SDeliver
      (let a := {| e_method := GET; e_url := [47; 97]; e_body := []; e_tag := [116; 32; 49]; e_headers := [([65], [98])] |} in
       let b := {| e_method := GET; e_url := [47; 98]; e_body := []; e_tag := []; e_headers := [([65], [])] |} in
       [a; b; a; b; a]).
Proof. split; [vm_compute; reflexivity|]. split; [vm_compute; discriminate|vm_compute; reflexivity]. Qed.

(* uripost: header, body with LF and '[' and digits, no separator after the body, last request
   with an empty body and no final newline *)
Definition ex_pitems : list (pitem * lay) :=
  [ (PHeader [] [65] [32] [] [98] [], {| l_lead := []; l_trail := []; l_cr := true |});
    (PReq [47; 97] [116; 49] [91; 10; 53; 32; 47; 10], {| l_lead := [32]; l_trail := [9]; l_cr := false |});
    (PReq [47; 98] [116; 50] [], {| l_lead := []; l_trail := []; l_cr := false |}) ].

Example C07_uripost_example :
  forallb (wf_pitem ex_url) ex_pitems = true /\
  render_uripost ex_pitems false =
    [91;65;32;58;98;93;13;10; 32;54;32;47;97;32;116;49;9;10; 91;10;53;32;47;10; 48;32;47;98;32;116;50] /\
  uripost_decode ex_url cfg0 3 (render_uripost ex_pitems false) =
    map SDeliver
      (let a := {| e_method := POST; e_url := [47; 97]; e_body := [91; 10; 53; 32; 47; 10]; e_tag := [116; 49]; e_headers := [([65], [98])] |} in
       let b := {| e_method := POST; e_url := [47; 98]; e_body := []; e_tag := [116; 50]; e_headers := [([65], [98])] |} in
       [a; b; a]).
Proof. split; [vm_compute; reflexivity|]. split; vm_compute; reflexivity. Qed.

Definition ex_ritems : list (ritem * lay) :=
  [ (RReq [116] [71; 69; 84; 32; 47; 10; 10], {| l_lead := []; l_trail := [32]; l_cr := true |});
    (RBlank, {| l_lead := [9]; l_trail := []; l_cr := false |});
    (RReq [] [80; 10; 10; 53; 32; 120; 10], {| l_lead := []; l_trail := []; l_cr := false |}) ].

Example C07_raw_example :
  forallb wf_ritem ex_ritems = true /\
  raw_decode cfg0 3 (render_raw ex_ritems false) =
    map SDeliver
      (let a := {| rb_buf := [71; 69; 84; 32; 47; 10; 10]; rb_tag := [116] |} in
       let b := {| rb_buf := [80; 10; 10; 53; 32; 120; 10]; rb_tag := [] |} in
       [a; b; a]).
Proof. split; vm_compute; reflexivity. Qed.

Example C07_json_example :
  let d := {| j_host := [104]; j_method := GET; j_uri := [47]; j_headers := [([97], [98])]; j_tag := [116]; j_body := [] |} in
  exists es, read_array ex_url [d; d] = Some es /\ es <> [] /\
    json_array_decode ex_url cfg0 3 [d; d] = Some (map SDeliver (cycle_take 3 es es)).
Proof. eexists. split; [vm_compute; reflexivity|]. split; [discriminate|vm_compute; reflexivity]. Qed.

(* ---------- round 5: the readers under the decoders, and deliveries as objects ---------- *)

(* bufio.Reader.ReadString('\n') (ReadSlice + collectFragments over a buffer of cap bytes filled by
   Read calls that may return any 1..space bytes) returns exactly the line of the logical byte
   stream, for every buffer size >= 1 and every cutting of the file into Read results: a line may span
   any number of buffer fills.  err = io.EOF exactly when the stream ends without LF. *)
Theorem C07_bufio_readstring_exact :
  forall cap, (1 <= cap)%nat -> forall st, brd_wf st = true ->
  exists data err st',
    read_string_b cap st = RSData data err st' /\ brd_wf st' = true /\
    (err = None \/ err = Some IoEof) /\
    read_string (stream st) = (data, stream st', match err with None => true | Some _ => false end).
Proof. exact read_string_b_exact. Qed.
Print Assumptions C07_bufio_readstring_exact.

(* a body of n bytes read through bufio.Reader.Read calls of any sizes (io.CopyN into a bytes.Buffer)
   = io.ReadFull of the logical stream; short exactly when fewer than n bytes are left *)
Theorem C07_bufio_body_exact :
  forall cap, (1 <= cap)%nat -> forall ask n st,
  (forall left, (1 <= left)%nat -> (1 <= ask left <= left)%nat) -> brd_wf st = true ->
  match buf_read_n cap ask n n [] st with
  | Some (Some body, st') => brd_wf st' = true /\ read_full (N.of_nat n) (stream st) = Some (body, stream st')
  | Some (None, st') => read_full (N.of_nat n) (stream st) = None /\ brd_wf st' = true /\ stream st' = []
  | None => False
  end.
Proof. exact buf_read_n_exact. Qed.
Print Assumptions C07_bufio_body_exact.

(* every client of the reader (any sequence of ReadString and sized body reads, each step depending on
   the earlier results) computes on the buffered reader what it computes on the logical stream *)
Theorem C07_bufio_clients_exact :
  forall cap, (1 <= cap)%nat -> forall (R : Type) ask (p : rprog R),
  (forall left, (1 <= left)%nat -> (1 <= ask left <= left)%nat) ->
  forall st, brd_wf st = true ->
  exists st', run_buf cap ask p st = Some (fst (run_exact p (stream st)), st') /\
              brd_wf st' = true /\ stream st' = snd (run_exact p (stream st)).
Proof. exact run_buf_exact. Qed.
Print Assumptions C07_bufio_clients_exact.

(* uripostDecoder.readBlock and the loop body of rawDecoder.Scan are such clients: run on a
   bufio.Reader they give the block result of the models that C07_uripost_roundtrip /
   C07_raw_roundtrip are about, and leave the reader at the model's rest *)
Theorem C07_uripost_block_buffered :
  forall cap ask url_parse h st,
  (1 <= cap)%nat -> (forall left, (1 <= left)%nat -> (1 <= ask left <= left)%nat) -> brd_wf st = true ->
  exists k st',
    run_buf cap ask (read_block_prog url_parse h) st = Some (k, st') /\
    k = ublk_of (read_block url_parse (stream st) h) /\ brd_wf st' = true /\
    (forall r, ublock_rest (read_block url_parse (stream st) h) = Some r -> stream st' = r).
Proof. exact read_block_buffered. Qed.
Print Assumptions C07_uripost_block_buffered.

Theorem C07_raw_block_buffered :
  forall cap ask st,
  (1 <= cap)%nat -> (forall left, (1 <= left)%nat -> (1 <= ask left <= left)%nat) -> brd_wf st = true ->
  exists k st',
    run_buf cap ask raw_block_prog st = Some (k, st') /\
    k = rblk_of (raw_block (stream st)) /\ brd_wf st' = true /\
    (forall r, rblock_rest (raw_block (stream st)) = Some r -> stream st' = r).
Proof. exact raw_block_buffered. Qed.
Print Assumptions C07_raw_block_buffered.

(* non-vacuity and separation: buffer of 4 bytes, the source cut into Reads of 3 and 6 bytes, the
   line "abcdefg\n" spans three buffer fills.  ReadString returns it whole; a ReadLine whose isPrefix
   result is ignored returns the first buffer only and leaves the rest of the line in the reader. *)
Example C07_bufio_example :
  let st := brd_new [[97; 98; 99]; [100; 101; 102; 103; 10; 104]] in
  brd_wf st = true /\
  read_string_b 4 st =
    RSData [97; 98; 99; 100; 101; 102; 103; 10] None {| b_buf := []; b_src := [[104]]; b_err := None |} /\
  read_string (stream st) = ([97; 98; 99; 100; 101; 102; 103; 10], [104], true) /\
  read_line_noprefix 4 st = RSData [97; 98; 99; 100] None {| b_buf := []; b_src := [[101; 102; 103; 10; 104]]; b_err := None |}.
Proof. repeat split; vm_compute; reflexivity. Qed.

(* Deliveries are independent objects.  For every schedule of instances (each event: the instance
   acquires if it holds nothing, else shoots what it holds; the rest is shot at the end) over the
   deliveries ds of the provider, with a fresh reader object per delivery: the requests as seen when
   they are shot (immediate part + body read then) are, in acquisition order, exactly the deliveries —
   a later Acquire never changes an earlier delivery. *)
Theorem C07_deliveries_independent :
  forall (A : Type) (evs : list nat) (ds : list (A * bytes)),
  exists n, (n <= length ds)%nat /\ sched_obs Fresh evs ds = map Some (firstn n ds).
Proof. exact sched_fresh_exact. Qed.
Print Assumptions C07_deliveries_independent.

Theorem C07_schedule_independent :
  forall (A : Type) (evs1 evs2 : list nat) (ds : list (A * bytes)),
  length (sched_obs Fresh evs1 ds) = length (sched_obs Fresh evs2 ds) ->
  sched_obs Fresh evs1 ds = sched_obs Fresh evs2 ds.
Proof. exact sched_fresh_schedule_independent. Qed.
Print Assumptions C07_schedule_independent.

(* non-vacuity and separation: two instances acquire, then both shoot.  Fresh readers: both bodies as
   delivered.  A reader object recycled when the decoding function returns (Pooled): the first
   instance sends the body of the second delivery. *)
Example C07_sched_example :
  let ds := [(1%nat, [65; 65]); (2%nat, [66])] in
  sched_obs Fresh [0; 1; 0; 1]%nat ds = map Some ds /\
  sched_obs Fresh [0; 0; 0; 0]%nat ds = map Some ds.
Proof. split; vm_compute; reflexivity. Qed.

Example C07_pooled_reader_refuted :
  exists (evs : list nat) (ds : list (nat * bytes)),
    sched_obs Pooled evs ds = [Some (1%nat, [66]); Some (2%nat, [66])] /\
    sched_obs Pooled evs ds <> map Some ds.
Proof.
  exists [0; 1; 0; 1]%nat, [(1%nat, [65; 65]); (2%nat, [66])]. split; [vm_compute; reflexivity|].
  vm_compute. discriminate.
Qed.

(* ---------- round 6: the provider's configured default headers ---------- *)

(* Effective headers, uri / uripost (readLine / readBlock: clone of the in-file accumulator, configured
   names it lacks copied): for every configured map, every set of headers the entry names and every name k,
   the merged map holds the entry's own value alone when the entry names k, otherwise all configured values. *)
Theorem C07_cfg_line_effective :
  forall cfg own k, mget k (line_merge cfg own) = eff_lookup cfg own k.
Proof. exact line_merge_effective. Qed.
Print Assumptions C07_cfg_line_effective.

(* the same for http/json (Scan and readArray: clone of the configured map, Set per entity header, names
   as written in the object and canonicalised by Set) *)
Theorem C07_cfg_json_effective :
  forall cfg own k, mget k (json_merge own cfg) = eff_lookup cfg (set_all own []) k.
Proof. exact json_merge_effective. Qed.
Print Assumptions C07_cfg_json_effective.

(* so the formats agree on the effective headers of one entry *)
Theorem C07_cfg_merges_agree :
  forall cfg own k, mget k (line_merge cfg (set_all own [])) = mget k (json_merge own cfg).
Proof. exact merges_agree. Qed.
Print Assumptions C07_cfg_merges_agree.

(* util.DecodeHTTPConfigHeaders yields distinct canonical names, each with at least one value; on such a
   map EnrichRequestWithHeaders cannot hit values[0] of an empty list *)
Theorem C07_cfg_enrich_total :
  forall hs cfg host own, config_headers hs [] = inl cfg -> mhas HOST own = false ->
    enrich_m host cfg own <> None.
Proof. intros hs cfg host own H. apply enrich_m_total. exact (config_headers_mwf hs [] cfg mwf_nil H). Qed.
Print Assumptions C07_cfg_enrich_total.

(* uri with configured headers, for every configured list the provider accepts: every delivery, built by
   Ammo.BuildRequest (NewRequest + EnrichRequestWithHeaders over a map with several values per name), is
   the request the specification states for the entry at that place of the cyclic sequence (spec_request:
   own headers first, configured values for names the entry does not carry, Host only as the request's Host
   when the URL names none) - header list included. *)
Theorem C07_uri_cfg_roundtrip :
  forall url_parse maxtok hs cfg (items : list (uitem * lay)) (final_nl : bool) (k : nat),
    config_headers hs [] = inl cfg ->
    forallb (wf_uitem url_parse maxtok) items = true ->
    uri_entries (map fst items) [] <> [] ->
    map (sres_map (build_m url_parse))
        (line_run_cfg cfg (uri_decode url_parse maxtok cfg0 k (render_uri items final_nl))) =
      map SDeliver (map (spec_built url_parse cfg)
                        (cycle_take k (uri_entries (map fst items) []) (uri_entries (map fst items) []))).
Proof. exact uri_cfg_roundtrip. Qed.
Print Assumptions C07_uri_cfg_roundtrip.

Theorem C07_uripost_cfg_roundtrip :
  forall url_parse hs cfg (items : list (pitem * lay)) (final_nl : bool) (k : nat),
    config_headers hs [] = inl cfg ->
    forallb (wf_pitem url_parse) items = true ->
    uripost_entries (map fst items) [] <> [] ->
    map (sres_map (build_m url_parse))
        (line_run_cfg cfg (uripost_decode url_parse cfg0 k (render_uripost items final_nl))) =
      map SDeliver (map (spec_built url_parse cfg)
                        (cycle_take k (uripost_entries (map fst items) []) (uripost_entries (map fst items) []))).
Proof. exact uripost_cfg_roundtrip. Qed.
Print Assumptions C07_uripost_cfg_roundtrip.

(* raw: the deliveries are the written buffers with the configured map next to them; whatever
   http.ReadRequest finds in a buffer (Host, own header map without a "Host" name), BuildRequest adds
   exactly the configured names the request lacks *)
Theorem C07_raw_cfg_roundtrip :
  forall hs cfg (items : list (ritem * lay)) (final_nl : bool) (k : nat),
    config_headers hs [] = inl cfg ->
    forallb wf_ritem items = true ->
    raw_entries (map fst items) <> [] ->
    raw_run_cfg cfg (raw_decode cfg0 k (render_raw items final_nl)) =
      map SDeliver (map (raw_mentry cfg) (cycle_take k (raw_entries (map fst items)) (raw_entries (map fst items)))) /\
    forall host own, mhas HOST own = false -> raw_enrich cfg host own = Some (spec_raw cfg host own).
Proof. exact raw_cfg_roundtrip. Qed.
Print Assumptions C07_raw_cfg_roundtrip.

(* http/json with configured headers: the object stream (one per line / pretty-printed) and the array
   deliver the same cyclic sequence; entity by entity the built request is the specification's request of
   the entity's entry (same method, URL, Host, body, tag; the header list is a permutation - the
   observation sorts it). *)
Theorem C07_json_cfg_cyclic :
  forall url_parse hs cfg (ents : list entity) (es : list entry) (k : nat),
    config_headers hs [] = inl cfg ->
    read_array url_parse ents = Some es -> es <> [] ->
    exists mes,
      json_stream_decode_cfg url_parse cfg cfg0 k ents JEof = map SDeliver (cycle_take k mes mes) /\
      json_array_decode_cfg url_parse cfg cfg0 k ents = Some (map SDeliver (cycle_take k mes mes)) /\
      Forall2 (fun e me =>
                 match spec_request url_parse cfg e with
                 | Some rs => exists r, build_m url_parse me = MBOk r /\ mreq_equiv r rs
                 | None => build_m url_parse me = MBInvalid
                 end) es mes.
Proof. exact json_cfg_cyclic. Qed.
Print Assumptions C07_json_cfg_cyclic.

(* the loops used for that are those of Model.AmmoJson (C07_json_cyclic) with the entity step as a parameter *)
Theorem C07_json_model_instance :
  forall url_parse c k ents e,
    json_stream_decode_g (entity_entry url_parse) c k ents e = json_stream_decode url_parse c k ents e /\
    json_array_decode_g (entity_entry url_parse) c k ents = json_array_decode url_parse c k ents.
Proof. exact json_g_instance. Qed.
Print Assumptions C07_json_model_instance.

(* non-vacuity and the counter-model.  Configured: [Content-Type: application/json], [ X-a : 1], [x-A: 2];
   the entity names "content-type": "text/xml".  The array delivers Content-Type = text/xml alone and X-A with
   both configured values; with Add instead of Set (counter-model) Content-Type carries both values. *)
Definition ex_cfg_list : list bytes :=
  [ [91; 67;111;110;116;101;110;116;45;84;121;112;101; 58; 32; 97;112;112;108;105;99;97;116;105;111;110;47;106;115;111;110; 93];
    [91; 32; 88;45;97; 32; 58; 32; 49; 93];
    [91; 120;45;65; 58; 32; 50; 93] ].
Definition ex_ct : bytes := [67;111;110;116;101;110;116;45;84;121;112;101].
Definition ex_json : bytes := [97;112;112;108;105;99;97;116;105;111;110;47;106;115;111;110].
Definition ex_xml : bytes := [116;101;120;116;47;120;109;108].
Definition ex_entity : entity :=
  {| j_host := [104]; j_method := GET; j_uri := [47];
     j_headers := [([99;111;110;116;101;110;116;45;116;121;112;101], ex_xml)]; j_tag := [116]; j_body := [] |}.

Example C07_cfg_example :
  exists cfg, config_headers ex_cfg_list [] = inl cfg /\
    cfg = [(ex_ct, [ex_json]); ([88;45;65], [[49]; [50]])] /\
    (exists es, read_array ex_url [ex_entity] = Some es /\ es <> []) /\
    (exists me, json_array_decode_cfg ex_url cfg cfg0 2 [ex_entity] = Some [SDeliver me; SDeliver me] /\
       me_headers me = [(ex_ct, [ex_xml]); ([88;45;65], [[49]; [50]])]).
Proof.
  eexists. split; [vm_compute; reflexivity|]. split; [reflexivity|].
  split; [eexists; split; [vm_compute; reflexivity|discriminate]|].
  eexists. split; vm_compute; reflexivity.
Qed.

Example C07_cfg_add_refuted :
  exists cfg own k,
    config_headers ex_cfg_list [] = inl cfg /\
    mget k (json_merge_add own cfg) <> eff_lookup cfg (set_all own []) k /\
    mget k (json_merge_add own cfg) = Some [ex_json; ex_xml] /\
    mget k (json_merge own cfg) = Some [ex_xml].
Proof.
  eexists. exists (j_headers ex_entity), ex_ct.
  split; [vm_compute; reflexivity|]. split; [vm_compute; discriminate|]. split; vm_compute; reflexivity.
Qed.

(* middlewares (Provider.Acquire: BuildRequest, then UpdateRequest of each configured middleware): header/date
   adds one value under its canonical header name after the values already there and leaves the rest of the
   request alone (the value itself, the clock reading in the configured location, is checked by the harness
   against the wall clock around the Acquire call); without middlewares Acquire is BuildRequest *)
Theorem C07_mw_date_adds :
  forall i name r,
  exists r', mw_update i (MwDate name) r = Some r' /\
    mr_method r' = mr_method r /\ mr_url r' = mr_url r /\ mr_host r' = mr_host r /\
    mr_body r' = mr_body r /\ mr_tag r' = mr_tag r /\
    forall k, mget k (mr_headers r') =
      let nm := canon_key (if is_nil name then DATE else name) in
      if beq k nm
      then Some (match mget nm (mr_headers r) with Some vs => vs ++ [DATE_STAMP] | None => [DATE_STAMP] end)
      else mget k (mr_headers r).
Proof. exact mw_date_adds. Qed.
Print Assumptions C07_mw_date_adds.

Theorem C07_mw_none : forall i b, acquire_m [] i b = b.
Proof. exact acquire_no_mw. Qed.
Print Assumptions C07_mw_none.
