(* Property C07 — ammo decoding fidelity. Statements only; proofs live in Proofs/Ammo*.v.
   The third-party parsers (net/url.Parse; net/http.ReadRequest; encoding/json) are
   universally quantified parameters of every theorem. *)
From Coq Require Import List NArith ZArith Bool.
From PV Require Import Lib.AmmoBytes Lib.AmmoDecimal Lib.AmmoLines Model.AmmoCommon Model.AmmoUri
  Model.AmmoUripost Model.AmmoRaw Model.AmmoJson
  Proofs.AmmoBytesProofs Proofs.AmmoLinesProofs Proofs.AmmoDecimalProofs Proofs.AmmoUriProofs
  Proofs.AmmoUripostProofs Proofs.AmmoRawProofs Proofs.AmmoJsonProofs.
Import ListNotations.
Local Open Scope N_scope.

(* uri format. For every url oracle, scanner buffer size, list of header / request / blank
   lines with any layout (leading and trailing blanks, CRLF or LF per line, blanks inside
   the header brackets, final newline or not) and every number k of Scan calls: the decoder
   delivers the first k elements of the infinite repetition of the entries the file means
   (uri_entries: each request with method GET, its uri and tag as written, empty body, and
   exactly the headers set above it since the start of the file, i.e. of the same pass). *)
Theorem C07_uri_roundtrip :
  forall url_parse maxtok (items : list (uitem * lay)) (final_nl : bool) (k : nat),
    forallb (wf_uitem url_parse maxtok) items = true ->
    uri_entries (map fst items) [] <> [] ->
    uri_decode url_parse maxtok cfg0 k (render_uri items final_nl) =
      map SDeliver (cycle_take k (uri_entries (map fst items) []) (uri_entries (map fst items) [])).
Proof. exact uri_roundtrip. Qed.
Print Assumptions C07_uri_roundtrip.

(* a well-formed file without any request ends with "no ammo" (no spinning) *)
Theorem C07_uri_no_requests :
  forall url_parse maxtok (items : list (uitem * lay)) (final_nl : bool) (k : nat),
    forallb (wf_uitem url_parse maxtok) items = true ->
    uri_entries (map fst items) [] = [] ->
    uri_decode url_parse maxtok cfg0 (S k) (render_uri items final_nl) = [SNoAmmo].
Proof. exact uri_no_requests. Qed.
Print Assumptions C07_uri_no_requests.

(* TrimSpace makes the scanner's dropCR invisible, for every line *)
Theorem C07_dropcr_invisible : forall l, trim (drop_cr l) = trim l.
Proof. exact trim_drop_cr. Qed.
Print Assumptions C07_dropcr_invisible.

(* uripost format (model of the repaired decoder, /repo 6356e4b). Items: header lines,
   blank lines, requests "size uri [tag]" LF body. Layout: blanks around every line, CRLF or
   LF, blanks inside header brackets, any number of blank lines anywhere (a body may be
   followed directly by the next line), and the LF of the very last line may be missing
   (also when that line is a request with an empty body). Bodies are arbitrary bytes (LF,
   CR, '[', digits included) and are delivered byte-exact. *)
Theorem C07_uripost_roundtrip :
  forall url_parse (items : list (pitem * lay)) (final_nl : bool) (k : nat),
    forallb (wf_pitem url_parse) items = true ->
    uripost_entries (map fst items) [] <> [] ->
    uripost_decode url_parse cfg0 k (render_uripost items final_nl) =
      map SDeliver (cycle_take k (uripost_entries (map fst items) []) (uripost_entries (map fst items) [])).
Proof. exact uripost_roundtrip. Qed.
Print Assumptions C07_uripost_roundtrip.

(* raw format: "size [tag]" LF request-bytes; the delivered ammo is exactly the request bytes
   (handed to net/http.ReadRequest at Acquire) and the tag. *)
Theorem C07_raw_roundtrip :
  forall (items : list (ritem * lay)) (final_nl : bool) (k : nat),
    forallb wf_ritem items = true ->
    raw_entries (map fst items) <> [] ->
    raw_decode cfg0 k (render_raw items final_nl) =
      map SDeliver (cycle_take k (raw_entries (map fst items)) (raw_entries (map fst items))).
Proof. exact raw_roundtrip. Qed.
Print Assumptions C07_raw_roundtrip.

(* http/json at the level of the decoded entities (the JSON text is an oracle): the object
   stream and the array form both deliver the entities cyclically, each materialised by
   entity_entry (method, "http://"+host+uri, body, tag, the entity's headers). *)
Theorem C07_json_cyclic :
  forall url_parse (ents : list entity) (es : list entry) (k : nat),
    read_array url_parse ents = Some es -> es <> [] ->
    json_stream_decode url_parse cfg0 k ents JEof = map SDeliver (cycle_take k es es) /\
    json_array_decode url_parse cfg0 k ents = Some (map SDeliver (cycle_take k es es)).
Proof. intros u ents es k H Hne. split; [apply json_stream_cyclic|apply json_array_cyclic]; assumption. Qed.
Print Assumptions C07_json_cyclic.

(* decimal sizes: Atoi inverts the rendering *)
Theorem C07_size_roundtrip : forall n, (Z.of_N n <= max_int)%Z -> atoi (dec n) = Some (Z.of_N n).
Proof. exact atoi_dec. Qed.
Print Assumptions C07_size_roundtrip.

(* non-vacuity: a concrete file meeting the hypotheses, with headers, CRLF, blanks, no final
   newline; two passes and one more delivery *)
Definition ex_url (u : bytes) : option (bytes * bytes) := Some (u, []).
Definition ex_items : list (uitem * lay) :=
  [ (UHeader [32] [65] [] [9] [98] [], {| l_lead := []; l_trail := [32]; l_cr := true |});
    (UReq [47; 97] [116; 32; 49], {| l_lead := [9]; l_trail := []; l_cr := false |});
    (UBlank, {| l_lead := [32]; l_trail := []; l_cr := true |});
    (UHeader [] [65] [] [] [] [], {| l_lead := []; l_trail := []; l_cr := false |});
    (UReq [47; 98] [], {| l_lead := []; l_trail := [32; 32]; l_cr := false |}) ].

Example C07_uri_example :
  forallb (wf_uitem ex_url max_token) ex_items = true /\
  uri_entries (map fst ex_items) [] <> [] /\
  uri_decode ex_url max_token cfg0 5 (render_uri ex_items false) =
    map SDeliver
      (let a := {| e_method := GET; e_url := [47; 97]; e_body := []; e_tag := [116; 32; 49]; e_headers := [([65], [98])] |} in
       let b := {| e_method := GET; e_url := [47; 98]; e_body := []; e_tag := []; e_headers := [([65], [])] |} in
       [a; b; a; b; a]).
Proof. split; [vm_compute; reflexivity|]. split; [vm_compute; discriminate|vm_compute; reflexivity]. Qed.

(* uripost: header, body with LF and '[' and digits, no separator after the body, last request
   with an empty body and no final newline *)
Definition ex_pitems : list (pitem * lay) :=
  [ (PHeader [] [65] [32] [] [98] [], {| l_lead := []; l_trail := []; l_cr := true |});
    (PReq [47; 97] [116; 49] [91; 10; 53; 32; 47; 10], {| l_lead := [32]; l_trail := [9]; l_cr := false |});
    (PReq [47; 98] [116; 50] [], {| l_lead := []; l_trail := []; l_cr := false |}) ].

Example C07_uripost_example :
  forallb (wf_pitem ex_url) ex_pitems = true /\
  render_uripost ex_pitems false =
    [91;65;32;58;98;93;13;10; 32;54;32;47;97;32;116;49;9;10; 91;10;53;32;47;10; 48;32;47;98;32;116;50] /\
  uripost_decode ex_url cfg0 3 (render_uripost ex_pitems false) =
    map SDeliver
      (let a := {| e_method := POST; e_url := [47; 97]; e_body := [91; 10; 53; 32; 47; 10]; e_tag := [116; 49]; e_headers := [([65], [98])] |} in
       let b := {| e_method := POST; e_url := [47; 98]; e_body := []; e_tag := [116; 50]; e_headers := [([65], [98])] |} in
       [a; b; a]).
Proof. split; [vm_compute; reflexivity|]. split; vm_compute; reflexivity. Qed.

Definition ex_ritems : list (ritem * lay) :=
  [ (RReq [116] [71; 69; 84; 32; 47; 10; 10], {| l_lead := []; l_trail := [32]; l_cr := true |});
    (RBlank, {| l_lead := [9]; l_trail := []; l_cr := false |});
    (RReq [] [80; 10; 10; 53; 32; 120; 10], {| l_lead := []; l_trail := []; l_cr := false |}) ].

Example C07_raw_example :
  forallb wf_ritem ex_ritems = true /\
  raw_decode cfg0 3 (render_raw ex_ritems false) =
    map SDeliver
      (let a := {| rb_buf := [71; 69; 84; 32; 47; 10; 10]; rb_tag := [116] |} in
       let b := {| rb_buf := [80; 10; 10; 53; 32; 120; 10]; rb_tag := [] |} in
       [a; b; a]).
Proof. split; vm_compute; reflexivity. Qed.

Example C07_json_example :
  let d := {| j_host := [104]; j_method := GET; j_uri := [47]; j_headers := [([97], [98])]; j_tag := [116]; j_body := [] |} in
  exists es, read_array ex_url [d; d] = Some es /\ es <> [] /\
    json_array_decode ex_url cfg0 3 [d; d] = Some (map SDeliver (cycle_take 3 es es)).
Proof. eexists. split; [vm_compute; reflexivity|]. split; [discriminate|vm_compute; reflexivity]. Qed.
