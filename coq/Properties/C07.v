(* Property C07 — ammo decoding fidelity. Statements only; proofs live in Proofs/Ammo*.v.
   The third-party parsers (net/url.Parse; net/http.ReadRequest; encoding/json) are
   universally quantified parameters of every theorem. *)
From Coq Require Import List NArith ZArith Bool.
From PV Require Import Lib.AmmoBytes Lib.AmmoLines Model.AmmoCommon Model.AmmoUri
  Proofs.AmmoBytesProofs Proofs.AmmoLinesProofs Proofs.AmmoUriProofs.
Import ListNotations.
Local Open Scope N_scope.

(* uri format. For every url oracle, scanner buffer size, list of header / request / blank
   lines with any layout (leading and trailing blanks, CRLF or LF per line, blanks inside
   the header brackets, final newline or not) and every number k of Scan calls: the decoder
   delivers the first k elements of the infinite repetition of the entries the file means
   (uri_entries: each request with method GET, its uri and tag as written, empty body, and
   exactly the headers set above it since the start of the file, i.e. of the same pass). *)
Theorem C07_uri_roundtrip :
  forall url_parse maxtok (items : list (uitem * lay)) (final_nl : bool) (k : nat),
    forallb (wf_uitem url_parse maxtok) items = true ->
    uri_entries (map fst items) [] <> [] ->
    uri_decode url_parse maxtok cfg0 k (render_uri items final_nl) =
      map SDeliver (cycle_take k (uri_entries (map fst items) []) (uri_entries (map fst items) [])).
Proof. exact uri_roundtrip. Qed.
Print Assumptions C07_uri_roundtrip.

(* a well-formed file without any request ends with "no ammo" (no spinning) *)
Theorem C07_uri_no_requests :
  forall url_parse maxtok (items : list (uitem * lay)) (final_nl : bool) (k : nat),
    forallb (wf_uitem url_parse maxtok) items = true ->
    uri_entries (map fst items) [] = [] ->
    uri_decode url_parse maxtok cfg0 (S k) (render_uri items final_nl) = [SNoAmmo].
Proof. exact uri_no_requests. Qed.
Print Assumptions C07_uri_no_requests.

(* TrimSpace makes the scanner's dropCR invisible, for every line *)
Theorem C07_dropcr_invisible : forall l, trim (drop_cr l) = trim l.
Proof. exact trim_drop_cr. Qed.
Print Assumptions C07_dropcr_invisible.

(* non-vacuity: a concrete file meeting the hypotheses, with headers, CRLF, blanks, no final
   newline; two passes and one more delivery *)
Definition ex_url (u : bytes) : option (bytes * bytes) := Some (u, []).
Definition ex_items : list (uitem * lay) :=
  [ (UHeader [32] [65] [] [9] [98] [], {| l_lead := []; l_trail := [32]; l_cr := true |});
    (UReq [47; 97] [116; 32; 49], {| l_lead := [9]; l_trail := []; l_cr := false |});
    (UBlank, {| l_lead := [32]; l_trail := []; l_cr := true |});
    (UHeader [] [65] [] [] [] [], {| l_lead := []; l_trail := []; l_cr := false |});
    (UReq [47; 98] [], {| l_lead := []; l_trail := [32; 32]; l_cr := false |}) ].

Example C07_uri_example :
  forallb (wf_uitem ex_url max_token) ex_items = true /\
  uri_entries (map fst ex_items) [] <> [] /\
  uri_decode ex_url max_token cfg0 5 (render_uri ex_items false) =
    map SDeliver
      (let a := {| e_method := GET; e_url := [47; 97]; e_body := []; e_tag := [116; 32; 49]; e_headers := [([65], [98])] |} in
       let b := {| e_method := GET; e_url := [47; 98]; e_body := []; e_tag := []; e_headers := [([65], [])] |} in
       [a; b; a; b; a]).
Proof. split; [vm_compute; reflexivity|]. split; [vm_compute; discriminate|vm_compute; reflexivity]. Qed.
