(* Property C03 — engine shot accounting. Statements only; proofs live in Proofs/InstanceProofs.v. *)
From Coq Require Import List Arith Bool.
From PV Require Import Model.Instance Proofs.InstanceProofs.
Import ListNotations.

(* Every trace (any interleaving of the sections of any number of dynamically started
   instances) that ends with all instances finished and the start loop over, with at least
   one instance started: shots + discards = min(tokens, ammo), where tokens is the shared
   profile or one full profile per started instance. *)
Theorem C03_conservation : forall c s,
  reach c s -> terminal s -> length (insts s) >= 1 ->
  fired (sh s) + discarded (sh s) = Nat.min (tokens c s) (ammo0 c).
Proof. exact conservation. Qed.
Print Assumptions C03_conservation.

(* acquired-but-unfired items: at most instances-1 with a shared profile, none with per-instance profiles *)
Theorem C03_unfired : forall c s,
  reach c s -> terminal s -> length (insts s) >= 1 ->
  (per_inst c = false -> acquired (sh s) - (fired (sh s) + discarded (sh s)) <= length (insts s) - 1)
  /\ (per_inst c = true -> acquired (sh s) = fired (sh s) + discarded (sh s)).
Proof. exact unfired_bound. Qed.
Print Assumptions C03_unfired.

(* Metrics.Request = Metrics.Response = number of Shoot calls; no discards unless discard_overflow *)
Theorem C03_counters : forall c s,
  reach c s -> terminal s ->
  request (sh s) = fired (sh s) /\ response (sh s) = fired (sh s)
  /\ (discard_overflow c = false -> discarded (sh s) = 0).
Proof. exact counters. Qed.
Print Assumptions C03_counters.

(* non-vacuity: one instance, profile once(1), one ammo item: a complete run exists *)
Example C03_run_exists :
  exists s, run (mkCfg false false 1 1)
                [ASpawn; AStep 0 false; AStep 0 false; AStep 0 false; AStep 0 false; AStep 0 false;
                 AStep 0 false; AStep 0 false; AStep 0 false; AClose] (init (mkCfg false false 1 1)) = Some s
            /\ terminal_b s = true /\ length (insts s) >= 1 /\ fired (sh s) = 1.
Proof. eexists. split; [vm_compute; reflexivity|]. vm_compute. repeat split; auto. Qed.
