(* Property C03 — engine shot accounting. Statements only; proofs live in Proofs/InstanceProofs.v. *)
From Coq Require Import List Arith Bool.
From PV Require Import Model.Instance Proofs.InstanceProofs.
Import ListNotations.

(* Every trace (any interleaving of the sections of any number of dynamically started
   instances) that ends with all instances finished and the start loop over, with at least
   one instance started: shots + discards = min(tokens, ammo), where tokens is the shared
   profile or one full profile per started instance. *)
Theorem C03_conservation : forall c s,
  reach c s -> terminal s -> length (insts s) >= 1 ->
  fired (sh s) + discarded (sh s) = Nat.min (tokens c s) (ammo0 c).
Proof. exact conservation. Qed.
Print Assumptions C03_conservation.

(* acquired-but-unfired items: at most instances-1 with a shared profile, none with per-instance profiles *)
Theorem C03_unfired : forall c s,
  reach c s -> terminal s -> length (insts s) >= 1 ->
  (per_inst c = false -> acquired (sh s) - (fired (sh s) + discarded (sh s)) <= length (insts s) - 1)
  /\ (per_inst c = true -> acquired (sh s) = fired (sh s) + discarded (sh s)).
Proof. exact unfired_bound. Qed.
Print Assumptions C03_unfired.

(* Metrics.Request = Metrics.Response = number of Shoot calls; no discards unless discard_overflow *)
Theorem C03_counters : forall c s,
  reach c s -> terminal s ->
  request (sh s) = fired (sh s) /\ response (sh s) = fired (sh s)
  /\ (discard_overflow c = false -> discarded (sh s) = 0).
Proof. exact counters. Qed.
Print Assumptions C03_counters.

(* Every acquired item is released exactly once, by the instance that acquired it, after its
   Shoot or discard (or directly, when the profile ran out while the item was held), and no
   event touches an item after its release; items never acquired have no events. *)
Theorem C03_acquire_release : forall c s,
  reach c s -> terminal s ->
  acquired (sh s) = released (sh s)
  /\ (forall a, a < acquired (sh s) -> item_history_ok a (proj a (events s)))
  /\ (forall a, acquired (sh s) <= a -> proj a (events s) = []).
Proof. exact acquire_release. Qed.
Print Assumptions C03_acquire_release.

(* The boolean checker the correspondence driver runs on OBSERVED logs decides that statement. *)
Theorem C03_pairing_checker : forall n l,
  pairing_b n l = true <->
  (forall a, a < n -> item_history_ok a (proj a l)) /\ (forall a, n <= a -> proj a l = []).
Proof. exact pairing_b_spec. Qed.
Print Assumptions C03_pairing_checker.

(* A log of the real engine that the replay accepts ends in a state of the model that is
   reachable: the theorems above apply to the counters the model predicts for that run. *)
Theorem C03_replay_sound : forall c l s k,
  replay c l (init c) 0 = (s, k, true) -> reach c s.
Proof. intros c l s k H. eapply replay_reach; [constructor|exact H]. Qed.
Print Assumptions C03_replay_sound.

(* non-vacuity: one instance, profile once(1), one ammo item: a complete run exists *)
Example C03_run_exists :
  exists s, run (mkCfg false false 1 1)
                [ASpawn; AStep 0 false; AStep 0 false; AStep 0 false; AStep 0 false; AStep 0 false;
                 AStep 0 false; AStep 0 false; AStep 0 false; AClose] (init (mkCfg false false 1 1)) = Some s
            /\ terminal_b s = true /\ length (insts s) >= 1 /\ fired (sh s) = 1.
Proof. eexists. split; [vm_compute; reflexivity|]. vm_compute. repeat split; auto. Qed.

(* the unfired bound is reached: shared profile once(1), two instances, two items *)
Example C03_unfired_tight :
  exists s, run (mkCfg false false 1 2)
                [ASpawn; ASpawn; AStep 0 false; AStep 1 false; AStep 0 false; AStep 1 false; AStep 0 false;
                 AStep 1 false; AStep 0 false; AStep 0 false; AStep 0 false; AStep 0 false; AStep 0 false;
                 AStep 1 false; AStep 1 false; AClose] (init (mkCfg false false 1 2)) = Some s
            /\ terminal_b s = true /\ acquired (sh s) - (fired (sh s) + discarded (sh s)) = length (insts s) - 1
            /\ fired (sh s) + discarded (sh s) = 1.
Proof. eexists. split; [vm_compute; reflexivity|]. vm_compute. repeat split; auto. Qed.

(* per-instance profiles, discard_overflow with the overdue oracle set: 2 instances x once(1), 3 items *)
Example C03_per_instance_run :
  exists s, run (mkCfg true true 1 3)
                [ASpawn; AStep 0 false; AStep 0 false; AStep 0 false; AStep 0 true; AStep 0 false; AStep 0 false;
                 ASpawn; AStep 1 false; AStep 1 false; AStep 1 false; AStep 1 false; AStep 1 false; AStep 1 false;
                 AStep 1 false; AStep 1 false; AClose] (init (mkCfg true true 1 3)) = Some s
            /\ terminal_b s = true /\ fired (sh s) = 1 /\ discarded (sh s) = 1 /\ tokens (mkCfg true true 1 3) s = 2.
Proof. eexists. split; [vm_compute; reflexivity|]. vm_compute. repeat split; auto. Qed.
