(* Property C09, "body bytes ... unchanged" under EVERY gun configuration: the gun options that make BaseGun.Shoot read the
   request body before it is sent (answlog: base.go GetBody; httptrace.dump: httputil.DumpRequest) or wrap the request
   (httptrace.trace: req.WithContext) must not change what reaches the target.  Statements only; proofs live in
   Proofs/HttpShootProofs.v.

   Model (Model/HttpShoot.v): req.Body is a one-way reader [req_body] (unread bytes, the Content-Length the head announces,
   the GetBody snapshot that only requests built by http.NewRequest have — raw entries, parsed by http.ReadRequest, have
   none); [body_of f chunked body] = the Body of the request a format-f entry builds; [pre_send o b] = Shoot up to
   Client.Do under options o; [send] = what net/http makes of the reader (Broken when it yields another number of bytes
   than the head announces); [shoot_wire o g f chunked r] = what the target receives for request r. *)
From Coq Require Import List NArith Bool.
From PV Require Import Model.Headers Model.HttpShoot Proofs.HeadersProofs Proofs.HttpShootProofs.
Import ListNotations.
Local Open Scope N_scope.

(* the body handed to the client is the body the ammo built, for every option combination, format, transfer encoding *)
Theorem C09_body_any_gun_options : forall o f chunked body,
  shoot_send o (body_of f chunked body) = Sent body.
Proof. exact shoot_send_any_options. Qed.
Print Assumptions C09_body_any_gun_options.

(* gun options are invisible on the wire: the request the target receives is on_wire of the built request *)
Theorem C09_gun_options_invisible : forall o g f chunked r,
  shoot_wire o g f chunked r = Some (on_wire g r).
Proof. exact shoot_wire_any_options. Qed.
Print Assumptions C09_gun_options_invisible.

(* with C09_passthrough: the entry's body arrives, never a broken request *)
Theorem C09_passthrough_any_gun_options : forall canon, (forall s, canon (canon s) = canon s) ->
  forall o f chunked file cfg e g,
  exists w, shoot_wire o g f chunked (effective canon f file cfg e) = Some w /\
    w = on_wire g (effective canon f file cfg e) /\ w_body w = spec_body f e.
Proof. exact shoot_passthrough. Qed.
Print Assumptions C09_passthrough_any_gun_options.

(* whole files under any gun options and any choice of chunked entries *)
Theorem C09_file_any_gun_options : forall canon, (forall s, canon (canon s) = canon s) ->
  forall o (chf : request -> bool) f cfg g items, items_guard canon f [] items ->
  Forall2 (fun ow s => exists w, ow = Some w /\ wire_equiv w s)
    (map (fun r => shoot_wire o g f (chf r) r) (file_requests canon f cfg [] items)) (file_spec canon f cfg [] g items).
Proof. exact shoot_file. Qed.
Print Assumptions C09_file_any_gun_options.

(* the answer log's copy is the body as well (and there is no copy when answlog is off) *)
Theorem C09_answlog_copy : forall o f chunked body,
  (o_answlog o = true -> is_nil body = false -> fst (pre_send o (body_of f chunked body)) = Some body) /\
  (o_answlog o = false -> fst (pre_send o (body_of f chunked body)) = None).
Proof. intros. split; [apply answlog_copy|apply answlog_copy_none]. Qed.
Print Assumptions C09_answlog_copy.

(* response side, gun part of the keep-alive sentence under every option: whoever reads res.Body first (verbose logging,
   the answer log's DumpResponse, or the final io.Copy) reads it to EOF, the io.Copy and the Close always happen, in that
   order, last.  That net/http then parks the connection is NOT proved (see C09_conns.v: compared on every case). *)
Theorem C09_response_body_any_gun_options_partial : forall o status,
  exists pre, shoot_resp_events o status = pre ++ [RCopyDiscard; RClose] /\
    Forall (fun e => e = RReadAll \/ e = RDumpResponse) pre.
Proof. exact resp_events_end. Qed.
Print Assumptions C09_response_body_any_gun_options_partial.

(* non-vacuity / sensitivity: a raw entry with a 2-byte body, answlog + dump + trace on.  With the code's GetBody the
   target gets the 2 bytes; were the body put back through req.GetBody only, the raw request (no GetBody) would be
   broken (Content-Length 2, no bytes) or, chunked, arrive empty — while a uripost request would still be fine. *)
Definition ex_opts : shoot_opts := {| o_answlog := true; o_filter := 0; o_dump := true; o_trace := true; o_debug := true |}.
Example C09_body_example :
  shoot_send ex_opts (body_of FRaw false [104; 105]) = Sent [104; 105] /\
  fst (pre_send ex_opts (body_of FRaw false [104; 105])) = Some [104; 105] /\
  send (snd (get_body_rewind_only (body_of FRaw false [104; 105]))) = Broken /\
  send (snd (get_body_rewind_only (body_of FRaw true [104; 105]))) = Sent [] /\
  send (snd (get_body_rewind_only (body_of FUripost false [104; 105]))) = Sent [104; 105] /\
  shoot_resp_events ex_opts 200 = [RReadAll; RDumpResponse; RCopyDiscard; RClose].
Proof. cbn. repeat split. Qed.
