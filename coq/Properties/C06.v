(* Property C06 — result completeness. Statements only; proofs live in Proofs/ and Lib/. *)
From Coq Require Import List NArith ZArith Bool.
From PV Require Import Lib.Decimal Gen.PhoutGen Model.Phout Proofs.PhoutProofs.
Import ListNotations.
Local Open Scope N_scope.

(* ------------------------------------------------------------------------------------ *)
(* (a) the phout line                                                                    *)

(* For a sample with ms >= 1000, a tag without TAB/LF ('#' is allowed: the id is split off at
   the LAST '#'), an id below 2^63 and ten fields: the renderer does not panic, the line is
   "<dec(ms/1000)>.<pad3(ms mod 1000)> TAB tag[#id] TAB f0 ... TAB f9", it contains no LF, and
   the strict parser of the documented layout gives the sample back (id 0 when ids are off). *)
Theorem C06_line_roundtrip : forall withid s, sample_ok s = true ->
  render_phout withid s = Ok (line_of withid s)
  /\ parse_phout withid (line_of withid s) = Some (norm withid s)
  /\ no_byte LF (line_of withid s) = true.
Proof. exact line_roundtrip. Qed.
Print Assumptions C06_line_roundtrip.

Theorem C06_timestamp_layout : forall ms, (1000 <= ms)%Z ->
  render_ts ms = Ok (dec_N (Z.to_N ms / 1000) ++ DOT :: pad3 (Z.to_N ms mod 1000)).
Proof. exact render_ts_big. Qed.
Print Assumptions C06_timestamp_layout.

(* The parser accepts a line only if it is exactly the rendering of what it returns: one
   well-formed line denotes one sample. *)
Theorem C06_parse_sound : forall withid line s, parse_phout withid line = Some s -> render_phout withid s = Ok line.
Proof. exact parse_phout_sound. Qed.
Print Assumptions C06_parse_sound.

(* Whole result files: n handled samples give n LF-terminated lines that parse back, in order. *)
Theorem C06_file_roundtrip : forall withid ss, forallb sample_ok ss = true ->
  exists file, render_file withid ss = Some file /\ parse_file withid file = Some (map (norm withid) ss).
Proof. exact file_roundtrip. Qed.
Print Assumptions C06_file_roundtrip.

(* The ten columns are in the documented order: setting each named value at the key the
   source compiles (Gen/PhoutGen.v: the iota block of sample.go) yields interval_real,
   connect_time, send_time, latency, receive_time, interval_event, size_out, size_in, net_code,
   proto_code. *)
Theorem C06_field_order : forall v, fields_array v = documented_columns v.
Proof. exact fields_array_documented. Qed.
Print Assumptions C06_field_order.

(* Outside the guard (impossible for time.Now(): the first 100 ms of 1970) appendTimestamp
   indexes dst[-1]: the model says Panic, not a line. 100 <= ms < 1000 gives ".ddd". *)
Theorem C06_small_ts_panics : forall withid s, (0 <= ps_ms s < 100)%Z -> render_phout withid s = Panic.
Proof. exact small_ts_panics. Qed.
Print Assumptions C06_small_ts_panics.

Theorem C06_three_digit_ts : forall ms, (100 <= ms < 1000)%Z -> render_ts ms = Ok (DOT :: dec_Z ms).
Proof. exact three_digit_ts. Qed.
Print Assumptions C06_three_digit_ts.

(* ids are printed through int64(id): from 2^63 on the line carries a negative id (ids come
   from a counter starting at 1, so this is out of reach in practice; stated, not hidden). *)
Theorem C06_big_id_wraps : forall tag id, 9223372036854775808 <= id ->
  render_tagid true tag id = tag ++ HASH :: dec_Z (Z.of_N id - 18446744073709551616).
Proof. exact big_id_wraps. Qed.
Print Assumptions C06_big_id_wraps.

(* non-vacuity: the sample of phout_test.go *)
Example C06_line_example :
  let s := {| ps_ms := 1484660999002; ps_tag := [116;97;103;49;124;116;97;103;50]; ps_id := 42;
              ps_fields := [333333; 0; 0; 0; 0; 0; 0; 0; 13; 999]%Z |} in
  sample_ok s = true /\
  render_phout true s = Ok [49;52;56;52;54;54;48;57;57;57;46;48;48;50;9;116;97;103;49;124;116;97;103;50;35;52;50;9;
                            51;51;51;51;51;51;9;48;9;48;9;48;9;48;9;48;9;48;9;48;9;49;51;9;57;57;57].
Proof. split; vm_compute; reflexivity. Qed.
