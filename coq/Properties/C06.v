(* Property C06 — result completeness. Statements only; proofs live in Proofs/ and Lib/. *)
From Coq Require Import List NArith ZArith Bool.
From PV Require Import Lib.Decimal Gen.PhoutGen Model.Phout Proofs.PhoutProofs.
Import ListNotations.
Local Open Scope N_scope.

(* ------------------------------------------------------------------------------------ *)
(* (a) the phout line                                                                    *)

(* For a sample with ms >= 1000, a tag without TAB/LF ('#' is allowed: the id is split off at
   the LAST '#'), an id below 2^63 and ten fields: the renderer does not panic, the line is
   "<dec(ms/1000)>.<pad3(ms mod 1000)> TAB tag[#id] TAB f0 ... TAB f9", it contains no LF, and
   the strict parser of the documented layout gives the sample back (id 0 when ids are off). *)
Theorem C06_line_roundtrip : forall withid s, sample_ok s = true ->
  render_phout withid s = Ok (line_of withid s)
  /\ parse_phout withid (line_of withid s) = Some (norm withid s)
  /\ no_byte LF (line_of withid s) = true.
Proof. exact line_roundtrip. Qed.
Print Assumptions C06_line_roundtrip.

Theorem C06_timestamp_layout : forall ms, (1000 <= ms)%Z ->
  render_ts ms = Ok (dec_N (Z.to_N ms / 1000) ++ DOT :: pad3 (Z.to_N ms mod 1000)).
Proof. exact render_ts_big. Qed.
Print Assumptions C06_timestamp_layout.

(* The parser accepts a line only if it is exactly the rendering of what it returns: one
   well-formed line denotes one sample. *)
Theorem C06_parse_sound : forall withid line s, parse_phout withid line = Some s -> render_phout withid s = Ok line.
Proof. exact parse_phout_sound. Qed.
Print Assumptions C06_parse_sound.

(* Whole result files: n handled samples give n LF-terminated lines that parse back, in order. *)
Theorem C06_file_roundtrip : forall withid ss, forallb sample_ok ss = true ->
  exists file, render_file withid ss = Some file /\ parse_file withid file = Some (map (norm withid) ss).
Proof. exact file_roundtrip. Qed.
Print Assumptions C06_file_roundtrip.

(* The ten columns are in the documented order: setting each named value at the key the
   source compiles (Gen/PhoutGen.v: the iota block of sample.go) yields interval_real,
   connect_time, send_time, latency, receive_time, interval_event, size_out, size_in, net_code,
   proto_code. *)
Theorem C06_field_order : forall v, fields_array v = documented_columns v.
Proof. exact fields_array_documented. Qed.
Print Assumptions C06_field_order.

(* Outside the guard (impossible for time.Now(): the first 100 ms of 1970) appendTimestamp
   indexes dst[-1]: the model says Panic, not a line. 100 <= ms < 1000 gives ".ddd". *)
Theorem C06_small_ts_panics : forall withid s, (0 <= ps_ms s < 100)%Z -> render_phout withid s = Panic.
Proof. exact small_ts_panics. Qed.
Print Assumptions C06_small_ts_panics.

Theorem C06_three_digit_ts : forall ms, (100 <= ms < 1000)%Z -> render_ts ms = Ok (DOT :: dec_Z ms).
Proof. exact three_digit_ts. Qed.
Print Assumptions C06_three_digit_ts.

(* ids are printed through int64(id): from 2^63 on the line carries a negative id (ids come
   from a counter starting at 1, so this is out of reach in practice; stated, not hidden). *)
Theorem C06_big_id_wraps : forall tag id, 9223372036854775808 <= id ->
  render_tagid true tag id = tag ++ HASH :: dec_Z (Z.of_N id - 18446744073709551616).
Proof. exact big_id_wraps. Qed.
Print Assumptions C06_big_id_wraps.

(* non-vacuity: the sample of phout_test.go *)
Example C06_line_example :
  let s := {| ps_ms := 1484660999002; ps_tag := [116;97;103;49;124;116;97;103;50]; ps_id := 42;
              ps_fields := [333333; 0; 0; 0; 0; 0; 0; 0; 13; 999]%Z |} in
  sample_ok s = true /\
  render_phout true s = Ok [49;52;56;52;54;54;48;57;57;57;46;48;48;50;9;116;97;103;49;124;116;97;103;50;35;52;50;9;
                            51;51;51;51;51;51;9;48;9;48;9;48;9;48;9;48;9;48;9;48;9;49;51;9;57;57;57].
Proof. split; vm_compute; reflexivity. Qed.

(* ------------------------------------------------------------------------------------ *)
(* (b) the bounded queue                                                                 *)
From PV Require Import Model.Aggregator Proofs.AggregatorProofs.

(* For both aggregator kinds, every queue size, every sample type and encoder, and EVERY
   history of atomic events (Reports of any number of goroutines, receives, flushes of any
   byte count, the cancel, Run's observation of it) that is an execution of the model, in
   which no Report completes after the cancel and whose samples all encode: when Run has
   returned the destination holds exactly the encodings of the accepted samples, in queue
   order, nothing is left in the buffer or the queue, the destination is closed; the accepted
   samples are an order-preserving sub-list of the reported ones and
   accepted + dropped = reported; phout (Blocking): accepted = reported, nothing dropped;
   the error is "dropped N" iff N > 0. *)
Theorem C06_queue_complete : forall (A : Type) (enc : A -> option (list N)) (k : kind) (Q : nat) h s,
  run A enc k Q (init A) h = Some s ->
  reports_first A false h = true ->
  Forall (enc_ok A enc) (reports_of A h) ->
  ph s = Done ->
  sink s = enc_all A enc (acc_log s) /\ buf s = [] /\ queue s = [] /\ closed s = true
  /\ rep_log s = reports_of A h
  /\ Subseq (acc_log s) (reports_of A h)
  /\ N.of_nat (length (acc_log s)) + dropped s = N.of_nat (length (reports_of A h))
  /\ (k = Blocking -> acc_log s = reports_of A h /\ dropped s = 0)
  /\ run_error A s = (if dropped s =? 0 then None else Some (dropped s)).
Proof. exact queue_complete. Qed.
Print Assumptions C06_queue_complete.

(* Run is never stuck after the cancel: from every state reached by such a history, still in
   the main loop with the context cancelled, "take ctx.Done, receive |queue| times, find the
   queue empty" is enabled step by step and ends in Done. *)
Theorem C06_run_can_finish : forall (A : Type) (enc : A -> option (list N)) (k : kind) (Q : nat) h s,
  run A enc k Q (init A) h = Some s -> reports_first A false h = true -> Forall (enc_ok A enc) (reports_of A h) ->
  ph s = Running -> cancelled s = true ->
  exists s', run A enc k Q s (finish_history A s) = Some s' /\ ph s' = Done.
Proof. exact run_can_finish. Qed.
Print Assumptions C06_run_can_finish.

(* The executable specification the check evaluates on the IMPLEMENTATION's observations
   (complete_b: every line a reported sample, at most once, each reporter's samples in its
   order; lines + drops = reports; error = drop count; no drops for phout) accepts everything
   C06_queue_complete guarantees. Samples are numbers, [owner] maps a sample to its reporter. *)
Theorem C06_spec_sound : forall (enc : N -> option (list N)) k Q owner G h s,
  run N enc k Q (init N) h = Some s ->
  reports_first N false h = true ->
  Forall (enc_ok N enc) (reports_of N h) ->
  ph s = Done ->
  Forall (fun x => owner x < N.of_nat G) (reports_of N h) ->
  complete_b k owner (by_owner owner G (reports_of N h)) (acc_log s) (dropped s) (run_error N s) = true.
Proof. exact queue_complete_spec. Qed.
Print Assumptions C06_spec_sound.

(* The ordering hypothesis is necessary: a Report completing after Run returned is neither
   written nor counted. *)
Theorem C06_late_report_is_lost :
  exists h s, run N enc_demo Blocking 4 (init N) h = Some s /\ ph s = Done
              /\ reports_first N false h = false
              /\ sink s <> enc_all N enc_demo (rep_log s) /\ dropped s = 0.
Proof. exact late_report_is_lost. Qed.
Print Assumptions C06_late_report_is_lost.

(* non-vacuity: three goroutines, queue of 2, a drop, periodic and partial flushes *)
Example C06_queue_example :
  exists s, run N enc_demo Dropping 2 (init N)
              [Report 0 1; Report 1 2; Report 2 3; Handle; Flush 1; Report 0 4; Handle; Flush 9; Cancel; SeeCancel; Handle; Finish] = Some s
            /\ ph s = Done /\ sink s = [1; 10; 2; 10; 4; 10] /\ dropped s = 1 /\ run_error N s = Some 1.
Proof. eexists. split; [vm_compute; reflexivity|]. repeat split. Qed.

(* ------------------------------------------------------------------------------------ *)
(* (b') the destination: a file the aggregator creates, or a stream it shares (stdout)     *)
From PV Require Import Model.Destination Proofs.DestinationProofs.

(* For every destination kind - a named file (created/truncated by the aggregator) or a stream
   the process already has open (phout without `destination`, sink: stdout / stderr) - every
   earlier content [old] of it, both aggregator kinds, every queue size, encoder and history as
   in C06_queue_complete: when Run has returned the destination holds what it held when it was
   opened (nothing for a file, [old] for a stream) followed by exactly the encodings of the
   accepted samples; nothing is left buffered or queued - the final flush happens for every
   destination kind; the specification side [this_run] (evaluated by the check on the bytes the
   IMPLEMENTATION left in the destination) returns exactly those encodings. *)
Theorem C06_destination_complete : forall (A : Type) (enc : A -> option (list N)) (k : kind) (Q : nat) d old h s,
  run A enc k Q (init A) h = Some s ->
  reports_first A false h = true ->
  Forall (enc_ok A enc) (reports_of A h) ->
  ph s = Done ->
  content d old s = opened d old ++ enc_all A enc (acc_log s)
  /\ this_run d old (content d old s) = Some (enc_all A enc (acc_log s))
  /\ buf s = [] /\ queue s = []
  /\ N.of_nat (length (acc_log s)) + dropped s = N.of_nat (length (reports_of A h))
  /\ (k = Blocking -> acc_log s = reports_of A h).
Proof. exact destination_complete. Qed.
Print Assumptions C06_destination_complete.

(* phout with the real line encoder (handle = appendPhout + LF), any destination kind, a stream
   that held complete lines before: after Run the destination parses line by line (strict parser
   of the documented layout) to the earlier lines followed by exactly the reported samples, each
   once, in order. *)
Theorem C06_destination_lines : forall withid Q d old olds h s,
  run psample (phout_enc withid) Blocking Q (init psample) h = Some s ->
  reports_first psample false h = true ->
  forallb sample_ok (reports_of psample h) = true ->
  ph s = Done ->
  parse_file withid old = Some olds ->
  parse_file withid (content d old s)
  = Some ((match d with DFile => [] | DStream => olds end) ++ map (norm withid) (reports_of psample h)).
Proof. exact destination_lines. Qed.
Print Assumptions C06_destination_lines.

(* [this_run] accepts only "what the destination held when opened, then the returned bytes";
   an output lacking a non-empty tail of the encodings (a skipped final flush) is rejected. *)
Theorem C06_this_run_sound : forall d old obs r, this_run d old obs = Some r -> obs = opened d old ++ r.
Proof. exact this_run_sound. Qed.
Print Assumptions C06_this_run_sound.

Theorem C06_missing_tail_rejected : forall d old written rest,
  rest <> [] -> this_run d old (opened d old ++ written) <> Some (written ++ rest).
Proof. exact this_run_detects_missing_tail. Qed.
Print Assumptions C06_missing_tail_rejected.

(* At ANY moment (every state an execution reaches, not only after Run returned - any instant at which
   the process may be stopped), for every destination kind: the encodings of the accepted samples are
   what reached the destination, then what is buffered, then what is queued; so the destination holds
   its earlier content followed by a PREFIX of this run's lines in queue order (nothing foreign, twice
   or out of order), and so does a destination that accepted n bytes and then failed every write. *)
Theorem C06_written_is_prefix_always : forall (A : Type) (enc : A -> option (list N)) (k : kind) (Q : nat) d old h s n,
  run A enc k Q (init A) h = Some s ->
  reports_first A false h = true ->
  Forall (enc_ok A enc) (reports_of A h) ->
  enc_all A enc (acc_log s) = sink s ++ buf s ++ enc_all A enc (queue s)
  /\ (exists rest, opened d old ++ enc_all A enc (acc_log s) = content d old s ++ rest)
  /\ prefix_b (failing n (sink s)) (enc_all A enc (acc_log s)) = true.
Proof. exact written_is_prefix_always. Qed.
Print Assumptions C06_written_is_prefix_always.

Theorem C06_prefix_spec : forall p l, prefix_b p l = true -> exists r, l = p ++ r.
Proof. exact prefix_b_sound. Qed.
Print Assumptions C06_prefix_spec.

(* which destination a phout configuration denotes: no `destination` = the shared stream *)
Theorem C06_phout_dest : phout_dest [] = DStream /\ forall c r, phout_dest (c :: r) = DFile.
Proof. exact phout_dest_default. Qed.
Print Assumptions C06_phout_dest.

(* non-vacuity: two reports to a stream that already held one line ("7\n"); a partial flush, the
   rest by the final flush *)
Example C06_destination_example :
  exists s, run N enc_demo Blocking 2 (init N) [Report 0 1; Report 1 2; Handle; Handle; Flush 3; Cancel; SeeCancel; Finish] = Some s
            /\ ph s = Done /\ content DStream [7; 10] s = [7; 10; 1; 10; 2; 10]
            /\ content DFile [7; 10] s = [1; 10; 2; 10]
            /\ this_run DStream [7; 10] (content DStream [7; 10] s) = Some [1; 10; 2; 10].
Proof. eexists. split; [vm_compute; reflexivity|]. repeat split. Qed.

(* ------------------------------------------------------------------------------------ *)
(* (c) when the aggregator is cancelled, when the process exits                          *)
From PV Require Import Model.Shutdown Proofs.ShutdownProofs Gen.Phout_bridge.

(* The column bridge: the constants compiled from sample.go are 0..9 in documented order. *)
Theorem C06_keys_bridge :
  [gen_key_rtt_micro; gen_key_connect_micro; gen_key_send_micro; gen_key_latency_micro; gen_key_receive_micro;
   gen_key_interval_event_micro; gen_key_request_bytes; gen_key_response_bytes; gen_key_errno; gen_key_proto_code]
  = [0; 1; 2; 3; 4; 5; 6; 7; 8; 9] /\ gen_fields_num = 10.
Proof. exact phout_keys_bridge. Qed.
Print Assumptions C06_keys_bridge.

(* Without a cancel from outside, in every execution of the pool's start/await machinery
   runCancel() (the aggregator's context) happens only when every launched instance has sent
   its run result: no Report is made after it (late = 0), so the hypothesis of
   C06_queue_complete holds for every sample an instance reports. *)
Theorem C06_engine_order : forall h p, prun false pool_init h = Some p ->
  late p = 0%nat /\ (run_cancelled p = true -> running p = [] /\ exists n, started p = Some n /\ n = launched p /\ finished p = n).
Proof. exact engine_order. Qed.
Print Assumptions C06_engine_order.

(* With a cancel from outside (signal) an instance in flight reports after the aggregator's
   context is done: such a report is outside C06_queue_complete (see C06_late_report_is_lost). *)
Theorem C06_external_cancel_late_report : exists h p, prun true pool_init h = Some p /\ late p = 1%nat.
Proof. exact external_cancel_late_report. Qed.
Print Assumptions C06_external_cancel_late_report.

(* If the cli waits for the engine's tasks before exiting: in every execution of the process
   model, an exit that is not forced by the interrupt timeout or a second signal comes after
   every pool's aggregator has drained, flushed and closed. *)
Theorem C06_signal_flush_if_cli_waits : forall pools h s r,
  crun true true (proc_init pools) h = Some s -> exited s = Some r -> orderly r = true ->
  all_true (aggr_closed s) = true.
Proof. exact signal_flush_waiting. Qed.
Print Assumptions C06_signal_flush_if_cli_waits.

Example C06_orderly_exit_exists :
  exists h s, crun true true (proc_init 2) h = Some s /\ exited s = Some ExInterrupted /\ all_true (aggr_closed s) = true.
Proof. exact signal_orderly_exit_exists. Qed.

(* C06_signal_flush (full statement), about WHAT cli/cli.go DOES NOW (cli_waits and
   cli_failed_waits are regenerated from the source on every run; the bridge
   Gen/Phout_bridge.v requires them to be true): in every execution of the process model -
   normal end, failed run (engine error) and SIGINT/SIGTERM alike - every exit that is not
   forced by the documented timeout (3 s failed run / SIGTERM, 30 s SIGINT: C06_cli_bridge) or
   by a second signal comes after every pool's aggregator has drained its queue, flushed and
   closed its destination. *)
Theorem C06_signal_flush : forall pools h s r,
  crun cli_waits cli_failed_waits (proc_init pools) h = Some s -> exited s = Some r -> orderly r = true ->
  all_true (aggr_closed s) = true.
Proof. exact signal_flush_now. Qed.
Print Assumptions C06_signal_flush.

(* Before the fix c499f4c the cli exited as soon as Engine.Run had returned (no Engine.Wait());
   for such a cli the statement is false — this is the witness that was replayed on the real
   binary (seeded/fix-C06-signal-flush). *)
Theorem C06_signal_flush_without_wait_refuted :
  exists h s, crun false true (proc_init 1) h = Some s /\ exited s = Some ExInterrupted /\ all_true (aggr_closed s) = false.
Proof. exact signal_flush_not_waiting_refuted. Qed.
Print Assumptions C06_signal_flush_without_wait_refuted.

(* The failed-run branch: a cli that does not wait there can exit before the close. *)
Theorem C06_failed_run_without_wait_refuted :
  exists h s, crun true false (proc_init 1) h = Some s /\ exited s = Some ExFailed /\ all_true (aggr_closed s) = false.
Proof. exact failed_run_not_waiting_refuted. Qed.
Print Assumptions C06_failed_run_without_wait_refuted.

Example C06_failed_run_orderly_exit_exists :
  exists h s, crun true true (proc_init 2) h = Some s /\ exited s = Some ExFailed /\ all_true (aggr_closed s) = true.
Proof. exact failed_run_orderly_exit_exists. Qed.

(* What the model assumes about the source, re-read on every run: both branches of the cli wait
   for Engine.Wait(); the time budgets are 3 s / 3 s / 30 s as time.Duration values; runCancel()
   is called only in checkAllInstancesAreFinished. *)
Theorem C06_cli_bridge :
  cli_waits = true /\ cli_failed_waits = true
  /\ gen_cli_await_timeout_ns = await_timeout_ns /\ gen_cli_sigterm_timeout_ns = sigterm_timeout_ns
  /\ gen_cli_sigint_timeout_ns = sigint_timeout_ns
  /\ gen_run_cancel_only_in_check = true.
Proof.
  split; [exact cli_waits_bridge|]. split; [exact cli_failed_waits_bridge|].
  destruct cli_timeouts_bridge as (A & B & C). split; [exact A|]. split; [exact B|]. split; [exact C|exact run_cancel_bridge].
Qed.
Print Assumptions C06_cli_bridge.
