(* Property C01, the profile as a user gets it: the `rps` section (single profile or list form) decoded
   into the pool's schedule FACTORY, which the engine calls once per instance with `rps-per-instance`.
   Statements only (proofs: Proofs/SchedFactoryProfile.v, over property C02's factory model
   Model/SchedFactory.v and its independence theorem Proofs/SchedFactoryProofs.v factory_independent,
   imported - not copied). *)
From Coq Require Import List ZArith QArith Bool Arith Lia.
From PV Require Import Model.SchedTree Model.SchedConc Model.SchedFactory
  Proofs.SchedTreeProofs Proofs.SchedTreeSeq Proofs.SchedTreeRun Proofs.SchedTreeSpec
  Proofs.SchedConcSections Proofs.SchedConcProofs Proofs.SchedConcCor Proofs.SchedFactoryProofs.
From PV Require Import Model.Sched Model.SchedList Proofs.SchedProofs Proofs.SchedStep Proofs.SchedList Proofs.SchedShare
  Proofs.SchedFactoryProfile.
Import ListNotations.
Local Open Scope Z_scope.

(* The leaves of any profile (step levels, list parts; [defined] = every operation has an instant, which
   C01_at_bracket gives for valid profiles), any number K of products of ONE factory, every sequence of
   operations of one caller on the K products interleaved in any order (non-decreasing clock): all K
   constructions succeed, and EVERY product j that is started at an instant s and then only asked for Next
   (at any moments, between any operations on its siblings - alternately, one product after the other, ...)
   answers exactly the operations of the configured profile started at s - part after part, each
   exactly once - and after them (s + total duration, false) for ever.  No product sees less than the
   whole profile because a sibling was drained before it. *)
Theorem C01_factory_products : forall ls fuel now0 k,
  ls <> [] -> Forall defined ls -> (S (length ls) <= fuel)%nat ->
  exists ss, SchedFactory.sys_init fuel now0 (cfg_of_leaves ls) k = Ok ss /\ length ss = k /\
    forall lo ops, clock_ok lo (map snd ops) ->
    forall j s c0 cs, (j < k)%nat ->
      SchedFactory.proj_ops j ops = drain_ops c0 s cs ->
      exists ts, comp_tokens ls s = map Some ts /\
        forall e, length cs = (length ts + e)%nat ->
          SchedFactory.proj_obs j (SchedFactory.sys_run fuel ss ops) =
          RStart :: map (fun t => RNext t true) ts ++ repeat (RNext (comp_finish ls s) false) e.
Proof. exact factory_products_realise. Qed.
Print Assumptions C01_factory_products.

(* the `rps` section in list form, every part a valid const / line / step / once profile (a single profile
   p is the list [p]: C01_list_single): every product realises the succession of the parts' own streams
   (list_tokens: what C01_list says one directly constructed list profile gives, what list_spec_b judges)
   from ITS start, exhausted exactly at its start + the sum of the durations *)
Theorem C01_factory_list_products : forall ps ls fuel now0 k,
  Forall valid ps -> list_leaves ps = Some ls -> ls <> [] -> (S (length ls) <= fuel)%nat ->
  exists ss, SchedFactory.sys_init fuel now0 (cfg_of_leaves ls) k = Ok ss /\ length ss = k /\
    forall lo ops, clock_ok lo (map snd ops) ->
    forall j s c0 cs, (j < k)%nat ->
      SchedFactory.proj_ops j ops = drain_ops c0 s cs ->
      exists ts, list_tokens ps s = map Some ts /\
        forall e, length cs = (length ts + e)%nat ->
          SchedFactory.proj_obs j (SchedFactory.sys_run fuel ss ops) =
          RStart :: map (fun t => RNext t true) ts ++ repeat (RNext (s + list_spec_finish ps) false) e.
Proof. exact factory_list_products. Qed.
Print Assumptions C01_factory_list_products.

(* non-vacuity: `rps: [{once 2}, {const 2 rps 1 s}]`, two products of the factory drained alternately,
   product 1 started 100 ns after product 0: the hypotheses hold, both get the 4 operations of the whole
   profile relative to their own start and then their own finish instant *)
Example C01_factory_example :
  Forall valid fp_ps /\ clock_ok 0 (map snd fp_ops) /\
  match list_leaves fp_ps with
  | Some ls =>
      ls <> [] /\ length ls = 2%nat /\
      SchedFactory.proj_ops 1 fp_ops = drain_ops 200 100 [200; 200; 200; 200; 200; 200] /\
      match SchedFactory.sys_init 3 0 (cfg_of_leaves ls) 2 with
      | Ok ss => SchedFactory.proj_obs 0 (SchedFactory.sys_run 3 ss fp_ops) =
                   [RStart; RNext 0 true; RNext 0 true; RNext 0 true; RNext 500000000 true; RNext 1000000000 false] /\
                 SchedFactory.proj_obs 1 (SchedFactory.sys_run 3 ss fp_ops) =
                   [RStart; RNext 100 true; RNext 100 true; RNext 100 true; RNext 500000100 true;
                    RNext 1000000100 false; RNext 1000000100 false]
      | _ => False
      end
  | None => False
  end.
Proof. exact factory_profile_example. Qed.
Print Assumptions C01_factory_example.
