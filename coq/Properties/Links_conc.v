(* Links L2 / L3 under CONCURRENT instances sharing a NESTED schedule.  Statements only; proofs
   live in Proofs/LinkConc*.v.  Compiled and counted as extra obligations of the check of C03.

   Properties/Links.v (L2_step_refines, L3_composed_run; Proofs/LinkEngine.v) composes the
   sections of instance.Run with the ABSTRACT token stream, one atomic step per schedule
   operation (Left() in the Check section, Next() inside Wait).  That is exact for sequential
   callers.  Here the instances run concurrently on the REAL shared schedule - a tree of
   composites of any depth, every composite with its own RWMutex (Model/SchedNested.v) - and a
   schedule operation of an instance is a sequence of [nsec] steps interleaved with everything
   else: the schedule steps of the other instances and their non-schedule sections (Acquire,
   decision, Shoot, Response, Release).  The joint system is [kapply] / [kreach] of
   Proofs/LinkConcSys.v:
     KSched i now w   one schedule step of instance i (pc Check: Left, pc Wait a: Next); when the
                      operation returns, its answer is stored, and for Next the schedule's
                      accounting fields (stoks / unfired) are updated; w = the world the Wait call
                      meets afterwards (oracle; admissible as in L3: [world_ok]);
     KInst i          a section of instance i: at Check / Wait it consumes the stored answer
                      (instance-local), otherwise the section of Model/Instance.v with the oracle
                      bit = IsSlowDown of the instance's own Waiter;
     KSpawn / KClose  the start loop.
   [shared_tree_ok c fl fuel tree]: shared mode (per_inst c = false), tree as the constructors
   leave it, a composite, within the fuel, flatten tree = fl, fl finite with prof c tokens.

   Proof: forward simulation to the atomic-stream engine; the ghost takes its whole Check / Wait
   section in the step in which the schedule operation returns - the linearisation point of
   C02_conc_nested (nsec_S / nsec_F) -, consuming is a stutter, every other section is the same
   section of the ghost.  [Jrel k G]: the shared C03 state (counters, log) of k and G is
   identical; an instance with an unconsumed answer differs from its ghost by exactly
   [consume_inst] / [consume_aux] (instance-local). *)
From Coq Require Import ZArith List Bool Arith.
From PV Require Import Model.Sched Model.SchedTree Model.SchedConc Model.SchedNested
  Proofs.SchedTreeProofs Proofs.SchedTreeSeq Proofs.SchedTreeRun Proofs.SchedTreeSpec
  Proofs.SchedNestedSteps Proofs.SchedNestedSolo Proofs.LinkSched.
From PV Require Import Model.Waiter Proofs.WaiterProofs Model.Instance Proofs.InstanceProofs.
From PV Require Import Proofs.LinkEngine Proofs.LinkProfile Proofs.LinkConcSys Proofs.LinkConcProofs
  Proofs.LinkConcSolo Proofs.LinkConcProfile.
Import ListNotations.

(* ------------------------------------------------------------------ the simulation *)
(* every reachable state of the joint system is related to a reachable state of the
   atomic-stream engine of L2 / L3 (a run [crun] from [cinit], for the start instant p0 at which
   the tree started itself) *)
Theorem LC_joint_simulation : forall c fl fuel tree lo0 k,
  shared_tree_ok c fl fuel tree -> kreach c fl fuel (kinit c tree lo0) k ->
  exists G l p0, crun c fl l (cinit c fl p0) = Some G /\ Jrel k G.
Proof. exact joint_simulation. Qed.
Print Assumptions LC_joint_simulation.

(* one step: the invariant (ghost reachable, Jrel, the C02 relation between tree and ghost stream,
   validity of every instance's schedule pc) is preserved by every action *)
Theorem LC_joint_step : forall c fl fuel, per_inst c = false -> sched_cfg_ok c fl ->
  forall k k' a, KInv c fl fuel k -> kapply c fl fuel a k = Some k' -> KInv c fl fuel k'.
Proof. exact step_kapply. Qed.
Print Assumptions LC_joint_step.

(* no schedule step of any instance panics or exceeds its recursion budget *)
Theorem LC_joint_safe : forall c fl fuel tree lo0 k,
  shared_tree_ok c fl fuel tree -> kreach c fl fuel (kinit c tree lo0) k -> ~ kstuck fuel k.
Proof. exact joint_safe. Qed.
Print Assumptions LC_joint_safe.

(* at EVERY reachable state the counters and the log of the joint system are those of a reachable
   state of the C03 model whose instances are the joint system's with the unconsumed answers
   consumed; and the L3 facts hold of the decision records: never before the token's time,
   discards exactly the Waiter's *)
Theorem LC_joint_reach : forall c fl fuel tree lo0 k,
  shared_tree_ok c fl fuel tree -> kreach c fl fuel (kinit c tree lo0) k ->
  exists s, reach c s /\ sh s = sh (k_s k) /\ start_open s = start_open (k_s k) /\
    length (insts s) = length (insts (k_s k)) /\
    (forall i x th, nth_error (insts (k_s k)) i = Some x -> nth_error (k_thr k) i = Some th ->
       nth_error (insts s) i = Some (kview_inst x th)) /\
    Forall (shot_fact c) (k_shots k) /\
    disc_recs (k_shots k) = disc_evs (log (sh (k_s k))) /\
    length (filter is_disc (k_shots k)) = discarded (sh (k_s k)) /\
    length (filter (fun r => negb (is_disc r)) (k_shots k)) = request (sh (k_s k)).
Proof. exact joint_reach. Qed.
Print Assumptions LC_joint_reach.

(* at the end the C03 state of the joint system IS a reachable state of the C03 model: every
   theorem of Properties/C03.v applies to it *)
Theorem LC_joint_terminal : forall c fl fuel tree lo0 k,
  shared_tree_ok c fl fuel tree -> kreach c fl fuel (kinit c tree lo0) k -> terminal (k_s k) ->
  reach c (k_s k).
Proof. exact joint_terminal. Qed.
Print Assumptions LC_joint_terminal.

(* C03_conservation / C03_unfired / C03_counters / C03_acquire_release for the joint system with
   a shared schedule of any nesting depth (tokens = the static count of the tree) *)
Theorem LC_joint_accounting : forall c fl fuel tree lo0 k,
  shared_tree_ok c fl fuel tree -> kreach c fl fuel (kinit c tree lo0) k -> terminal (k_s k) ->
  let s := k_s k in
  (length (insts s) >= 1 ->
     fired (sh s) + discarded (sh s) = Nat.min (Z.to_nat (sumcnt fl)) (ammo0 c) /\
     acquired (sh s) - (fired (sh s) + discarded (sh s)) <= length (insts s) - 1) /\
  request (sh s) = fired (sh s) /\ response (sh s) = fired (sh s) /\
  (discard_overflow c = false -> discarded (sh s) = 0) /\
  acquired (sh s) = released (sh s) /\
  (forall a, a < acquired (sh s) -> item_history_ok a (proj a (events s))) /\
  (forall a, acquired (sh s) <= a -> proj a (events s) = []).
Proof. exact joint_accounting. Qed.
Print Assumptions LC_joint_accounting.

(* the hypotheses hold for whatever the constructors build from any configuration tree without
   unlimited part (composites of composites ... of leaves), when that is a composite *)
Theorem LC_joint_cfg : forall (c : Instance.cfg) (sc : SchedTree.cfg) fuel now0,
  per_inst c = false -> size_cfg sc <= S fuel -> existsb unknown_part (flatten_cfg sc) = false ->
  prof c = Z.to_nat (sumcnt (flatten_cfg sc)) ->
  exists tree, build (S fuel) now0 sc = Ok tree /\
    (comp_len tree <> 0 -> shared_tree_ok c (flatten_cfg sc) fuel tree).
Proof. exact joint_cfg. Qed.
Print Assumptions LC_joint_cfg.

(* L2_conservation_profile for the joint system: the schedule of a real profile (a step profile is
   a composite), tokens = the C01 count formula *)
Theorem LC_joint_profile : forall p (sc : SchedTree.cfg) (c : Instance.cfg) fuel now0,
  valid p -> profile_cfg p = Some sc -> prof c = Z.to_nat (profile_count p) -> per_inst c = false ->
  size_cfg sc <= S fuel ->
  exists tree, build (S fuel) now0 sc = Ok tree /\
    (comp_len tree <> 0 -> forall lo0 k,
       kreach c (flatten_cfg sc) fuel (kinit c tree lo0) k -> terminal (k_s k) ->
       reach c (k_s k) /\
       (length (insts (k_s k)) >= 1 ->
        fired (sh (k_s k)) + discarded (sh (k_s k)) = Nat.min (Z.to_nat (profile_count p)) (ammo0 c))).
Proof. exact joint_profile. Qed.
Print Assumptions LC_joint_profile.

(* ------------------------------------------------------------------ rps-per-instance *)
(* Nothing is shared: every instance operates its own tree alone, i.e. every schedule operation
   is a SOLO run of the nested sections.  Any sequence of such operations (it exists for every
   list of Left / Next calls) on the tree the constructors build, of any depth, answers
   "Left() = 0" / Next's ok exactly as the counter [own] of the C03 model initialised with the
   static count - so the per-instance sections of the C03 model are exact. *)
Theorem LC_per_instance_solo : forall (sc : SchedTree.cfg) fuel now0,
  size_cfg sc <= S fuel -> existsb unknown_part (flatten_cfg sc) = false ->
  exists tree, build (S fuel) now0 sc = Ok tree /\
    (comp_len tree <> 0 -> forall lo l, clock_ok lo (eng_ops l) ->
       (exists outs tree', solo_run fuel tree (eng_ops l) outs tree') /\
       (forall outs tree', solo_run fuel tree (eng_ops l) outs tree' ->
          map obs_bit outs = counter_obs (Z.to_nat (sumcnt (flatten_cfg sc))) l)).
Proof. exact solo_run_is_counter. Qed.
Print Assumptions LC_per_instance_solo.

(* a sequence of solo operations is the sequential run of the tree *)
Theorem LC_solo_run_seq : forall fuel c ops outs c',
  solo_run fuel c ops outs c' -> wf c -> comp_len c <> 0 -> size c <= S fuel ->
  run_tree (S fuel) c ops = outs.
Proof. exact solo_run_seq. Qed.
Print Assumptions LC_solo_run_seq.

(* ------------------------------------------------------------------ non-vacuity *)
(* Two instances, shared depth-2 profile root = composite[ composite[1 token / 10 ns; 1 token / 10 ns],
   composite[1 token / 10 ns; 0 tokens / 5 ns] ] (3 tokens), 2 ammo items.  The interleaving, run by
   [krun] (vm_compute): instance 0 asks Left (two schedule steps: read lock of the root, leaf Left),
   acquires item 0 and enters the root for Next; while it is INSIDE that operation instance 1 runs
   a whole Left and acquires item 1; instance 0 draws the first token (the tree starts itself at
   105), decides, and SHOOTS while instance 1 is inside its Next operation (first conjunct: pcs
   [Resp 0; Wait 1], schedule pcs [QIdle; QIn QIdle], fired = 1); instance 1 finds the first inner
   part exhausted, shifts the inner composite under its write lock and draws the token of 115;
   both find no ammo left and finish.  Terminal state: fired = 2 = min(3, 2), one token left,
   and the hypotheses of LC_joint_terminal hold, so the C03 state is reachable in the C03 model. *)
Example LC_example :
  let lf := fun (n : nat) (d : Z) => DoAt n d (fun k => Z.of_nat k) 0 None in
  let cA := Comp [lf 1 10%Z; lf 1 10%Z] (la_of [lf 1 10%Z; lf 1 10%Z]) false in
  let cB := Comp [lf 1 10%Z; lf 0 5%Z] (la_of [lf 1 10%Z; lf 0 5%Z]) false in
  let root := Comp [cA; cB] (la_of [cA; cB]) false in
  let c := mkCfg false false 3 2 in
  let fl := flatten root in
  let wd := fun (now : Z) (tok : option Z) =>
    mkWorld now now {| c_ctx_done := false; c_tok := tok; c_now := now; c_cancel_in_sleep := false;
                       c_wake := match tok with Some t => Z.max now t | None => now end |} in
  let w0 := wd 0%Z None in
  let sch1 := [KSpawn; KSpawn;
               KSched 0 100%Z w0; KSched 0 101%Z w0; KInst 0; KInst 0;
               KSched 0 102%Z w0;
               KSched 1 103%Z w0; KSched 1 104%Z w0; KInst 1; KInst 1;
               KSched 0 105%Z (wd 105%Z (Some 105%Z)); KInst 0;
               KSched 1 106%Z w0;
               KInst 0; KInst 0] in
  let sch2 := [KInst 0; KInst 0;
               KSched 1 107%Z w0; KSched 1 108%Z (wd 108%Z (Some 115%Z)); KInst 1; KInst 1; KInst 1; KInst 1; KInst 1;
               KSched 0 109%Z w0; KSched 0 110%Z w0; KInst 0; KInst 0;
               KSched 1 111%Z w0; KSched 1 112%Z w0; KInst 1; KInst 1; KClose] in
  shared_tree_ok c fl 6 root /\
  (exists k1, krun c fl 6 sch1 (kinit c root 0%Z) = Some k1 /\
     map pc (insts (k_s k1)) = [Resp 0; Wait 1] /\ map jq (k_thr k1) = [QIdle; QIn QIdle] /\
     fired (sh (k_s k1)) = 1) /\
  exists k, krun c fl 6 (sch1 ++ sch2) (kinit c root 0%Z) = Some k /\
    terminal_b (k_s k) = true /\ fired (sh (k_s k)) = 2 /\ discarded (sh (k_s k)) = 0 /\
    stoks (sh (k_s k)) = 1 /\ acquired (sh (k_s k)) = 2 /\ released (sh (k_s k)) = 2 /\
    map sr_tok (k_shots k) = [115%Z; 105%Z] /\
    reach c (k_s k).
Proof.
  intros lf cA cB root c fl wd w0 sch1 sch2.
  assert (Hs : shared_tree_ok c fl 6 root).
  { split; [reflexivity|]. split.
    - split; [apply flatten_leaves|]. split; vm_compute; reflexivity.
    - split.
      + apply (fr_comp [_; _]); [|discriminate].
        constructor; [apply (fr_comp [_; _]); [repeat constructor|discriminate]|].
        constructor; [apply (fr_comp [_; _]); [repeat constructor|discriminate]|constructor].
      + split; [cbn; discriminate|]. split; [cbn; repeat constructor|reflexivity]. }
  split; [exact Hs|]. split.
  - assert (H : option_map (fun k => (map pc (insts (k_s k)), map jq (k_thr k), fired (sh (k_s k))))
                           (krun c fl 6 sch1 (kinit c root 0%Z))
                = Some ([Resp 0; Wait 1], [QIdle; QIn QIdle], 1)) by (vm_compute; reflexivity).
    destruct (krun c fl 6 sch1 (kinit c root 0%Z)) as [k1|]; [|discriminate]. exists k1. split; [reflexivity|].
    cbn [option_map] in H. injection H as H1 H2 H3. repeat split; assumption.
  - assert (H : option_map (fun k => (terminal_b (k_s k), fired (sh (k_s k)), discarded (sh (k_s k)), stoks (sh (k_s k)),
                                      acquired (sh (k_s k)), released (sh (k_s k)), map sr_tok (k_shots k)))
                           (krun c fl 6 (sch1 ++ sch2) (kinit c root 0%Z))
                = Some (true, 2, 0, 1, 2, 2, [115%Z; 105%Z])) by (vm_compute; reflexivity).
    destruct (krun c fl 6 (sch1 ++ sch2) (kinit c root 0%Z)) as [k|] eqn:E; [|discriminate]. exists k. split; [reflexivity|].
    cbn [option_map] in H. injection H as H1 H2 H3 H4 H5 H6 H7. repeat (split; [assumption|]).
    apply (joint_terminal c fl 6 root 0%Z k Hs).
    + eapply krun_reach; [apply kreach_init|exact E].
    + apply terminal_b_spec. exact H1.
Qed.
