(* Property C02 — schedule token contract. Statements only; proofs live in Proofs/. *)
From Coq Require Import List ZArith Bool.
From PV Require Import Model.SchedTree Proofs.SchedTreeProofs.
Import ListNotations.
Local Open Scope Z_scope.

(* The finish callback of coreutil.NewCallbackOnFinishSchedule runs at most once. *)
Theorem C02_callback_at_most_once : forall evs : list (bool + Z),
  (cb_calls (cb_run evs cb_init) <= 1)%nat.
Proof. exact cb_run_at_most_once. Qed.
Print Assumptions C02_callback_at_most_once.
