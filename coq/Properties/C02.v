(* Property C02 — schedule token contract. Statements only; proofs live in Proofs/SchedTree*.v.

   Model/SchedTree.v follows core/schedule/{composite,do_at,unlilmited,start_sync,instance_step}.go and
   core/coreutil/schedule.go.  The specification is the abstract token stream of the flattened
   configuration: [items_from] (tokens [IT t] and unlimited windows [IW fin], every part starting
   at the finish time of the part before it), [abs_next] (first token in order, a window answers
   max(now, start) while open and is left behind for good once closed, then the final finish time) and
   [abs_left] (exact count, or -1 while a window is not closed). *)
From Coq Require Import List ZArith Bool Arith Lia.
From PV Require Import Model.SchedTree Model.SchedConc Proofs.SchedTreeProofs Proofs.SchedTreeSeq Proofs.SchedTreeRun Proofs.SchedTreeSpec
  Proofs.SchedConcSections Proofs.SchedConcProofs Proofs.SchedConcCor.
Import ListNotations.
Local Open Scope Z_scope.

(* ------------------------------------------------------------------ sequential callers *)

(* Every tree of once/const/line (DoAt leaves with any offset function), unlimited and composite
   parts, of any nesting, including empty composites and zero-token parts and unknown-length
   parts in any position; every sequence of Start / Next / Left with a non-decreasing clock:
   the schedule built by the constructors (NewComposite calls Left on its children) never
   panics, the recursion of Next/Left is bounded by the size of the tree, and every call
   answers exactly what the abstract token stream answers (run_abs). *)
Theorem C02_seq_refines : forall c fuel now0,
  (size_cfg c <= fuel)%nat ->
  exists s, build fuel now0 c = Ok s /\
    forall lo ops, clock_ok lo ops ->
      run_tree fuel s ops = run_abs (a_init (flatten_cfg c)) ops.
Proof. exact seq_refines. Qed.
Print Assumptions C02_seq_refines.

(* One step, on any reachable state (wf: current path arbitrary, the rest untouched). *)
Theorem C02_seq_next : forall fuel now p s s' t ok,
  wf s -> (started s \/ p = now) -> s_next fuel now s = Ok (s', t, ok) ->
  wf s' /\ started s' /\ afin p s' = afin p s /\
  exists its', abs_next now (afin p s) (absp p s) = (its', t, ok) /\
               drop_closed now its' = drop_closed now (absp p s').
Proof. exact next_sound. Qed.
Print Assumptions C02_seq_next.

Theorem C02_seq_left : forall fuel now p s s' k,
  wf s -> started s -> s_left fuel now s = Ok (s', k) ->
  wf s' /\ started s' /\ afin p s' = afin p s /\
  k = abs_left now (absp p s) /\ drop_closed now (absp p s') = drop_closed now (absp p s).
Proof. exact left_sound. Qed.
Print Assumptions C02_seq_left.

(* Left before the start: the static count (or -1), and the schedule is not touched. *)
Theorem C02_seq_left_before_start : forall fuel now s,
  fresh s -> (size s <= fuel)%nat -> s_left fuel now s = Ok (s, statl (flatten s)).
Proof. exact left_fresh_total. Qed.
Print Assumptions C02_seq_left_before_start.

(* ------------------------------------------------------------------ what the stream guarantees *)

(* Without unlimited parts, successive Next calls return exactly the tokens, each once, in
   order, and then the finish time for ever. *)
Theorem C02_tokens_exactly_once : forall nows f its, existsb is_window its = false ->
  nexts nows f its =
  firstn (length nows) (map (fun x => (tok_time x, true)) its) ++
  repeat (f, false) (length nows - length its).
Proof. exact nexts_tokens. Qed.
Print Assumptions C02_tokens_exactly_once.

(* After exhaustion every call keeps returning the same finish time. *)
Theorem C02_finish_stable : forall now f its its' t,
  abs_next now f its = (its', t, false) ->
  t = f /\ forall now', abs_next now' f its' = ([], f, false).
Proof. exact abs_finish_stable. Qed.
Print Assumptions C02_finish_stable.

(* Left is 0 iff no token remains; drops by one per token drawn; negative iff an unlimited
   window is not closed yet. *)
Theorem C02_left_exact : forall now f its,
  (abs_left now its = 0 <-> snd (abs_next now f its) = false) /\
  (forall its' t, 0 <= abs_left now its -> abs_next now f its = (its', t, true) ->
                  abs_left now its' = abs_left now its - 1) /\
  (abs_left now its < 0 <-> existsb is_window (drop_closed now its) = true).
Proof.
  intros now f its. split; [apply abs_left_zero_iff|]. split; [apply abs_left_drops|apply abs_left_neg_iff].
Qed.
Print Assumptions C02_left_exact.

(* Each part starts exactly at the finish time of the part before it. *)
Theorem C02_parts_chain : forall p,
  (forall n d a r, items_from p (DoAt n d a 0 None :: r) =
     (map (fun k => IT (p + a k)) (seq 0 n) ++ fst (items_from (p + d) r), snd (items_from (p + d) r))) /\
  (forall d r, items_from p (Unlim d None :: r) =
     (IW (p + d - d) (p + d) :: fst (items_from (p + d) r), snd (items_from (p + d) r))).
Proof. intros p. split; [apply items_chain_doat|apply items_chain_unl]. Qed.
Print Assumptions C02_parts_chain.

(* Times never decrease.  The stream of a configuration whose leaves are well behaved
   (offsets non-decreasing, within [0, duration] - property C01) is ordered ([m] = any lower
   bound of the clock) ... *)
Theorem C02_stream_ordered : forall fl p m,
  Forall leaf_ok fl -> Forall unstarted fl ->
  ordered p m (fst (items_from p fl)) (snd (items_from p fl)).
Proof. exact items_ordered. Qed.
Print Assumptions C02_stream_ordered.

(* ... so the times returned by successive Next calls never decrease, for every non-decreasing
   clock, unlimited parts included (an unlimited part answers max(now, its start): after fix
   2c601b5 it no longer hands out tokens before its own start) ... *)
Theorem C02_mono : forall nows f its lo m,
  ordered lo m its f -> clock_mono m nows -> nondecr lo (nexts nows f its).
Proof. exact nexts_nondecr. Qed.
Print Assumptions C02_mono.

(* ... and without unlimited parts whatever the clock does. *)
Theorem C02_mono_finite : forall nows f its lo m,
  existsb is_window its = false -> ordered lo m its f -> nondecr lo (nexts nows f its).
Proof. exact nexts_nondecr_nowin. Qed.
Print Assumptions C02_mono_finite.

(* the former counter-example (a caller that does not wait): one token at 5 of a 10 ns part, then
   an unlimited part, two Next at clock 0 - the second answer is the start of the unlimited part *)
Example C02_mono_example :
  let c := CComp [CDoAt 1 10 (fun _ => 5); CUnlim 10] in
  match build 3 0 c with
  | Ok s => run_tree 3 s [(0, ONext); (0, ONext); (12, ONext); (25, ONext)]
            = [RNext 5 true; RNext 10 true; RNext 12 true; RNext 20 false]
  | _ => False
  end.
Proof. vm_compute. reflexivity. Qed.

(* ------------------------------------------------------------------ instance_step *)
(* NewInstanceStep(from,to,step,dur): from tokens at the start, then step tokens at j*dur for
   every j >= 1 with from + j*step <= to; finish = start + (number of steps)*dur. *)
Theorem C02_instance_step : forall p from to step dur,
  items_from p (flatten_cfg (instance_step from to step dur)) =
  (repeat (IT p) from ++ istep_items p (istep_iters from to step) step dur,
   p + Z.of_nat (istep_iters from to step) * dur) /\
  (forall j, (0 < step)%nat ->
     ((1 <= j /\ from + j * step <= to) <-> (1 <= j <= istep_iters from to step))%nat).
Proof. intros. split; [apply instance_step_items|intros j; apply istep_iters_spec]. Qed.
Print Assumptions C02_instance_step.

(* ------------------------------------------------------------------ finish callback *)
(* coreutil.NewCallbackOnFinishSchedule: onFinish runs exactly once iff some call let its
   caller see the finish (Next with !ok or Left = 0), never otherwise, never twice. *)
Theorem C02_callback_exactly_once : forall evs : list (bool + Z),
  cb_calls (cb_run evs cb_init) = (if existsb is_finish evs then 1 else 0)%nat.
Proof. exact cb_run_exact. Qed.
Print Assumptions C02_callback_exactly_once.

(* ------------------------------------------------------------------ concurrent callers *)
(* Model/SchedConc.v: any number of threads, each with any program of Next/Left calls, run
   the atomic sections of composite.go (read-lock section with one child operation, write-lock
   section with the re-check of len(scheds)) in ANY interleaving, every section reading any
   clock value not before the previous one.  [ireach] = all finite interleavings; the ghost
   history [i_log] records every operation at its linearisation point (the child operation that
   decided its result).  [conc_conclusion] (Proofs/SchedConcCor.v): no section panics; the ghost
   history is a legal sequential history of the abstract token stream (so every Left value is
   abs_left at its linearisation point); every thread got exactly the results of its own
   operations; all Next results are the successive answers of the stream. *)

(* composite of leaves (step, instance_step, every user composite of once/const/line/unlimited) *)
Theorem C02_conc_flat : forall fuel c0 lo0 ths st,
  fresh c0 -> comp_len c0 <> 0%nat -> Forall is_leaf (children c0) -> (size c0 <= S fuel)%nat -> init_threads ths ->
  ireach fuel {| i_g := {| g_c := c0; g_lo := lo0; g_threads := ths |};
                 i_a := a_init (flatten c0); i_log := [] |} st ->
  conc_conclusion fuel c0 lo0 ths st.
Proof. exact conc_flat. Qed.
Print Assumptions C02_conc_flat.

Theorem C02_conc_flat_started : forall fuel c0 c1 lo0 t0 ths st,
  fresh c0 -> comp_len c0 <> 0%nat -> Forall is_leaf (children c0) -> (size c0 <= S fuel)%nat -> init_threads ths ->
  s_start t0 c0 = Ok c1 ->
  ireach fuel {| i_g := {| g_c := c1; g_lo := lo0; g_threads := ths |};
                 i_a := a_start t0 (a_init (flatten c0));
                 i_log := [(0%nat, (lo0, OStart t0), RStart)] |} st ->
  conc_conclusion fuel c0 lo0 ths st.
Proof. exact conc_flat_started. Qed.
Print Assumptions C02_conc_flat_started.

(* PARTIAL (nested composites under concurrency): the same theorem for children of any shape,
   where every operation of a child composite is ONE atomic step of the model.  For leaves this
   is what do_at.go / unlilmited.go do (one atomic counter / clock operation); for a nested
   composite child it is the assumption that the child is a linearizable object - which is
   what C02_conc_flat proves for depth 1 - combined by the substitution principle for
   linearizable objects (Herlihy & Wing 1990, locality), which is NOT mechanised here.
   SUPERSEDED by C02_conc_nested in Properties/C02_nested.v, which proves the theorem for composite
   children of any depth WITHOUT the atomicity assumption (a child operation under the parent's
   read lock is an interleaved sequence of the child's own sections).
   Sequential callers of nested trees are fully covered by C02_seq_refines; nested trees under
   concurrent callers are additionally checked by the correspondence run (log checker). *)
Theorem C02_conc_nested_partial : forall fuel c0 lo0 ths st,
  fresh c0 -> comp_len c0 <> 0%nat -> (size c0 <= S fuel)%nat -> init_threads ths ->
  ireach fuel {| i_g := {| g_c := c0; g_lo := lo0; g_threads := ths |};
                 i_a := a_init (flatten c0); i_log := [] |} st ->
  conc_conclusion fuel c0 lo0 ths st.
Proof. exact conc_atomic_children. Qed.
Print Assumptions C02_conc_nested_partial.

(* every step of the uninstrumented system has its instrumented counterpart (the ghost
   constrains nothing) *)
Theorem C02_conc_ghost_erasable : forall fuel st g',
  gstep fuel (i_g st) g' -> exists st', istep fuel st st' /\ i_g st' = g'.
Proof. exact gstep_lift. Qed.
Print Assumptions C02_conc_ghost_erasable.

(* Consequences.  Exactly once: without unlimited parts the Next results of ALL threads, in
   linearisation order, are the tokens of the schedule, each once, in order, then the finish. *)
Theorem C02_conc_exactly_once : forall fuel c0 lo0 ths st,
  conc_conclusion fuel c0 lo0 ths st -> existsb unknown_part (flatten c0) = false ->
  exists p, let its := fst (items_from p (flatten c0)) in let f := snd (items_from p (flatten c0)) in
    let n := length (next_nows (map evt (i_log st))) in
    next_results (map eres (i_log st)) =
    firstn n (map (fun x => (tok_time x, true)) its) ++ repeat (f, false) (n - length its).
Proof. exact conc_exactly_once. Qed.
Print Assumptions C02_conc_exactly_once.

(* per-thread monotonicity: the times a thread is given never decrease (well-behaved leaves,
   unlimited parts included, any interleaving, any non-decreasing clock) *)
Theorem C02_conc_thread_mono : forall fuel c0 lo0 ths st,
  conc_conclusion fuel c0 lo0 ths st ->
  Forall leaf_ok (flatten c0) -> Forall unstarted (flatten c0) ->
  exists p, forall i th, nth_error (g_threads (i_g st)) i = Some th ->
    nondecr p (next_results (t_hist th)).
Proof. exact conc_thread_mono. Qed.
Print Assumptions C02_conc_thread_mono.

(* after exhaustion every call of every thread returns the same finish time *)
Theorem C02_conc_finish_stable : forall fuel c0 lo0 ths st,
  conc_conclusion fuel c0 lo0 ths st ->
  exists f, forall j x, nth_error (next_results (map eres (i_log st))) j = Some x -> snd x = false ->
    forall j' x', (j <= j')%nat -> nth_error (next_results (map eres (i_log st))) j' = Some x' -> x' = (f, false).
Proof. exact conc_finish_stable. Qed.
Print Assumptions C02_conc_finish_stable.

(* ------------------------------------------------------------------ non-vacuity *)
(* a nested tree with an unknown-length part in the middle: construction succeeds and the run
   is the one the stream predicts (clock 100: the 5 ns window [2,7) is closed) *)
Example C02_example_run :
  let c := CComp [CComp [CDoAt 2 2 (fun k => Z.of_nat k); CUnlim 5]; CDoAt 0 3 (fun _ => 0); CDoAt 1 0 (fun _ => 0)] in
  let ops := [(100, OLeft); (100, OStart 0); (100, ONext); (100, OLeft); (100, ONext); (100, OLeft); (100, ONext); (100, ONext); (100, OLeft)] in
  match build 6 100 c with
  | Ok s => run_tree 6 s ops = run_abs (a_init (flatten_cfg c)) ops /\
            run_tree 6 s ops = [RLeft (-1); RStart; RNext 0 true; RLeft (-1); RNext 1 true; RLeft 1; RNext 10 true; RNext 10 false; RLeft 0]
  | _ => False
  end.
Proof. vm_compute. split; reflexivity. Qed.

Example C02_example_leaf_ok :
  Forall leaf_ok (flatten_cfg (instance_step 2 6 2 10)) /\ Forall unstarted (flatten_cfg (instance_step 2 6 2 10)).
Proof.
  cbn. split; repeat constructor; cbn; intros; lia.
Qed.

(* a composite of two leaves with two threads: the initial state satisfies the hypotheses of
   C02_conc_flat and the system can move (thread 1 runs its read section) *)
Example C02_conc_example :
  let c0 := Comp [DoAt 1 0 (fun _ => 0) 0 None; DoAt 1 0 (fun _ => 0) 0 None] (la_of [DoAt 1 0 (fun _ => 0) 0 None; DoAt 1 0 (fun _ => 0) 0 None]) false in
  let ths := [{| t_pc := PIdle; t_todo := [ONext; OLeft]; t_hist := [] |}; {| t_pc := PIdle; t_todo := [ONext; ONext]; t_hist := [] |}] in
  fresh c0 /\ comp_len c0 <> 0%nat /\ Forall is_leaf (children c0) /\ (size c0 <= 3)%nat /\ init_threads ths /\
  thread_section 2 7 c0 {| t_pc := PIdle; t_todo := [ONext; ONext]; t_hist := [] |} =
    Some (Ok (Comp [DoAt 1 0 (fun _ => 0) 1 (Some 7); DoAt 1 0 (fun _ => 0) 0 None] [1; 0] true, RetN 7 true)).
Proof.
  cbn zeta. split; [|split; [|split; [|split; [|split]]]].
  - apply (fr_comp [DoAt 1 0 (fun _ => 0) 0 None; DoAt 1 0 (fun _ => 0) 0 None]); [repeat constructor|discriminate].
  - cbn. discriminate.
  - repeat constructor.
  - cbn. lia.
  - repeat constructor.
  - reflexivity.
Qed.
