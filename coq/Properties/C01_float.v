(* Property C01, float rounding bound: the IEEE-754 binary64 evaluation of the formulas of
   const.go / line.go stays within the tolerance the correspondence run of ./check C01 uses.
   Statements only; proofs live in Proofs/SchedFloat*.v (Coq Reals + Flocq).

   Modelling assumption [go_float64_correctly_rounded]: every Go float64 operation is the real
   operation rounded to the nearest binary64 number, ties to even ([rnd], Flocq's
   round radix2 (FLT_exp (-1074) 53) ZnearestE), one rounding per source operation (no fused
   multiply-add: amd64 at the default GOAMD64 level); float64 -> int64/Duration truncates.
   FLT has no largest exponent: the theorems bound the converted results inside int64, which
   also excludes overflow to +Inf.

   u = 2^-53.  [near r ops]: the float64 ops is the configured real rate r up to one rounding
   (ops = r when r is a binary64 number, ops = rnd r otherwise).
   [rate_guard ops]: 2^-20 <= ops <= 2^40 requests per second. *)
From Coq Require Import ZArith QArith Reals.
From Flocq Require Import Core.
From PV Require Import Model.Sched Proofs.SchedFloatCore Proofs.SchedFloatRel Proofs.SchedFloatConst
  Proofs.SchedFloatLink Proofs.SchedFloatLine Proofs.SchedFloatLineLink Proofs.SchedFloatLineDec Proofs.SchedFloatLineDecLink.
Local Open Scope R_scope.

(* constDoAt, Duration(float64(i) * (1e9/ops)): before the conversion the float64 value is
   within X * 4u = X * 2^-51 of the exact X = i * 10^9 / r; after it the nanosecond differs
   from the exact floor by less than 1 + X * 2^-51. *)
Theorem C01_float_const_at : forall r ops i,
  near r ops -> rate_guard ops -> (0 <= i < 2 ^ 53)%Z ->
  let X := IZR i * billion / r in
  Rabs (go_const_at_f ops i - X) <= X * (4 * u) /\
  IZR (Z.abs (go_const_at ops i - Zfloor X)) < 1 + X * bpow radix2 (-51).
Proof.
  intros r ops i Hn Hg Hi. split; [exact (proj1 (const_at_f_err r ops i Hn Hg Hi))|exact (const_at_err r ops i Hn Hg Hi)].
Qed.
Print Assumptions C01_float_const_at.

(* ... hence, for every instant X <= D <= 2^62 ns, within the integer tolerance 1 + D/2^40 of
   the driver, and the converted value is a valid int64 *)
Theorem C01_float_const_at_tol : forall r ops i D,
  near r ops -> rate_guard ops -> (0 <= i < 2 ^ 53)%Z ->
  let X := IZR i * billion / r in
  X <= IZR D -> (D <= 2 ^ 62)%Z ->
  (Z.abs (go_const_at ops i - Zfloor X) <= 1 + D / 2 ^ 40)%Z /\ (0 <= go_const_at ops i < 2 ^ 63)%Z.
Proof. exact const_at_tol. Qed.
Print Assumptions C01_float_const_at_tol.

(* against the exact model of Properties/C01.v: operation k of a valid const profile *)
Theorem C01_float_const_at_model : forall q ops D k,
  valid (PConst q D) -> near (Q2R q) ops -> rate_guard ops ->
  (D <= 2 ^ 62)%Z -> (0 <= k < count (PConst q D))%Z -> (k < 2 ^ 53)%Z ->
  (Z.abs (go_const_at ops k - const_at q k) <= 1 + D / 2 ^ 40)%Z /\ (0 <= go_const_at ops k < 2 ^ 63)%Z.
Proof. exact float_const_at_model. Qed.
Print Assumptions C01_float_const_at_model.

(* NewConst, int64(ops * (float64(D)/1e9)): the float64 product is within relative 2^-50
   (4 roundings, 5u) of the exact integral I = r D / 10^9; so the count lies between the floors
   of I(1 -+ 2^-50), differs from floor(I) only if an integer lies within I 2^-50 of I, and fits
   int64 when I <= 2^62. *)
Theorem C01_float_const_count : forall r ops D,
  near r ops -> ops = 0 \/ rate_guard ops -> (1000000 <= D < 2 ^ 63)%Z ->
  let I := r * IZR D / billion in
  let eps := bpow radix2 (-50) in
  Rabs (go_const_n_f ops D - I) <= I * eps /\
  (Zfloor (I * (1 - eps)) <= go_const_n ops D <= Zfloor (I * (1 + eps)))%Z /\
  (go_const_n ops D <> Zfloor I -> exists m : Z, Rabs (IZR m - I) <= I * eps) /\
  (I <= bpow radix2 62 -> (0 <= go_const_n ops D < 2 ^ 63)%Z).
Proof.
  intros r ops D Hn Hg HD. split; [exact (proj1 (const_n_f_err r ops D Hn Hg HD))|exact (const_n_err r ops D Hn Hg HD)].
Qed.
Print Assumptions C01_float_const_count.

(* against the executable specification: the float64 count passes spec_b's count check with
   the driver's relative tolerance 2^-40, and equals the model's count unless the exact
   integral is within relative 2^-50 of an integer *)
Theorem C01_float_const_count_model : forall q ops D,
  valid (PConst q D) -> near (Q2R q) ops -> ops = 0 \/ rate_guard ops -> (D < 2 ^ 63)%Z ->
  count_ok (cum_const q D) (1 # 1099511627776) (go_const_n ops D) = true /\
  let I := Q2R (cum_const q D) in
  (go_const_n ops D <> count (PConst q D) -> exists m : Z, Rabs (IZR m - I) <= I * bpow radix2 (-50)) /\
  (I <= bpow radix2 62 -> (0 <= go_const_n ops D < 2 ^ 63)%Z).
Proof.
  intros q ops D Hv Hn Hg HD. split; [exact (float_const_count_ok q ops D Hv Hn Hg HD)|exact (float_const_count_model q ops D Hv Hn Hg HD)].
Qed.
Print Assumptions C01_float_const_count_model.

(* non-vacuity: 0.3 requests per second for 7.001 s; the code computes with rnd(3/10) *)
Example C01_float_example_const :
  let q := (3 # 10)%Q in let D := 7001000000%Z in let ops := rnd (3 / 10) in
  valid (PConst q D) /\ near (Q2R q) ops /\ rate_guard ops /\
  count (PConst q D) = 2%Z /\ const_at q 1 = 3333333333%Z /\
  go_const_n ops D = 2%Z /\ (Z.abs (go_const_at ops 1 - 3333333333) <= 1)%Z.
Proof. exact float_const_example. Qed.

(* ------------------------------------------------------------------------------------ *)
(* line.go, lines whose rates are binary64 numbers (NewLine takes float64 arguments; the rational
   rates of the model are their values).
   Proved in full: the count of increasing and of decreasing lines; the instants of increasing
   lines (tolerance of the driver incl. the cancellation term D*kappa/2^48).
   PARTIAL (names end in _partial): the instants of DECREASING lines.  There the radicand
   b*b - 2|a|i itself cancels and the error grows like from/rate(x): the bound is proved with the
   explicit conditioning V = (from/rate(x)) * from*1e9/|a| and reaches the driver's tolerance only
   for the operations with (from/rate(x)) * from/(from-to) <= c, 3c <= 1020 + 4 kappa (all
   operations of a line that does not fall below ~1/340 of its initial rate); for the remaining
   operations of steeper lines the tolerance of the correspondence run stays a measured one.
   Rates that are not binary64 numbers (decimal config values) are not covered for lines: their
   representation error enters the slope multiplied by kappa. *)

(* lineDoAt, Duration((math.Sqrt(2a*float64(i) + b*b) - b) * (1e9/a)) for binary64 a > 0, b >= 0:
   with S = sqrt(2 a i + b^2), Y = (S - b) 1e9/a the exact instant and Z = S 1e9/a >= Y (Z/Y is
   the cancellation factor of the subtraction), the float64 value before the conversion is
   within 4u Y + 3u Z + eta of Y (eta = 2^-1075 covers an underflow of the last product) *)
Theorem C01_float_line_at_partial : forall a b i,
  is_b64 a -> is_b64 b -> slope_guard a -> b = 0 \/ rate_guard b -> (0 <= i < 2 ^ 53)%Z ->
  Rabs (go_line_at_f a b i - line_Y a b i) <= 4 * u * line_Y a b i + 3 * u * line_Z a b i + eta /\
  0 <= line_Y a b i <= line_Z a b i.
Proof. exact line_at_f_err. Qed.
Print Assumptions C01_float_line_at_partial.

(* NewLine + lineDoAt against the exact model: the slope is computed in float64
   (a = fl(fl(to - from) / fl(fl(D)/1e9)), relative error 5u, guard 2^-40 <= a <= 2^50), the
   instant of operation k is within the driver's tolerance 1 + D/2^40 + D*kappa/2^48 of the
   model's line_at, for any integer kappa >= to/(to - from) (the driver takes the ceiling) *)
Theorem C01_float_line_at_model_partial : forall f t D k (kappa : Z),
  valid (PLine f t D) -> (f < t)%Q ->
  is_b64 (Q2R f) -> is_b64 (Q2R t) -> Q2R f = 0 \/ rate_guard (Q2R f) ->
  let a := go_line_a (Q2R f) (Q2R t) D in
  slope_guard a ->
  (D < 2 ^ 63)%Z -> (0 <= k < count (PLine f t D))%Z -> (k < 2 ^ 53)%Z ->
  Q2R t <= IZR kappa * (Q2R t - Q2R f) ->
  exists x, line_at f t D k = Some x /\
    (Z.abs (go_line_at a (Q2R f) k - x) <= 1 + D / 2 ^ 40 + (D * kappa) / 2 ^ 48)%Z.
Proof. exact float_line_at_model. Qed.
Print Assumptions C01_float_line_at_model_partial.

(* NewLine, int64(a*xn*xn/2 + b*xn): the float64 sum is within relative 2^-49 (14u) of the exact
   integral; the count passes spec_b's count check with the driver's 2^-40 and equals the
   model's count unless the integral is within relative 2^-49 of an integer *)
Theorem C01_float_line_count_inc : forall f t D,
  valid (PLine f t D) -> (f < t)%Q ->
  is_b64 (Q2R f) -> is_b64 (Q2R t) -> Q2R f = 0 \/ rate_guard (Q2R f) ->
  let a := go_line_a (Q2R f) (Q2R t) D in
  slope_guard a -> (D < 2 ^ 63)%Z ->
  let I := Q2R (cum_line f t D D) in
  count_ok (cum_line f t D D) (1 # 1099511627776) (go_line_n a (Q2R f) D) = true /\
  Rabs (go_line_n_f a (Q2R f) D - I) <= I * bpow radix2 (-49) /\
  (go_line_n a (Q2R f) D <> count (PLine f t D) -> exists m : Z, Rabs (IZR m - I) <= I * bpow radix2 (-49)) /\
  (I <= bpow radix2 62 -> (0 <= go_line_n a (Q2R f) D < 2 ^ 63)%Z).
Proof. exact float_line_count_model. Qed.
Print Assumptions C01_float_line_count_inc.

(* decreasing line, a = -alpha < 0: with R = b^2 - 2 alpha i >= 64u b^2, S = sqrt R, Y the exact
   instant and V = (b^2/S) 1e9/alpha, the float64 value of lineDoAt is within 4u Y + 5u V + eta *)
Theorem C01_float_line_dec_at_partial : forall alpha b i,
  is_b64 alpha -> is_b64 b -> slope_guard alpha -> rate_guard b -> (0 <= i < 2 ^ 53)%Z ->
  64 * u * (b * b) <= b * b - 2 * alpha * IZR i ->
  let Y := line_Y (- alpha) b i in
  Rabs (go_line_at_f (- alpha) b i - Y) <= 4 * u * Y + 5 * u * line_V alpha b i + eta /\
  0 <= Y <= line_V alpha b i.
Proof. exact line_at_dec_f_err. Qed.
Print Assumptions C01_float_line_dec_at_partial.

(* against the exact model: operation k of a valid decreasing line, scheduled where
   from^2 <= c (from - to) rate(x)  (rate(x) = line_S = sqrt(2 a k + from^2)), with
   3c <= 1020 + 4 kappa, is within the driver's tolerance of the model's line_at *)
Theorem C01_float_line_dec_at_model_partial : forall f t D k (c kappa : Z),
  valid (PLine f t D) -> (t < f)%Q ->
  is_b64 (Q2R f) -> is_b64 (Q2R t) -> rate_guard (Q2R f) ->
  let a := go_line_a (Q2R f) (Q2R t) D in
  slope_guard (- a) ->
  (D < 2 ^ 63)%Z -> (0 <= k < count (PLine f t D))%Z -> (k < 2 ^ 53)%Z ->
  Q2R f * Q2R f <= IZR c * (Q2R f - Q2R t) * line_S (line_slope (Q2R f) (Q2R t) D) (Q2R f) k ->
  (c <= 2 ^ 23)%Z -> (0 <= kappa)%Z -> (3 * c <= 1020 + 4 * kappa)%Z ->
  exists x, line_at f t D k = Some x /\
    (Z.abs (go_line_at a (Q2R f) k - x) <= 1 + D / 2 ^ 40 + (D * kappa) / 2 ^ 48)%Z.
Proof. exact float_line_at_model_dec. Qed.
Print Assumptions C01_float_line_dec_at_model_partial.

(* the count of a decreasing line: the float64 sum a*xn*xn/2 + b*xn (a difference) is within
   relative 2^-48 (23u) of the exact integral *)
Theorem C01_float_line_count_dec : forall f t D,
  valid (PLine f t D) -> (t < f)%Q ->
  is_b64 (Q2R f) -> is_b64 (Q2R t) -> rate_guard (Q2R f) ->
  let a := go_line_a (Q2R f) (Q2R t) D in
  slope_guard (- a) -> (D < 2 ^ 63)%Z ->
  let I := Q2R (cum_line f t D D) in
  count_ok (cum_line f t D D) (1 # 1099511627776) (go_line_n a (Q2R f) D) = true /\
  Rabs (go_line_n_f a (Q2R f) D - I) <= I * bpow radix2 (-48) /\
  (go_line_n a (Q2R f) D <> count (PLine f t D) -> exists m : Z, Rabs (IZR m - I) <= I * bpow radix2 (-48)) /\
  (I <= bpow radix2 62 -> (0 <= go_line_n a (Q2R f) D < 2 ^ 63)%Z).
Proof. exact float_line_count_model_dec. Qed.
Print Assumptions C01_float_line_count_dec.

(* non-vacuity: line 0 -> 10 requests per second over 1.5 s *)
Example C01_float_example_line :
  let f := 0%Q in let t := (10 # 1)%Q in let D := 1500000000%Z in
  let a := go_line_a (Q2R f) (Q2R t) D in
  valid (PLine f t D) /\ is_b64 (Q2R f) /\ is_b64 (Q2R t) /\ slope_guard a /\
  count (PLine f t D) = 7%Z /\ line_at f t D 6 = Some 1341640786%Z /\
  go_line_n a (Q2R f) D = 7%Z /\ (Z.abs (go_line_at a (Q2R f) 6 - 1341640786) <= 1)%Z.
Proof. exact float_line_example. Qed.

(* non-vacuity: line 10 -> 0 requests per second over 0.5 s (c = 2, kappa = 1) *)
Example C01_float_example_line_dec :
  let f := (10 # 1)%Q in let t := 0%Q in let D := 500000000%Z in
  let a := go_line_a (Q2R f) (Q2R t) D in
  valid (PLine f t D) /\ is_b64 (Q2R f) /\ is_b64 (Q2R t) /\ rate_guard (Q2R f) /\ slope_guard (- a) /\
  count (PLine f t D) = 2%Z /\ line_at f t D 1 = Some 112701665%Z /\
  go_line_n a (Q2R f) D = 2%Z /\ (Z.abs (go_line_at a (Q2R f) 1 - 112701665) <= 1)%Z.
Proof. exact float_line_dec_example. Qed.
