(* Property C20 — gRPC wire fidelity. Statements only; proofs live in Proofs/. *)
From Coq Require Import List NArith ZArith Bool.
From PV Require Import Model.GrpcCall Model.GrpcExample Proofs.GrpcCallProofs.
Import ListNotations.

(* A call that reaches the wire targets exactly the entry's method, carries exactly the entry's
   metadata and the configured timeout (15 s when none is configured), and its message is what
   the codec yields for the entry's payload against the input type of that method; an unknown
   method gives code 0, a payload that does not fit gives code 400, and in both cases nothing
   is sent. Quantified over the codec, the method table and the target's answers. *)
Theorem C20_method_and_metadata :
  forall (desc msg payload : Type) (reencode : payload -> payload) (fits : desc -> payload -> option msg)
         (code_of_status : N -> N) (respond : sent msg -> N) (g : gun desc) (e : entry payload),
    (forall s, shoot desc msg payload reencode fits g e = Sent s ->
       s_method s = e_call payload e /\ s_meta s = e_meta payload e /\
       s_timeout s = eff_timeout (g_timeout desc g) /\
       exists d, find_method (g_services desc g) (e_call payload e) = Some d /\
                 fits d (reencode (e_payload payload e)) = Some (s_message s)) /\
    (forall d m, find_method (g_services desc g) (e_call payload e) = Some d ->
       fits d (reencode (e_payload payload e)) = Some m ->
       shoot desc msg payload reencode fits g e =
         Sent (mkSent (e_call payload e) m (e_meta payload e) (eff_timeout (g_timeout desc g)))) /\
    (find_method (g_services desc g) (e_call payload e) = None ->
       shoot desc msg payload reencode fits g e = UnknownMethod /\
       sample_code msg code_of_status respond (shoot desc msg payload reencode fits g e) = 0%N) /\
    (forall d, find_method (g_services desc g) (e_call payload e) = Some d ->
       fits d (reencode (e_payload payload e)) = None ->
       shoot desc msg payload reencode fits g e = BadPayload /\
       sample_code msg code_of_status respond (shoot desc msg payload reencode fits g e) = 400%N) /\
    eff_timeout 0 = 15000000000%Z /\ (forall t, t <> 0%Z -> eff_timeout t = t).
Proof.
  intros. split; [intros s; apply shoot_sent|].
  split; [intros d m; apply shoot_sends|].
  split; [apply shoot_unknown|].
  split; [intros d; apply shoot_badpayload|].
  split; [exact eff_timeout_default|exact eff_timeout_conf].
Qed.
Print Assumptions C20_method_and_metadata.

(* Any number of instances (each with its own gun object over the shared method table), any
   assignment of entries to instances: the list of results is the specification mapped over
   the entries — the outcome of entry i is a function of entry i alone, and the guns are left
   as they were. *)
Theorem C20_independent :
  forall (desc msg payload : Type) (reencode : payload -> payload) (fits : desc -> payload -> option msg)
         (code_of_status : N -> N) (respond : sent msg -> N)
         (t : mtable desc) (timeout : Z) (guns : list (gun desc)) (sched : list (nat * entry payload)),
    Forall (fun g => g = mkGun desc t timeout) guns ->
    Forall (fun ie => fst ie < length guns) sched ->
    run_instances desc msg payload reencode fits code_of_status respond guns sched =
      (guns, map (fun ie => spec_result desc msg payload reencode fits code_of_status respond t timeout (snd ie)) sched).
Proof. exact run_instances_spec. Qed.
Print Assumptions C20_independent.
