(* Property C20 — gRPC wire fidelity. Statements only; proofs live in Proofs/. *)
From Coq Require Import List NArith ZArith Bool.
From PV Require Import Model.GrpcCall Model.GrpcExample Proofs.GrpcCallProofs.
Import ListNotations.

(* A call that reaches the wire targets exactly the entry's method, carries exactly the entry's
   metadata and the configured timeout (15 s when none is configured), and its message is what
   the codec yields for the entry's payload against the input type of that method; an unknown
   method gives code 0, a payload that does not fit gives code 400, and in both cases nothing
   is sent. Quantified over the codec, the method table and the target's answers. *)
Theorem C20_method_and_metadata :
  forall (desc msg payload : Type) (reencode : payload -> payload) (fits : desc -> payload -> option msg)
         (code_of_status : N -> N) (respond : sent msg -> N) (g : gun desc) (e : entry payload),
    (forall s, shoot desc msg payload reencode fits g e = Sent s ->
       s_method s = e_call payload e /\ s_meta s = e_meta payload e /\
       s_timeout s = eff_timeout (g_timeout desc g) /\
       exists d, find_method (g_services desc g) (e_call payload e) = Some d /\
                 fits d (reencode (e_payload payload e)) = Some (s_message s)) /\
    (forall d m, find_method (g_services desc g) (e_call payload e) = Some d ->
       fits d (reencode (e_payload payload e)) = Some m ->
       shoot desc msg payload reencode fits g e =
         Sent (mkSent (e_call payload e) m (e_meta payload e) (eff_timeout (g_timeout desc g)))) /\
    (find_method (g_services desc g) (e_call payload e) = None ->
       shoot desc msg payload reencode fits g e = UnknownMethod /\
       sample_code msg code_of_status respond (shoot desc msg payload reencode fits g e) = 0%N) /\
    (forall d, find_method (g_services desc g) (e_call payload e) = Some d ->
       fits d (reencode (e_payload payload e)) = None ->
       shoot desc msg payload reencode fits g e = BadPayload /\
       sample_code msg code_of_status respond (shoot desc msg payload reencode fits g e) = 400%N) /\
    eff_timeout 0 = 15000000000%Z /\ (forall t, t <> 0%Z -> eff_timeout t = t).
Proof.
  intros. split; [intros s; apply shoot_sent|].
  split; [intros d m; apply shoot_sends|].
  split; [apply shoot_unknown|].
  split; [intros d; apply shoot_badpayload|].
  split; [exact eff_timeout_default|exact eff_timeout_conf].
Qed.
Print Assumptions C20_method_and_metadata.

(* Any number of instances (each with its own gun object over the shared method table), any
   assignment of entries to instances: the list of results is the specification mapped over
   the entries — the outcome of entry i is a function of entry i alone, and the guns are left
   as they were. *)
Theorem C20_independent :
  forall (desc msg payload : Type) (reencode : payload -> payload) (fits : desc -> payload -> option msg)
         (code_of_status : N -> N) (respond : sent msg -> N)
         (t : mtable desc) (timeout : Z) (guns : list (gun desc)) (sched : list (nat * entry payload)),
    Forall (fun g => g = mkGun desc t timeout) guns ->
    Forall (fun ie => fst ie < length guns) sched ->
    run_instances desc msg payload reencode fits code_of_status respond guns sched =
      (guns, map (fun ie => spec_result desc msg payload reencode fits code_of_status respond t timeout (snd ie)) sched).
Proof. exact run_instances_spec. Qed.
Print Assumptions C20_independent.

From PV Require Import Proofs.GrpcExampleProofs.

(* gRPC scenario calls, FULL statement: any number of instances (guns with their own template
   caches over the SHARED step definitions), any interleaving of their step executions, any
   variables: the shared definitions end exactly as configured, and every step execution has the
   outcome obtained by rendering the CONFIGURED payload and metadata templates with that
   execution's variables — method = the step's call, metadata = the rendered configured
   metadata, configured timeout (see spec_step).  Hypotheses: a call name denotes one definition
   (the provider's call registry is keyed by name) and every metadata cell is a map. *)
Theorem C20_scenario_metadata :
  forall (desc msg tmpl vars : Type) (parse_t : gbytes -> option tmpl) (exec_t : tmpl -> vars -> option gbytes)
         (fits_text : desc -> gbytes -> option msg)
         (h : heap) (defs : list step) (t : mtable desc) (timeout : Z) (evs : list (sevent vars)),
    steps_wf h defs ->
    forall guns : list (sgun desc tmpl),
    Forall (gun_ok desc tmpl parse_t h defs t timeout) guns ->
    Forall (fun e => In (ev_step vars e) defs /\ ev_inst vars e < length guns) evs ->
    exists guns',
      run_events desc msg tmpl vars parse_t exec_t fits_text h guns evs =
        (h, guns', map (fun e => spec_step desc msg tmpl vars parse_t exec_t fits_text t timeout h (ev_step vars e) (ev_vars vars e)) evs) /\
      Forall (gun_ok desc tmpl parse_t h defs t timeout) guns' /\ length guns' = length guns.
Proof. exact run_events_spec. Qed.
Print Assumptions C20_scenario_metadata.

(* a freshly created gun (empty template cache) satisfies the invariant *)
Theorem C20_fresh_gun_ok :
  forall (desc tmpl : Type) (parse_t : gbytes -> option tmpl) h defs (t : mtable desc) timeout,
    gun_ok desc tmpl parse_t h defs t timeout (mkSGun desc tmpl t timeout []).
Proof. intros. repeat split. apply cache_ok_nil. Qed.
Print Assumptions C20_fresh_gun_ok.

(* a whole scenario shot: the specified outcomes of its steps up to and including the first step
   that is not sent; a failing step stops this shot only (the gun and the shared definitions stay
   well-formed for every later shot) *)
Theorem C20_scenario_shot :
  forall (desc msg tmpl vars : Type) (parse_t : gbytes -> option tmpl) (exec_t : tmpl -> vars -> option gbytes)
         (fits_text : desc -> gbytes -> option msg) h defs (t : mtable desc) timeout scn (sts : list (step * vars)),
    steps_wf h defs -> Forall (fun sv => In (fst sv) defs) sts ->
    forall g, gun_ok desc tmpl parse_t h defs t timeout g ->
    exists g',
      shoot_scenario desc msg tmpl vars parse_t exec_t fits_text h g scn sts =
        (h, g', spec_scenario desc msg tmpl vars parse_t exec_t fits_text t timeout h sts) /\
      gun_ok desc tmpl parse_t h defs t timeout g'.
Proof. exact shoot_scenario_ok. Qed.
Print Assumptions C20_scenario_shot.

(* grpc/json payloads against the example service: the provider decodes numbers into float64 and
   the gun prints them again.  PARTIAL: the message is the exact interpretation of the payload
   (and the whole code-shaped replay equals the specification) under the guard that every integer
   literal is below 2^53 in magnitude.  Missing for the full statement: integers beyond 2^53 —
   refuted below (known finding json:message-int64-precision). *)
Theorem C20_json_message_partial :
  forall (sd : Z -> option Z) (code_of_status : N -> N) (respond : sent msg_c -> N),
    (forall d fs, fields_small fs = true -> interp d (reencode_c sd fs) = interp d fs) /\
    (forall n timeout es, n <> 0 ->
       Forall (fun e => fields_small (e_payload fields e) = true) es ->
       json_model sd code_of_status respond n timeout es = json_spec code_of_status respond timeout es).
Proof. intros. split; [intros d fs; apply interp_reencode|apply json_model_is_spec]. Qed.
Print Assumptions C20_json_message_partial.

(* The full statement "every int64 written as a JSON number arrives as written" is false of the
   faithful model: whatever decimal Go prints for a float64 (it depends on the float64 only), some
   in-range integer is re-encoded as something else. *)
Theorem C20_json_int64_refuted :
  forall sd : Z -> option Z, (forall z, sd z = sd (f64_round z)) ->
  exists z, in_int64 z = true /\ reencode_int sd z <> PInt z.
Proof. exact reencode_int_lossy. Qed.
Print Assumptions C20_json_int64_refuted.

(* The scenario replay used by the correspondence run (n guns with template caches over the shared
   heap, any shot order, the [next] bookkeeping of the `prepare` preprocessor) IS its specification
   (every shot rendered from the configured definitions), and the heap it returns is the configured
   one — for definitions with distinct call names and map-like metadata blocks. *)
Theorem C20_scenario_replay :
  forall users defs scens timeout n order,
    defs_wf defs -> Forall (fun i => i < n) order ->
    scen_model users defs scens (heap_of defs) (sguns_of n timeout) 0 0 order =
      (heap_of defs, scen_spec users defs scens timeout (heap_of defs) 0 0 order).
Proof.
  intros users defs scens timeout n order Hwf Ho.
  apply scen_model_is_spec; [exact Hwf|apply sguns_ok|].
  unfold sguns_of. rewrite repeat_length. exact Ho.
Qed.
Print Assumptions C20_scenario_replay.

(* ---------- non-vacuity ---------- *)

Definition ex_tok : gbytes := [123;123;46;117;46;116;111;107;101;110;125;125]%N.   (* {{.u.token}} *)
Definition ex_step : step := mkStep [97]%N [116]%N (b_prefix ++ [72;101;108;108;111]%N) 0 [123;125]%N.
Definition ex_heap : heap := [[([107]%N, [66;32]%N ++ ex_tok)]].

(* the hypotheses of C20_scenario_metadata are satisfiable … *)
Example C20_steps_wf_example : steps_wf ex_heap [ex_step].
Proof.
  split.
  - intros s1 s2 [<-|[]] [<-|[]] _. reflexivity.
  - intros s [<-|[]] k t1 t2 [H1|[]] [H2|[]]. congruence.
Qed.

(* … and on this definition two guns with different variables send different metadata, each the
   rendering of the configured template, and the shared heap is unchanged *)
Example C20_two_guns_example :
  let guns := sguns_of 2 0 in
  let evs := [mkEv vars_c 0 [115]%N ex_step (Some ([65;65;65]%N, [49]%N));
              mkEv vars_c 1 [115]%N ex_step (Some ([66;66;66]%N, [50]%N))] in
  let '(h', _, outs) := run_events desc_c msg_c tmpl_c vars_c parse_t_c exec_t_c fits_text_c ex_heap guns evs in
  h' = ex_heap /\
  map (fun o => match o with Sent s => s_meta s | _ => [] end) outs =
    [[([107]%N, [66;32;65;65;65]%N)]; [([107]%N, [66;32;66;66;66]%N)]].
Proof. vm_compute. split; reflexivity. Qed.

(* the hypotheses of C20_independent are met by n guns built from one config *)
Example C20_independent_example :
  Forall (fun g => g = mkGun desc_c example_table 0) (mk_guns 3 0) /\
  Forall (fun ie : nat * entry fields => fst ie < length (mk_guns 3 0))
         (round_robin 3 0 [mkEntry fields [] [] [] []; mkEntry fields [] [] [] []]).
Proof. split; repeat constructor. Qed.
