(* Property C14 at the level of the CONTENT of the delivered ammo — tags as byte strings, the
   header set in force at an entry's own line.  Statements only; proofs in
   Proofs/PreloadContentProofs.v, model in Model/PreloadContent.v (on top of the entry-list
   machines of Model/Provider.v, instantiated by numbering the tags of the file and the listed
   tags by their first position in one table).

   A file is a list of header lines [CHdr k v] and entries [CEnt tag]; [file_entries cfgh items [] 0]
   is what it means: every entry with its position, its tag and the header set in force at its own
   line, completed by the provider's `headers:` option [cfgh] for the keys the file does not set.
   [deliver_c k preload lim pas cfgh items chb cancel fuel] = (the contents the consumer sees, Run's
   result, sink closed) for the http provider of decoder kind k; a content is looked at through the
   reference the ammo object holds into the decoder's heap of header maps ([contents_of]). *)
From Coq Require Import List Arith Bool NArith ZArith.
From PV Require Import Lib.AmmoBytes.
From PV Require Model.AmmoCommon Model.AmmoUri Model.AmmoRaw Proofs.AmmoRawProofs Proofs.AmmoUriProofs.
From PV Require Import Model.Provider Model.Preload Model.PreloadContent
  Proofs.ProviderProofs Proofs.PreloadProofs Proofs.PreloadContentProofs.
Import ListNotations.

(* With chosencases set exactly the entries whose WHOLE tag (a byte string: blanks, tabs, any
   bytes) is listed are delivered, in file order, cyclically, each with its own tag and the header
   set of its own line; limit counts delivered entries; a list matching nothing ends with "no
   ammo"; for preload on and off, every decoder kind, every file with at least one entry, every
   `headers:` option, limit, passes, chosencases list, cancellation point and fuel. *)
Theorem C14_content : forall k preload lim pas cfgh items chb,
  let cs := file_entries cfgh items [] 0 in
  let src := chosen_content chb cs in
  let n := length cs in
  let C := c14_const n in
  let runc := deliver_c k preload lim pas cfgh items chb in
  cs <> [] ->
  (forall c, In c src <-> In c cs /\ (chb = [] \/ In (c_tag c) chb))
  /\ (src <> [] ->
      (forall b fuel, bound lim pas (length src) = Some b -> C * (b + n + 1) < fuel ->
         runc None fuel = (cyc_c src b, Ok, true))
      /\ (forall cancel fuel, exists j,
            fst (fst (runc cancel fuel)) = cyc_c src j /\ le_opt j (bound lim pas (length src))))
  /\ (src = [] -> forall fuel, C * (n + 1) < fuel -> runc None fuel = ([], Failed ENoAmmo, true)).
Proof. exact c14_content. Qed.
Print Assumptions C14_content.

(* Preload on = preload off including the content of every delivered ammo, Run's result and the
   sink state, whenever the run ends by itself (a bound exists, or nothing matches). *)
Theorem C14_content_equiv : forall k lim pas cfgh items chb,
  let cs := file_entries cfgh items [] 0 in
  let src := chosen_content chb cs in
  let n := length cs in
  let C := c14_const n in
  cs <> [] ->
  forall b f1 f2,
    ((src <> [] /\ bound lim pas (length src) = Some b) \/ (src = [] /\ b = n)) ->
    C * (b + n + 1) < f1 -> C * (b + n + 1) < f2 ->
    deliver_c k true lim pas cfgh items chb None f1 = deliver_c k false lim pas cfgh items chb None f2.
Proof. exact c14_content_equiv. Qed.
Print Assumptions C14_content_equiv.

(* The decoder's running header map is a mutable object (decoders/uri.go d.Header,
   decoders/uripost.go d.header): header lines mutate the live map in place, an entry gets a fresh
   copy and keeps the reference, a new pass installs a new empty live map.  Whatever the decoder
   does after an entry was decoded ([dec_events]: more header lines, more entries, more passes), the
   entry shows the header set of its own line: (1) both ways of looking at a pass — as the entries
   come, or after the whole file was decoded (LoadAmmo) — give what the file means; (2) the
   preloaded entries keep showing it on every later replay; (3) so does a streamed entry that is
   looked at late; (4) every streaming pass gives the same contents. *)
Theorem C14_live_header_map : forall cfgh items,
  (forall preload, contents_of preload cfgh items = file_entries cfgh items [] 0)
  /\ (forall s es evs, pass_load cfgh heap_init items 0 = (s, es) ->
        map (deref (hp (dec_events cfgh s evs))) es = file_entries cfgh items [] 0)
  /\ (forall s t i s1 e evs, hwf s -> dec_item cfgh s (CEnt t) i = (s1, Some e) ->
        deref (hp (dec_events cfgh s1 evs)) e =
          {| c_pos := i; c_tag := t; c_hdrs := merge_cfg cfgh (cell (hp s) (live s)) |})
  /\ (forall p, stream_passes cfgh p heap_init items = repeat (file_entries cfgh items [] 0) p).
Proof. exact live_header_map. Qed.
Print Assumptions C14_live_header_map.

(* The chosencases test is equality of the whole byte string, and numbering tags by one table
   (how the entry-list machines are instantiated) loses nothing. *)
Theorem C14_whole_tag :
  (forall t chb, is_chosen_b t chb = true <-> chb = [] \/ In t chb)
  /\ (forall tab t chb, In t tab -> is_chosen (index_of t tab) (abs_chosen tab chb) = is_chosen_b t chb)
  /\ (forall tab a b, In a tab -> index_of a tab = index_of b tab -> a = b).
Proof. exact whole_tag. Qed.
Print Assumptions C14_whole_tag.

(* Link to the byte level (C07's models of the decoders).  raw: the tag of a header line
   "size tag" is everything after the first blank, whatever bytes it contains. *)
Theorem C14_raw_header_whole_tag : forall t b,
  (Z.of_N (nlen b) <= AmmoCommon.max_alloc)%Z ->
  AmmoRaw.raw_decode_header (AmmoRaw.ritem_text (AmmoRaw.RReq t b)) = Some (Z.of_N (nlen b), t).
Proof. exact AmmoRawProofs.raw_decode_header_text. Qed.
Print Assumptions C14_raw_header_whole_tag.

(* uri: the byte-level decoder on any well-formed rendered file (any layout) delivers, cyclically,
   entries whose tags and header sets are those of [file_entries] of the corresponding C14 file. *)
Theorem C14_uri_bytes_link :
  forall url_parse maxtok (items : list (AmmoUri.uitem * AmmoCommon.lay)) final_nl k,
  forallb (AmmoUri.wf_uitem url_parse maxtok) items = true ->
  AmmoUri.uri_entries (map fst items) [] <> [] ->
  exists es,
    AmmoUri.uri_decode url_parse maxtok AmmoCommon.cfg0 k (AmmoUri.render_uri items final_nl)
      = map AmmoCommon.SDeliver (AmmoUri.cycle_take k es es)
    /\ map (fun e => (AmmoCommon.e_tag e, AmmoCommon.e_headers e)) es
       = map (fun c => (c_tag c, c_hdrs c)) (file_entries [] (citems_of_uri (map fst items)) [] 0).
Proof. exact uri_bytes_link. Qed.
Print Assumptions C14_uri_bytes_link.

(* Non-vacuity: [X-Stage: one] /e0 "t1" [X-Stage: two] /e1 "t1 x" /e2 "t1", `headers: [X-Cfg: c]`.
   chosencases ["t1"] delivers /e0 and /e2 (not "t1 x"), each with the X-Stage of its own line, on
   both paths; ["t1 x"] delivers /e1; ["x"] matches nothing. *)
Definition ex_t1 : bytes := [116; 49]%N.
Definition ex_t1x : bytes := [116; 49; 32; 120]%N.
Definition ex_stage : bytes := [88; 45; 83; 116; 97; 103; 101]%N.
Definition ex_one : bytes := [111; 110; 101]%N.
Definition ex_two : bytes := [116; 119; 111]%N.
Definition ex_cfg : headers := [([88; 45; 67; 102; 103]%N, [99]%N)].
Definition ex_items : list citem :=
  [CHdr ex_stage ex_one; CEnt ex_t1; CHdr ex_stage ex_two; CEnt ex_t1x; CEnt ex_t1].

Example C14_content_examples :
  let c i t v := {| c_pos := i; c_tag := t; c_hdrs := [(ex_stage, v); ([88; 45; 67; 102; 103]%N, [99]%N)] |} in
  file_entries ex_cfg ex_items [] 0 = [c 0 ex_t1 ex_one; c 1 ex_t1x ex_two; c 2 ex_t1 ex_two]
  /\ deliver_c DUri false 3 0 ex_cfg ex_items [ex_t1] None 200 = ([c 0 ex_t1 ex_one; c 2 ex_t1 ex_two; c 0 ex_t1 ex_one], Ok, true)
  /\ deliver_c DUri true 3 0 ex_cfg ex_items [ex_t1] None 200 = ([c 0 ex_t1 ex_one; c 2 ex_t1 ex_two; c 0 ex_t1 ex_one], Ok, true)
  /\ deliver_c DRaw true 0 1 ex_cfg ex_items [ex_t1x] None 200 = ([c 1 ex_t1x ex_two], Ok, true)
  /\ deliver_c DRaw false 0 1 ex_cfg ex_items [[120]%N] None 200 = ([], Failed ENoAmmo, true)
  /\ bound 3 0 (length (chosen_content [ex_t1] (file_entries ex_cfg ex_items [] 0))) = Some 3.
Proof. repeat split; vm_compute; reflexivity. Qed.
