(* Property C04 -- placeholder while the pipeline is brought up; theorems follow. *)
From Coq Require Import List ZArith Bool.
From PV Require Import Model.Waiter.
Import ListNotations.
Local Open Scope Z_scope.
Example C04_first_wait_sleeps :
  w_slept (snd (wait wfixed wstate_init {| c_ctx_done := false; c_tok := Some 10; c_now := 0; c_cancel_in_sleep := false; c_wake := 10 |})) = true.
Proof. reflexivity. Qed.
