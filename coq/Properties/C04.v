(* Property C04 -- timing: no early shots; discard_overflow bounds lateness to the 2 s window.
   Statements only; proofs live in Proofs/WaiterProofs.v and Gen/Waiter_bridge.v.
   The model (Model/Waiter.v) follows core/coreutil/waiter.go and the fire/discard branch of
   core/engine/instance.go; [wfixed] is the tree after fix commit a013c75, [worig] before it.

   Per call of Wait the world is an input: the instant [enter] the call is made at, the clock
   reading [c_now] it may take, the instant [c_wake] a timer wakes it.  wf_call says: the clock
   is monotone (the cached reading is not after [enter], a reading taken in the call is not
   before it) and a timer never fires early.  return_lower is the earliest instant at which the
   call can have returned. *)
From Coq Require Import List ZArith Bool.
From PV Require Import Model.Waiter Proofs.WaiterProofs Gen.ConstGen Gen.Waiter_bridge.
From PV Require Import Model.WaiterPool Proofs.WaiterPoolProofs Model.ReportQueue Proofs.ReportQueueProofs.
From Coq Require Import Permutation.
Import ListNotations.
Local Open Scope Z_scope.

Theorem C04_model_is_current_tree : wcurrent = wfixed.
Proof. reflexivity. Qed.
Print Assumptions C04_model_is_current_tree.

(* No request is fired (and no discard reported) before its scheduled time: when Wait returns
   true the token's time has been reached -- for every state, variant, clock and timer. *)
Theorem C04_no_early : forall v st enter c st' o next,
  wf_call st enter c -> wait v st c = (st', o) -> w_ok o = true -> c_tok c = Some next ->
  next <= return_lower enter c o.
Proof. exact wait_no_early. Qed.
Print Assumptions C04_no_early.

(* ... and the next call is again made in a well-formed world (the cached reading never runs
   ahead of real time), so the per-call theorems chain along any history. *)
Theorem C04_cached_reading_is_past : forall v st enter c st' o l',
  wf_call st enter c -> wait v st c = (st', o) -> lastNow st' = Some l' -> l' <= return_lower enter c o.
Proof. exact wait_last_le. Qed.
Print Assumptions C04_cached_reading_is_past.

(* A request that is less than two seconds late is never discarded: IsSlowDown implies that the
   token is at least 2 s in the past when Wait returns (both variants). *)
Theorem C04_no_false_discard : forall v st enter c st' o next,
  wf_call st enter c -> wait v st c = (st', o) -> w_ok o = true -> c_tok c = Some next ->
  is_slow_down st' = true -> max_overdue <= return_lower enter c o - next.
Proof. exact wait_slow_is_late. Qed.
Print Assumptions C04_no_false_discard.

(* A request whose time is two seconds or more in the past when the instance picks it up
   (enters Wait) is judged slow -- full statement, current tree. *)
Theorem C04_late_discarded : forall st enter c st' o next,
  wf_call st enter c -> wait wfixed st c = (st', o) -> w_ok o = true -> c_tok c = Some next ->
  max_overdue <= enter - next -> is_slow_down st' = true.
Proof. exact wait_late_is_slow. Qed.
Print Assumptions C04_late_discarded.

(* Not slow means: this call read the clock (or slept to the token's time) and that reading was
   less than 2 s after the token. *)
Theorem C04_not_slow_means_inside_window : forall st enter c st' o next,
  wf_call st enter c -> wait wfixed st c = (st', o) -> w_ok o = true -> c_tok c = Some next ->
  is_slow_down st' = false -> w_read o = true /\ c_now c - next < max_overdue.
Proof. exact wait_not_slow_reading. Qed.
Print Assumptions C04_not_slow_means_inside_window.

(* The same statement was false of the tree before a013c75 (lateness judged against the stale
   cached reading): tokens at +10/+20/+30 ms, 1.2 s and 1.5 s between the Waits: the third
   token is picked up 2.68 s late and fired. *)
Theorem C04_orig_late_discarded_refuted :
  exists s, nth_error (run_inst worig true wstate_init 0 refute3_toks []) 2 = Some s /\
    s_dec s = Fire /\ s_pickup s - s_tok s = 2680000000 /\ max_overdue <= s_pickup s - s_tok s.
Proof. exact orig_late_token_fired. Qed.
Print Assumptions C04_orig_late_discarded_refuted.

(* discard_overflow disabled: nothing is ever discarded. *)
Theorem C04_off_never_discards : forall slow, decide false slow = Fire.
Proof. exact decide_off. Qed.
Print Assumptions C04_off_never_discards.

(* enabled: discarded exactly when IsSlowDown. *)
Theorem C04_on_discards_iff_slow : forall slow, decide true slow = if slow then Discard else Fire.
Proof. exact decide_on. Qed.
Print Assumptions C04_on_discards_iff_slow.

(* ... and the option reaches the engine as written in the config: absent means enabled (the
   CLI default), a written value -- literal or placeholder resolving to it -- is kept. *)
Theorem C04_configured_discard : configured_discard None = true /\ forall b, configured_discard (Some b) = b.
Proof. split; reflexivity. Qed.
Print Assumptions C04_configured_discard.

(* The window is 2 s, the discarded sample is (net 777, tag "discarded"): the model's constants
   are the values compiled from the source. *)
Theorem C04_window_value :
  max_overdue = gen_max_overdue_ns /\ gen_max_overdue_ns = 2000000000 /\
  discarded_code = gen_discarded_code /\ gen_discarded_code = 777%N /\
  discarded_tag = gen_discarded_tag /\
  forall st, is_slow_down st = true <-> 2000000000 <= overdue st.
Proof.
  split; [exact max_overdue_bridge|]. split; [reflexivity|]. split; [exact discarded_code_bridge|].
  split; [reflexivity|]. split; [exact discarded_tag_bridge|exact is_slow_down_spec].
Qed.
Print Assumptions C04_window_value.

(* Whole histories of an instance -- all token times, all response durations (slower than the
   inter-request interval, slower than 2 s, ...), either variant, discard on or off -- on the
   idealised timeline: every token gets exactly one fate, in order; no shot or discard report
   is before its token; discarded => overflow enabled and >= 2 s late; on the current tree with
   overflow enabled: >= 2 s late at pick-up => discarded, and every fired request starts less
   than 2 s after its scheduled time (so the run ends within 2 s + one response time of the end
   of the profile however slow the target is); overflow disabled => every token fired. *)
Theorem C04_history : forall v d toks st t durs,
  last_le st t -> Forall (fun p => 0 <= fst p) toks -> Forall (fun x => 0 <= x) durs ->
  map s_tok (run_inst v d st t toks durs) = map snd toks /\
  Forall (shot_ok v d) (run_inst v d st t toks durs).
Proof. intros. split; [apply run_inst_tokens|apply run_inst_ok; assumption]. Qed.
Print Assumptions C04_history.

(* The configured-profile specification the engine-level cases are judged against (each segment
   starts at the finish of the previous one): no token of a profile, and no unlimited window,
   lies before the profile's start. *)
Theorem C04_profile_offsets_not_before_start : forall segs start,
  Forall seg_wf segs ->
  Forall (fun o => start <= o) (fst (profile_offsets start segs)) /\
  Forall (fun w => start <= fst w) (snd (profile_offsets start segs)).
Proof. exact profile_offsets_ge. Qed.
Print Assumptions C04_profile_offsets_not_before_start.

Example C04_example_profile :
  profile_offsets 0 [SConst 200 5 1000; SPause 800; SOnce 1; SUnl 300] =
  ([0; 200; 400; 600; 800; 1800], [(1800, 300)]).
Proof. reflexivity. Qed.

(* non-vacuity *)
Example C04_example_wf :
  wf_call {| lastNow := Some 1210000000; overdue := 1190000000 |} 2710000000
          {| c_ctx_done := false; c_tok := Some 30000000; c_now := 2710000100; c_cancel_in_sleep := false; c_wake := 30000000 |}.
Proof. constructor; cbn; intros; try (injection H as <-); apply Z.leb_le; reflexivity. Qed.

Example C04_example_history :
  map s_dec (run_inst wfixed true wstate_init 0 refute3_toks []) = [Fire; Fire; Discard] /\
  map s_dec (run_inst wfixed false wstate_init 0 refute3_toks []) = [Fire; Fire; Fire].
Proof. split; vm_compute; reflexivity. Qed.

(* ---------------------------------------------------------------------------------------- *)
(* The POOL (Model/WaiterPool.v): all instance counts, a schedule per instance (rps-per-instance)
   or one shared schedule.  The flag an instance decides with is the one written in the pool's
   configuration, whatever the kind of schedule (instance_discard; bridged to the expression
   re-read from startInstances by Gen/PoolDeps_bridge.v). *)
Theorem C04_pool_instance_flag : forall d r, instance_discard {| p_discard := d; p_per_instance := r |} = d.
Proof. reflexivity. Qed.
Print Assumptions C04_pool_instance_flag.

(* Whole pools -- any number of instances, any start instants (startup schedule), any profile
   (token offsets), any response durations per instance, either variant, own schedules or the
   shared one (each token to the instance that is free first): every token handled by any
   instance obeys shot_ok for the CONFIGURED discard_overflow: never early; discarded => enabled
   and >= 2 s late; enabled and >= 2 s late at pick-up => discarded; enabled and fired => less
   than 2 s after its time; disabled => fired. *)
Theorem C04_pool_history : forall v p starts offs durs,
  Forall (Forall (fun x => 0 <= x)) durs ->
  Forall (fun ks : nat * shot => shot_ok v (p_discard p) (snd ks)) (run_pool v p starts offs durs).
Proof. exact run_pool_ok. Qed.
Print Assumptions C04_pool_history.

(* ... and every token gets exactly one fate: with own schedules every instance handles the whole
   profile (offsets counted from its start), with the shared one each token is handled once. *)
Theorem C04_pool_tokens : forall v p starts offs durs,
  Forall (Forall (fun x => 0 <= x)) durs -> starts <> [] ->
  map (fun ks : nat * shot => s_tok (snd ks)) (run_pool v p starts offs durs) =
  if p_per_instance p then concat (map (fun s => map (fun o => is_free s + o) offs) (init_states starts durs))
  else map (fun o => hd 0 starts + o) offs.
Proof. exact run_pool_tokens. Qed.
Print Assumptions C04_pool_tokens.

(* Shared schedule under ANY hand-out of the tokens to the instances (not only "free first"), any
   time spent before each Wait: the tokens instance i takes obey shot_ok for the configured flag;
   and the hand-out loses / duplicates nothing. *)
Theorem C04_pool_shared_any_assignment : forall v p i assign toks start durs,
  Forall (fun q : Z * Z => 0 <= fst q) toks -> Forall (fun x => 0 <= x) durs ->
  Forall (shot_ok v (p_discard p))
         (run_inst v (instance_discard p) wstate_init start (taken_by i assign toks) durs).
Proof. exact shared_any_assignment_ok. Qed.
Print Assumptions C04_pool_shared_any_assignment.

Theorem C04_pool_assignment_is_a_partition : forall (assign : list nat) (toks : list (Z * Z)) (l : list nat),
  NoDup l -> (forall a, In a assign -> In a l) -> length assign = length toks ->
  Permutation (concat (map (fun i => taken_by i assign toks) l)) toks.
Proof. exact (@taken_by_concat_perm (Z * Z)). Qed.
Print Assumptions C04_pool_assignment_is_a_partition.

(* non-vacuity: two instances 300 ms apart, tokens at +0/+100/+200/+2500 ms, first response 2.3 s *)
Example C04_example_pool :
  let starts := [0; 300000000] in let offs := [0; 100000000; 200000000; 2500000000] in
  let durs := [[2300000000]; [2300000000]] in
  map (fun ks : nat * shot => (fst ks, s_dec (snd ks)))
      (run_pool wfixed {| p_discard := true; p_per_instance := true |} starts offs durs)
  = [(0%nat, Fire); (0%nat, Discard); (0%nat, Discard); (0%nat, Fire);
     (1%nat, Fire); (1%nat, Discard); (1%nat, Discard); (1%nat, Fire)] /\
  map (fun ks : nat * shot => (fst ks, s_dec (snd ks)))
      (run_pool wfixed {| p_discard := true; p_per_instance := false |} starts offs durs)
  = [(0%nat, Fire); (1%nat, Fire); (0%nat, Discard); (0%nat, Fire)] /\
  map (fun ks : nat * shot => s_dec (snd ks))
      (run_pool wfixed {| p_discard := false; p_per_instance := true |} starts offs durs)
  = [Fire; Fire; Fire; Fire; Fire; Fire; Fire; Fire].
Proof. vm_compute. repeat split. Qed.

(* The run-length bound, for whole pools: with discard_overflow enabled (current tree) every
   instance -- own schedule or shared -- is done within 2 s + ONE response time of the end of the
   profile (counted from the start of the last instance), however slow the target is and however
   many responses are that slow.  [pool_final] = the state each instance is left in by the run
   whose shots are [run_pool] (run_steps_run_inst). *)
Theorem C04_pool_run_length_bounded : forall p starts offs durs smax omax dmax,
  p_discard p = true ->
  Forall (Forall (fun x => 0 <= x <= dmax)) durs -> 0 <= dmax ->
  Forall (fun s => s <= smax) starts -> Forall (fun o => o <= omax) offs -> 0 <= omax ->
  Forall (fun s => is_free s <= smax + omax + max_overdue + dmax) (pool_final wfixed p starts offs durs).
Proof. exact pool_run_length. Qed.
Print Assumptions C04_pool_run_length_bounded.

(* non-vacuity, and the contrast: 10 rps for 1 s, every response takes 3 s.  Enabled: the
   instance is done 3 s after the start (one shot, nine discards); disabled: after 30 s. *)
Example C04_example_run_length :
  let offs := map (fun k => k * 100000000) [0;1;2;3;4;5;6;7;8;9] in
  let durs := [repeat 3000000000 10] in
  map is_free (pool_final wfixed {| p_discard := true; p_per_instance := true |} [0] offs durs) = [3000000000] /\
  map is_free (pool_final wfixed {| p_discard := false; p_per_instance := true |} [0] offs durs) = [30000000000].
Proof. vm_compute. split; reflexivity. Qed.

(* ---------------------------------------------------------------------------------------- *)
(* "... is not fired but REPORTED as a discarded sample": the path of a reported sample through
   the phout aggregator (Model/ReportQueue.v: Report = send on a channel of capacity
   sample-queue-size, Run = receive + write a line, drain at the end).  For every capacity and
   every interleaving of reporters and writer (a history of completed operations): nothing is
   dropped, and after the final drain the lines written are exactly the samples reported, in
   order -- however large the burst of discards and however slow the writer. *)
Theorem C04_reported_samples_all_written : forall (cap : nat) (evs : list (qev Z)) s',
  qrun qblocking cap qinit evs = Some s' ->
  q_written (qdrain s') = sends evs /\ q_dropped s' = [] /\ q_buf (qdrain s') = [].
Proof. exact (blocking_report_loses_nothing Z). Qed.
Print Assumptions C04_reported_samples_all_written.

(* a reporter blocked on a full channel is always released by the writer (no deadlock) *)
Theorem C04_blocked_reporter_is_released : forall (cap : nat) (s : qstate Z) x,
  cap <> 0%nat -> qstep qblocking cap s (QSend x) = None -> qstep qblocking cap s QRecv <> None.
Proof. exact (blocked_send_means_writer_can_receive Z). Qed.
Print Assumptions C04_blocked_reporter_is_released.

(* the statement is false of a Report that gives up when the channel is full *)
Theorem C04_dropping_report_refuted :
  exists s', qrun qdropping 1 qinit [QSend 1%nat; QSend 2%nat; QRecv] = Some s' /\
             q_written (qdrain s') = [1%nat] /\ q_dropped s' = [2%nat].
Proof. exact dropping_report_refuted. Qed.
Print Assumptions C04_dropping_report_refuted.

Example C04_example_report_queue :
  exists s', qrun qblocking 1 qinit [QSend 1; QRecv; QSend 2; QSend 3] = None /\
             qrun qblocking 1 qinit [QSend 1; QRecv; QSend 2; QRecv; QSend 3] = Some s' /\
             q_written (qdrain s') = [1; 2; 3].
Proof. eexists. split; [reflexivity|]. split; reflexivity. Qed.

(* ---------------------------------------------------------------------------------------- *)
(* Judging against the CONFIGURED profile when it is not known which caller consumed which token
   (several waiters on one schedule): if every request is fired at or after the time of the token
   it consumed -- under ANY hand-out of the tokens -- then at no instant have more requests been
   fired than tokens of the profile were due (never_ahead_b, the specification the comp cases
   are judged with).  A run that violates it has an early shot under every possible hand-out. *)
Theorem C04_never_ahead_of_profile : forall toks toks' ats,
  Permutation toks' toks -> Forall2 Z.le toks' ats -> never_ahead_b toks ats = true.
Proof. exact paired_never_ahead. Qed.
Print Assumptions C04_never_ahead_of_profile.

(* ... and the pool model satisfies it *)
Theorem C04_pool_never_ahead : forall v p starts offs durs,
  Forall (Forall (fun x => 0 <= x)) durs ->
  never_ahead_b (map (fun ks : nat * shot => s_tok (snd ks)) (run_pool v p starts offs durs))
                (map (fun ks : nat * shot => s_entry (snd ks)) (run_pool v p starts offs durs)) = true.
Proof. exact run_pool_never_ahead. Qed.
Print Assumptions C04_pool_never_ahead.

(* tokens at +0/+100/+600: firing at +1/+101/+601 is fine, firing the third at +100 is not *)
Example C04_example_never_ahead :
  never_ahead_b [0; 100; 600] [1; 101; 601] = true /\ never_ahead_b [0; 100; 600] [0; 100; 100] = false.
Proof. split; reflexivity. Qed.
