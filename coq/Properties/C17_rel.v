(* Property C17, round 7:
   (1) "a value violating a documented constraint is an error rather than being silently ignored" -- constraints that
       are RELATIONS between options of one component, enforced by its constructor while the section is decoded: the
       ammo source of the http providers (`file` and `uris` exclude each other, one of them is needed, `uris` only with
       the uri decoder);
   (2) "a placeholder naming an unset environment variable is an error": the environment is a list of NAME=value
       entries, a variable is set exactly when an entry carries exactly its name -- variables whose names differ in
       letter case, proper prefixes and extensions are other variables.
   Statements only; proofs in Proofs/ConfigRelProofs.v. *)
From Coq Require Import List NArith ZArith Bool QArith.
From PV Require Import Model.ConfigDecode Proofs.ConfigDecodeProofs Proofs.ConfigRelProofs Gen.ConfigSchemaGen.
Import ListNotations.
Local Open Scope N_scope.

(* (1a) A component reached anywhere in the tree (lz = false) whose section, decoded onto the registered default,
   makes the premise of a relation true and its conclusion false: the whole configuration is refused -- every registry,
   oracle, fuel.  What the options of the filled config are: the decoding of what the section writes under the key onto
   the registered default, the registered default when the key is not written. *)
Theorem C17_ctor_relation :
  forall env prop orc orcq reg lz uq,
  (forall p s cur v iface fk tags d0 kvs e nl fs d f0 pre post,
     reach reg lz uq p [] s cur v = Some (SPlugin iface fk, tags, d0, VMap kvs) ->
     plugin_entry reg iface kvs = Some e -> e_conf e = Some (SStruct nl fs, d) -> entry_lazy lz fk e = false ->
     In f0 (flat_fields (SStruct nl fs)) -> In (TCtorRel pre post) (f_tags f0) ->
     (forall F' rs, decode env prop orc orcq reg lz F' (SStruct nl fs) d (VMap (filter (fun kv => negb (is_type_key kv)) kvs)) = Ok (CStruct rs) ->
        ocond_b (flat_fields (SStruct nl fs)) rs pre = true /\ ocond_b (flat_fields (SStruct nl fs)) rs post = false) ->
     forall F c, notok (decode env prop orc orcq reg lz F s c v))
  /\
  (forall F nl fs d conf rs k i,
     decode env prop orc orcq reg lz (S F) (SStruct nl fs) d (VMap conf) = Ok (CStruct rs) ->
     opt_idx k (flat_fields (SStruct nl fs)) = Some i ->
     exists f r, nth_error (flat_fields (SStruct nl fs)) i = Some f /\ f_key f = k /\
       opt_val k (flat_fields (SStruct nl fs)) rs = Some r /\
       match find_key k conf with
       | None => r = cur_at (struct_cur (SStruct nl fs) d) i f
       | Some (_, x) => decode env prop orc orcq reg lz F (f_schema f) (cur_at (struct_cur (SStruct nl fs) d) i f) x = Ok r
       end).
Proof. intros. split; [apply rel_at|apply rel_option]. Qed.
Print Assumptions C17_ctor_relation.

(* (1b) The three shapes the http providers use, from the written section alone:
   two options that exclude each other, both written with values that hold something; an option the component does not
   take at all, written with such a value; one of two options needed, neither written, neither default holding anything:
   the configuration is refused wherever the component sits. *)
Theorem C17_option_relations :
  forall env prop orc orcq reg lz uq,
  (forall p s cur v iface fk tags d0 kvs e nl fs d f0 k1 k2,
     reach reg lz uq p [] s cur v = Some (SPlugin iface fk, tags, d0, VMap kvs) ->
     plugin_entry reg iface kvs = Some e -> e_conf e = Some (SStruct nl fs, d) -> entry_lazy lz fk e = false ->
     In f0 (flat_fields (SStruct nl fs)) -> In (TCtorRel (OSet k1) (ONot (OSet k2))) (f_tags f0) ->
     written_set env prop orc orcq reg lz nl fs d (filter (fun kv => negb (is_type_key kv)) kvs) k1 ->
     written_set env prop orc orcq reg lz nl fs d (filter (fun kv => negb (is_type_key kv)) kvs) k2 ->
     forall F c, notok (decode env prop orc orcq reg lz F s c v))
  /\
  (forall p s cur v iface fk tags d0 kvs e nl fs d f0 k1,
     reach reg lz uq p [] s cur v = Some (SPlugin iface fk, tags, d0, VMap kvs) ->
     plugin_entry reg iface kvs = Some e -> e_conf e = Some (SStruct nl fs, d) -> entry_lazy lz fk e = false ->
     In f0 (flat_fields (SStruct nl fs)) -> In (TCtorRel (OSet k1) OFalse) (f_tags f0) ->
     written_set env prop orc orcq reg lz nl fs d (filter (fun kv => negb (is_type_key kv)) kvs) k1 ->
     forall F c, notok (decode env prop orc orcq reg lz F s c v))
  /\
  (forall p s cur v iface fk tags d0 kvs e nl fs d f0 k1 k2 i1 i2 f1 f2,
     reach reg lz uq p [] s cur v = Some (SPlugin iface fk, tags, d0, VMap kvs) ->
     plugin_entry reg iface kvs = Some e -> e_conf e = Some (SStruct nl fs, d) -> entry_lazy lz fk e = false ->
     In f0 (flat_fields (SStruct nl fs)) -> In (TCtorRel (ONot (OSet k1)) (OSet k2)) (f_tags f0) ->
     opt_idx k1 (flat_fields (SStruct nl fs)) = Some i1 -> opt_idx k2 (flat_fields (SStruct nl fs)) = Some i2 ->
     nth_error (flat_fields (SStruct nl fs)) i1 = Some f1 -> nth_error (flat_fields (SStruct nl fs)) i2 = Some f2 ->
     find_key k1 (filter (fun kv => negb (is_type_key kv)) kvs) = None ->
     find_key k2 (filter (fun kv => negb (is_type_key kv)) kvs) = None ->
     opt_set (cur_at (struct_cur (SStruct nl fs) d) i1 f1) = false ->
     opt_set (cur_at (struct_cur (SStruct nl fs) d) i2 f2) = false ->
     forall F c, notok (decode env prop orc orcq reg lz F s c v)).
Proof. intros. split; [apply rel_exclusive_at|split; [apply rel_forbidden_at|apply rel_one_of_at]]. Qed.
Print Assumptions C17_option_relations.

(* (2a) The environment: the first entry named exactly NAME answers; the variable is unset exactly when no entry is
   named exactly so; look-alikes -- same letters in another case, proper extensions, proper prefixes -- are other names. *)
Theorem C17_environment :
  (forall pre name v post, forallb (other_name name) pre = true -> env_of_list (pre ++ (name, v) :: post) name = Some v)
  /\ (forall l name, env_of_list l name = None <-> forallb (other_name name) l = true)
  /\ (forall l name v, env_of_list l name = Some v ->
        exists pre post, l = pre ++ (name, v) :: post /\ forallb (other_name name) pre = true)
  /\ (forall name v,
        (forall k, lower k = lower name -> k <> name -> other_name name (k, v) = true)
        /\ (forall c r, other_name name (name ++ c :: r, v) = true)
        /\ (forall c r, other_name (name ++ c :: r) (name, v) = true)
        /\ (forall c r, other_name name (c :: r ++ name, v) = true)).
Proof.
  split; [exact env_of_list_hit|]. split; [exact env_of_list_miss|]. split; [exact env_of_list_some|exact near_miss_other].
Qed.
Print Assumptions C17_environment.

(* (2b) ... and the decoder on top of it: with the environment oracle being the lookup in a list of entries, ${env:NAME}
   at a scalar of any kind decodes like the literal the value casts to / the value itself; when no entry is named
   exactly NAME -- whatever else is set -- it is an error wherever the decoder reaches it. *)
Theorem C17_environment_placeholder :
  forall envl prop orc orcq reg lz uq,
  (forall name t k F c,
     simple_name name = true -> env_of_list envl name = Some t -> has_dollar_brace t = false ->
     decode (env_of_list envl) prop orc orcq reg lz (S F) (SScalar k) c (VStr (ph_env name)) =
     match cast_text orc orcq (SScalar k) t with
     | HVal (VStr _) => decode (env_of_list envl) prop orc orcq reg lz (S F) (SScalar k) c (VStr t)
     | HVal lit => decode (env_of_list envl) prop orc orcq reg lz (S F) (SScalar k) c lit
     | HErr e => Err e
     end)
  /\
  (forall p s cur v s' tags d name,
     reach reg lz uq p [] s cur v = Some (s', tags, d, VStr (ph_env name)) ->
     simple_name name = true -> forallb (other_name name) envl = true ->
     forall F c, notok (decode (env_of_list envl) prop orc orcq reg lz F s c v)).
Proof.
  intros. split; [apply placeholder_scalar|].
  intros. eapply placeholder_unset_at; eauto. apply env_of_list_miss. assumption.
Qed.
Print Assumptions C17_environment_placeholder.

(* (3) Placeholders that cannot be right, wherever the decoder reaches them: ${property:FILE} without "#KEY" names no
   property (an error since fix 502dfdc; a panic before); a placeholder that is the whole value of a position that is
   not a scalar -- a struct, a list, a map, a component -- is an error whatever the variable holds. *)
Theorem C17_hopeless_placeholders :
  forall env prop orc orcq reg lz uq,
  (forall p s cur v s' tags d var,
     reach reg lz uq p [] s cur v = Some (s', tags, d, VStr (ph_tagged s_property var)) ->
     simple_name var = true -> no_hash var = true ->
     forall F c, notok (decode env prop orc orcq reg lz F s c v))
  /\
  (forall p s cur v s' tags d name,
     reach reg lz uq p [] s cur v = Some (s', tags, d, VStr (ph_env name)) ->
     simple_name name = true -> non_scalar s' = true ->
     forall F c, notok (decode env prop orc orcq reg lz F s c v)).
Proof. intros. split; [apply placeholder_prop_nokey_at|apply placeholder_non_scalar_at]. Qed.
Print Assumptions C17_hopeless_placeholders.

(* ---- non-vacuity, on the generated schema: a pool whose ammo is an http provider *)
Definition rx_plug (name : str) (kvs : list (str * value)) : value := VMap ((s_type, VStr name) :: kvs).
Definition k_file : str := [102;105;108;101].
Definition k_uris : str := [117;114;105;115].
Definition k_decoder : str := [100;101;99;111;100;101;114].
Definition n_uri : str := [117;114;105].
Definition n_raw : str := [114;97;119].
Definition n_httpprov : str := [104;116;116;112].
Definition rx_file : str * value := (k_file, VStr [97]).
Definition rx_uris : str * value := (k_uris, VList [VStr [47;97]; VStr [47;98]]).
Definition rx_pool (ammo : value) : value :=
  VMap [ ([97;109;109;111], ammo);
         ([114;101;115;117;108;116], rx_plug [100;105;115;99;97;114;100] []);
         ([103;117;110], rx_plug [104;116;116;112] [([116;97;114;103;101;116], VStr [104;58;49])]);
         ([114;112;115], rx_plug [111;110;99;101] [([116;105;109;101;115], VInt 1)]);
         ([115;116;97;114;116;117;112], rx_plug [111;110;99;101] [([116;105;109;101;115], VInt 1)]) ].
Definition rx_cfg (ammo : value) : value := VMap [(s_pools, VList [rx_pool ammo])].
(* the environment: look-alikes of A16_ID are set, A16_ID itself is not; A16_OK is *)
Definition n_id : str := [65;49;54;95;73;68].                      (* A16_ID *)
Definition rx_envl : list (str * str) :=
  [ ([97;49;54;95;105;100], [47;120]);                              (* a16_id *)
    ([65;49;54;95;73;100], [47;120]);                               (* A16_Id *)
    ([65;49;54;95;73], [47;120]);                                   (* A16_I  *)
    ([65;49;54;95;73;68;95], [47;120]);                             (* A16_ID_ *)
    ([88;65;49;54;95;73;68], [47;120]);                             (* XA16_ID *)
    ([65;49;54;95;79;75], [47;120]) ].                              (* A16_OK *)
Definition rx_prop (f k : str) : option str := None.
Definition rx_orc (k : okind) (s : str) : option Z := match k with OEndpoint => Some 1%Z | _ => None end.
Definition rx_orcq (s : str) : option Q := None.
Definition rx_run (v : value) : res cval :=
  decode_and_validate (env_of_list rx_envl) rx_prop rx_orc rx_orcq gen_registry model_factory_lazy (fuel_for v)
    gen_root_schema gen_root_default v.
Definition rx_ok (r : res cval) : bool := match r with Ok _ => true | _ => false end.
Definition rx_ctor (r : res cval) : bool := match r with Err ECtor => true | _ => false end.
Definition rx_ph (r : res cval) : bool := match r with Err EPlaceholder => true | _ => false end.

Example C17_relation_example_pool :
  rx_ok (rx_run (rx_cfg (rx_plug n_uri [rx_file]))) = true
  /\ rx_ok (rx_run (rx_cfg (rx_plug n_uri [rx_uris]))) = true
  /\ rx_ctor (rx_run (rx_cfg (rx_plug n_uri [rx_file; rx_uris]))) = true          (* both: refused *)
  /\ rx_ctor (rx_run (rx_cfg (rx_plug n_uri []))) = true                          (* neither: refused *)
  /\ rx_ok (rx_run (rx_cfg (rx_plug n_uri [rx_file; (k_uris, VList [])]))) = true (* an empty list holds nothing *)
  /\ rx_ok (rx_run (rx_cfg (rx_plug n_raw [rx_file]))) = true
  /\ rx_ctor (rx_run (rx_cfg (rx_plug n_raw [rx_uris]))) = true                   (* uris only with the uri decoder *)
  /\ rx_ctor (rx_run (rx_cfg (rx_plug n_raw [rx_file; rx_uris]))) = true
  /\ rx_ok (rx_run (rx_cfg (rx_plug n_httpprov [(k_decoder, VStr n_uri); rx_uris]))) = true
  /\ rx_ctor (rx_run (rx_cfg (rx_plug n_httpprov [(k_decoder, VStr n_raw); rx_uris]))) = true
  /\ rx_ctor (rx_run (rx_cfg (rx_plug n_httpprov [(k_decoder, VStr [120]); rx_file]))) = true.
Proof. vm_compute. repeat split; reflexivity. Qed.

Example C17_environment_example :
  env_of_list rx_envl n_id = None
  /\ forallb (other_name n_id) rx_envl = true
  /\ env_of_list rx_envl [65;49;54;95;79;75] = Some [47;120]
  /\ simple_name n_id = true
  /\ rx_ph (rx_run (rx_cfg (rx_plug n_uri [(k_file, VStr (ph_env n_id))]))) = true
  /\ rx_ok (rx_run (rx_cfg (rx_plug n_uri [(k_file, VStr (ph_env [65;49;54;95;79;75]))]))) = true
  (* the set variable as the whole `uris` list / the whole ammo component; a property placeholder without #KEY *)
  /\ rx_ph (rx_run (rx_cfg (rx_plug n_uri [(k_uris, VStr (ph_env [65;49;54;95;79;75]))]))) = true
  /\ rx_ph (rx_run (rx_cfg (VStr (ph_env [65;49;54;95;79;75])))) = true
  /\ rx_ph (rx_run (rx_cfg (rx_plug n_uri [(k_file, VStr (ph_tagged s_property [102]))]))) = true.
Proof. vm_compute. repeat split; reflexivity. Qed.
