(* Property C16 — a scenario means the same whether written in HCL or in YAML.  PARTIAL BY DESIGN: the YAML, HCL
   (incl. locals and the collection functions) and mapstructure libraries are oracles; the theorems cover the
   struct/tag layer pandora itself defines: the map AmmoHCL -> yaml keys (hcl.go) against the keys config.AmmoConfig
   accepts; and (theorems C16_locals_...) the locals stage pandora itself implements in hcl.go decodeLocals (which block sees
   which local), over a fragment of the expression language.  Statements only; proofs in Proofs/TagTablesProofs.v, Gen/ScenarioTags_bridge.v. *)
From Coq Require Import List NArith ZArith Bool QArith.
From PV Require Import Model.ConfigDecode Model.TagTables Model.HclLocals Model.ScenarioGuard Model.BlockScalar Proofs.ConfigDecodeProofs
  Proofs.TagTablesProofs Proofs.HclLocalsProofs Proofs.ScenarioGuardProofs Proofs.BlockScalarProofs Gen.ConfigSchemaGen Gen.ScenarioTagsGen Gen.ScenarioTags_bridge.
Import ListNotations.
Local Open Scope N_scope.

(* Round trip through the tag layer, for ANY pair of tables that is consistent at this level (level_ok) and any
   values: (1) every key the HCL hop writes is accepted by the config side (so no "invalid keys" error can come from
   the conversion); (2) a field that is present is handed -- by the decoder's own key lookup, for the config field
   whose key matches -- exactly its marshalled value, under exactly one key; (3) a field that is left out (nil with
   omitempty, or empty with omitempty) leaves no key: it stays absent. *)
Theorem C16_roundtrip_generic :
  forall mv hfs ffs vals,
    level_ok hfs ffs = true ->
    forallb (fun kv => accepted_b (fst kv) (map f_key ffs)) (marshal_fields mv hfs vals) = true /\
    forall i f v ck,
      nth_error hfs i = Some f -> nth_error vals i = Some v -> fold_eqb ck (h_yaml f) = true ->
      find_key ck (marshal_fields mv hfs vals) =
      if emitted f v then Some (h_yaml f, mv (h_kind f) v) else None.
Proof.
  intros mv hfs ffs vals H. split; [apply marshal_fields_accepted; exact H|].
  intros. eapply routed_to_config_field; eauto.
  unfold level_ok in H. apply andb_true_iff in H. tauto.
Qed.
Print Assumptions C16_roundtrip_generic.

(* The tables regenerated from hcl.go / config.go / the registered processors are consistent at every nesting level
   (computed on the generated tables), and the set of fields HCL allows to leave out is the documented one. *)
Theorem C16_table_ok : table_ok gen_registry 8 gen_hcl_root (flat_fields gen_ammo_schema) = true.
Proof. exact gen_table_ok. Qed.
Print Assumptions C16_table_ok.

(* Equivalence at a struct level of the common decoder: two written maps -- one typed by the user in YAML, one produced
   by the HCL hop -- that hand every config field the same value tree are decoded to the same field values. *)
Theorem C16_hcl_yaml_equiv :
  forall dec ffs cs kvs_yaml kvs_hcl,
    (forall f, In f ffs ->
       option_map snd (find_key (f_key f) kvs_yaml) = option_map snd (find_key (f_key f) kvs_hcl)) ->
    fst (dec_fields dec ffs cs kvs_yaml) = fst (dec_fields dec ffs cs kvs_hcl).
Proof. exact dec_fields_ext. Qed.
Print Assumptions C16_hcl_yaml_equiv.

(* ---- non-vacuity: one request written in HCL form, pushed through the generated table and decoded on the
   generated AmmoConfig schema, equals the decode of the same request typed in YAML (tag left out, headers empty) *)
Definition ex_none1 (_ : str) : option str := None.
Definition ex_none2 (_ _ : str) : option str := None.
Definition ex_orc (_ : okind) (_ : str) : option Z := None.
Definition ex_orcq (_ : str) : option Q := None.
Definition ex_decode (v : value) : res cval :=
  decode_and_validate ex_none1 ex_none2 ex_orc ex_orcq gen_registry model_factory_lazy (fuel_for v) gen_ammo_schema gen_ammo_default v.

Definition k_requests : str := [114;101;113;117;101;115;116;115].
Definition k_name : str := [110;97;109;101].
Definition k_method : str := [109;101;116;104;111;100].
Definition k_uri : str := [117;114;105].
Definition k_templater : str := [116;101;109;112;108;97;116;101;114].
Definition s_get : str := [71;69;84].
Definition s_html : str := [104;116;109;108].

(* AmmoHCL{Requests: [{Name: "r", Method: "GET", URI: "/", Headers: {}, Templater: &{Type: "html"}}]} *)
Definition ex_hcl_vals : list hval :=
  [ HRs []; HRs [[HS [114]; HS s_get; HS [47]; HM []; HAbsent; HAbsent; HAbsent; HRs []; HR [HS s_html]]]; HRs []; HRs [] ].
Definition ex_yaml_tree : value :=
  VMap [(k_requests, VList [VMap [(k_name, VStr [114]); (k_method, VStr s_get); (k_uri, VStr [47]);
                                  (k_templater, VMap [(s_type, VStr s_html)])]])].

Example C16_example_request :
  (match ex_decode ex_yaml_tree with Ok _ => true | _ => false end) = true /\
  norm_res (ex_decode (marshal_by_tags gen_hcl_root ex_hcl_vals)) = norm_res (ex_decode ex_yaml_tree).
Proof. vm_compute. split; reflexivity. Qed.

(* ================================================================================================================
   The locals stage (hcl.go decodeLocals / decodeLocalBlock / mergeMaps; Model/HclLocals.v): "HCL-only conveniences
   such as locals blocks ... are fully evaluated before conversion".  For ANY number of locals blocks and any body. *)

(* The accumulator loop of the code means what the specification says: a reference local.n denotes the nearest
   definition of n in a block above, evaluated at its own place; the body sees every block; the file is rejected
   exactly when some definition does not evaluate at its place (or a block sets a name twice). *)
Theorem C16_locals_fully_evaluated :
  forall blocks body, parse_hcl blocks body = spec_locals blocks body.
Proof. exact parse_hcl_is_spec. Qed.
Print Assumptions C16_locals_fully_evaluated.

(* A local is visible any number of blocks below its definition: with the blocks `before ++ b :: between` decoded,
   a name that b defines and no block of `between` redefines has, for every later block and for the body, the value of
   b's expression evaluated under the blocks before b -- however many blocks lie between. *)
Theorem C16_locals_reach_any_block :
  forall before b between vars n e,
    decode_locals (before ++ b :: between) = Some vars ->
    assoc n b = Some e ->
    (forall m, In m between -> assoc n m = None) ->
    assoc n vars = eval_with (lookup_above (rev before)) e.
Proof. exact locals_reach_any_block. Qed.
Print Assumptions C16_locals_reach_any_block.

(* Locals are a convenience: an accepted description reads exactly like the description with every reference
   replaced by its defining expression -- which has no reference left and no locals block. *)
Theorem C16_locals_are_a_convenience :
  forall blocks body vals,
    parse_hcl blocks body = Some vals ->
    exists body', map_opt (inline_body blocks) body = Some body' /\
                  forallb ref_free body' = true /\
                  parse_hcl [] body' = Some vals.
Proof. exact parse_hcl_inlined. Qed.
Print Assumptions C16_locals_are_a_convenience.

(* ---- non-vacuity: the layering of docs/eng/scenario/locals.md continued by one block -- the third block builds on a
   local of the FIRST one and extends a name of its own above; the body uses all three. *)
Definition n_common : str := [99;111;109;109;111;110].
Definition n_auth : str := [97;117;116;104].
Definition n_admin : str := [97;100;109;105;110].
Definition n_api : str := [97;112;105].
Definition ex_blocks : list block :=
  [ [(n_common, ELit (LM [([67;84], [106;115;111;110])])); (n_api, ELit (LS [47;97;112;105]))];
    [(n_auth, EMerge (ERef n_common) (ELit (LM [([65], [66])])))];
    [(n_admin, EMerge (ERef n_common) (ELit (LM [([88], [49])])));
     (n_api, ECat (ERef n_api) (ELit (LS [47;118;50])))] ].
Definition ex_body : list lexpr := [ERef n_auth; ERef n_admin; ECat (ERef n_api) (ELit (LS [47;120]))].

Example C16_locals_example_three_blocks :
  parse_hcl ex_blocks ex_body =
    Some [LM [([67;84], [106;115;111;110]); ([65], [66])];
          LM [([67;84], [106;115;111;110]); ([88], [49])];
          LS [47;97;112;105;47;118;50;47;120]] /\
  (exists vars, decode_locals ex_blocks = Some vars /\
     assoc n_common vars = eval_with (lookup_above (rev [])) (ELit (LM [([67;84], [106;115;111;110])]))) /\
  (* a reference to a name no block above defines rejects the file *)
  parse_hcl [[(n_auth, ERef n_common)]; [(n_common, ELit (LS []))]] [] = None.
Proof.
  split; [vm_compute; reflexivity|]. split; [|vm_compute; reflexivity].
  destruct (decode_locals ex_blocks) as [vars|] eqn:D; [|vm_compute in D; discriminate].
  exists vars. split; [reflexivity|].
  apply (C16_locals_reach_any_block [] (nth 0 ex_blocks []) (tl ex_blocks) vars n_common); auto.
  intros m [H|[H|[]]]; subst m; reflexivity.
Qed.

(* ================================================================================================================
   null (round 6).  A local set to null EXISTS: below its block -- any number of blocks below -- the name is defined and
   null, whatever an earlier block said about it (the Terraform idiom for switching a default off). *)
Theorem C16_null_local_is_defined :
  forall before b between vars n,
    decode_locals (before ++ b :: between) = Some vars ->
    assoc n b = Some (ELit LNull) ->
    (forall m, In m between -> assoc n m = None) ->
    assoc n vars = Some LNull.
Proof. exact null_redefinition_hides. Qed.
Print Assumptions C16_null_local_is_defined.

(* The attributes of the body (nullable = the Go field can be nil: pointer, map, slice), any number of locals blocks:
   the code's loop gives every field what the specification gives it. *)
Theorem C16_locals_fields_fully_evaluated :
  forall blocks attrs, parse_hcl_fields blocks attrs = spec_fields blocks attrs.
Proof. exact parse_hcl_fields_is_spec. Qed.
Print Assumptions C16_locals_fields_fully_evaluated.

(* "optional fields that both syntaxes allow to leave out": in an accepted description an attribute whose expression
   means null (by the specification: nearest definition above) leaves its field out -- and only a field that can be
   nil takes it --, and the description reads like the one with those attributes deleted from the text: the same
   fields present, the same values, the same order. *)
Theorem C16_null_attribute_leaves_field_out :
  forall blocks attrs fs,
    parse_hcl_fields blocks attrs = Some fs ->
    (forall i a, nth_error attrs i = Some a ->
       eval_with (lookup_above (rev blocks)) (snd a) = Some LNull -> nth_error fs i = Some None /\ fst a = true) /\
    parse_hcl_fields blocks (written_attrs (lookup_above (rev blocks)) attrs) = Some (filter (@is_some lval) fs).
Proof. exact null_attribute_leaves_field_out. Qed.
Print Assumptions C16_null_attribute_leaves_field_out.

(* non-vacuity: a default of the first block switched off by the second (tag), a local that is only ever null used
   through coalesce() and directly; a plain field (uri) refuses null *)
Definition n_tag : str := [116;97;103].
Definition n_ovr : str := [111;118;114].
Definition ex_null_blocks : list block :=
  [ [(n_tag, ELit (LS [100;114;97;102;116])); (n_ovr, ELit LNull)];
    [(n_tag, ELit LNull)] ].
Example C16_null_example :
  parse_hcl_fields ex_null_blocks
    [(true, ERef n_tag); (false, ECoalesce (ERef n_ovr) (ELit (LS [47]))); (true, ERef n_ovr)]
    = Some [None; Some (LS [47]); None] /\
  parse_hcl_fields ex_null_blocks [(false, ERef n_ovr)] = None /\
  parse_hcl_fields ex_null_blocks [(true, ECoalesce (ERef n_ovr) (ERef n_tag))] = None.
Proof. vm_compute. repeat split; reflexivity. Qed.

(* ================================================================================================================
   The entry point the two front-ends share (decode.go DecodeMap; Model/ScenarioGuard.v), for ANY decoder `dv`:
   ParseAmmoConfig = DecodeMap, ConvertHCLToAmmo = DecodeMap after the tag-driven marshalling. *)

(* The verdict of a front-end -- accepted with which configuration, or refused -- is a function of what the common
   decoder makes of the tree handed to it; there is no guard that one syntax passes and the other does not. *)
Theorem C16_frontends_one_verdict :
  forall dv sch root hv t,
    dv (marshal_by_tags root hv) = dv t -> read_hcl dv sch root hv = read_yaml dv sch t.
Proof. exact frontends_one_verdict. Qed.
Print Assumptions C16_frontends_one_verdict.

(* Neither front-end ever yields a scenario with a negative weight, and a description with one is refused by both. *)
Theorem C16_accepted_weights_nonneg :
  forall dv sch t c, decode_map dv sch t = Ok c -> forall z, In z (scenario_weights sch c) -> (0 <= z)%Z.
Proof. exact accepted_weights_nonneg. Qed.
Print Assumptions C16_accepted_weights_nonneg.

Theorem C16_negative_weight_refused_by_both :
  forall dv sch root hv t c z,
    dv (marshal_by_tags root hv) = dv t -> dv t = Ok c ->
    In z (scenario_weights sch c) -> (z < 0)%Z ->
    read_yaml dv sch t = Err EValidate /\ read_hcl dv sch root hv = Err EValidate.
Proof. exact frontends_refuse_negative_weight. Qed.
Print Assumptions C16_negative_weight_refused_by_both.

(* non-vacuity on the generated tables: two scenarios, the second with weight -1, typed in YAML and in HCL form: the
   decoder alone accepts both, both front-ends refuse; with weight 1 both accept *)
Definition k_scn : str := [115;99;101;110;97;114;105;111;115].
Definition k_wgt : str := [119;101;105;103;104;116].
Definition ex_scn_yaml (w : Z) : value :=
  VMap [(k_scn, VList [VMap [(k_name, VStr [97]); (k_requests, VList [])];
                        VMap [(k_name, VStr [98]); (k_wgt, VInt w); (k_requests, VList [])]])].
Definition ex_scn_hcl (w : Z) : list hval :=
  [ HRs []; HRs []; HRs []; HRs [[HS [97]; HAbsent; HAbsent; HL []]; [HS [98]; HI w; HAbsent; HL []]] ].
Example C16_example_negative_weight :
  (match ex_decode (ex_scn_yaml (-1)) with Ok c => scenario_weights gen_ammo_schema c | _ => [] end) = [0; -1]%Z /\
  read_yaml ex_decode gen_ammo_schema (ex_scn_yaml (-1)) = Err EValidate /\
  read_hcl ex_decode gen_ammo_schema gen_hcl_root (ex_scn_hcl (-1)) = Err EValidate /\
  (match read_yaml ex_decode gen_ammo_schema (ex_scn_yaml 1) with Ok _ => true | _ => false end) = true /\
  norm_res (read_hcl ex_decode gen_ammo_schema gen_hcl_root (ex_scn_hcl 1)) = norm_res (read_yaml ex_decode gen_ammo_schema (ex_scn_yaml 1)).
Proof. vm_compute. repeat split; reflexivity. Qed.

(* ---- format selection by file extension (config.go ReadAmmoConfig) ------------------------------------------------ *)

(* Whatever precedes it, a name ending in .hcl is read by the HCL front-end and one ending in .yaml or .yml by the YAML
   front-end (.yml is .yaml); the case of the letters does not matter. *)
Theorem C16_format_by_extension :
  forall n,
    (format_of (n ++ ext_hcl) = Some FHcl /\ format_of (n ++ ext_yaml) = Some FYaml /\ format_of (n ++ ext_yml) = Some FYaml) /\
    format_of (lower n) = format_of n.
Proof. intro n. split; [exact (format_of_ext n) | exact (format_of_lower n)]. Qed.
Print Assumptions C16_format_by_extension.

(* A file that is read at all is read by one of the two front-ends, chosen by its name alone. *)
Theorem C16_read_file_one_entry :
  forall dv sch root name t hv r,
    read_file dv sch root name t hv = Ok r ->
    (format_of name = Some FHcl /\ read_hcl dv sch root hv = Ok r) \/
    (format_of name = Some FYaml /\ read_yaml dv sch t = Ok r).
Proof. exact read_file_cases. Qed.
Print Assumptions C16_read_file_one_entry.

Example C16_example_formats :
  format_of [83;46;72;67;76] = Some FHcl /\                               (* S.HCL *)
  format_of [97;46;104;99;108;47;98;46;89;109;108] = Some FYaml /\        (* a.hcl/b.Yml: the base name decides *)
  format_of [97;46;104;99;108;46;116;120;116] = None /\                   (* a.hcl.txt *)
  format_of [104;99;108] = None.                                          (* hcl *)
Proof. vm_compute. repeat split; reflexivity. Qed.

(* the constructor of assert/response (size: val >= 0, op one of six) sits inside the common decoder: a description
   with `size { val = 1, op = "!=" }` is refused in both syntaxes, with op = "<" accepted by both *)
Definition k_pp : str := [112;111;115;116;112;114;111;99;101;115;115;111;114;115].
Definition k_headers : str := [104;101;97;100;101;114;115].
Definition ex_size_yaml (op : str) : value :=
  VMap [(k_requests, VList [VMap [(k_name, VStr [114]); (k_method, VStr s_get); (k_uri, VStr [47]); (k_headers, VMap []);
          (k_pp, VList [VMap [(s_type, VStr s_assert_response); (k_size, VMap [(k_val, VInt 1); (k_op, VStr op)])]])]])].
Definition ex_size_hcl (op : str) : list hval :=
  [ HRs [];
    HRs [[HS [114]; HS s_get; HS [47]; HM []; HAbsent; HAbsent; HAbsent;
          HRs [[HS s_assert_response; HAbsent; HAbsent; HAbsent; HAbsent; HR [HI 1; HS op]]]; HAbsent]];
    HRs []; HRs [] ].
Example C16_example_assert_size :
  read_yaml (with_ctor ex_decode) gen_ammo_schema (ex_size_yaml [33;61]) = Err ECtor /\
  read_hcl (fun t => with_ctor ex_decode t) gen_ammo_schema gen_hcl_root (ex_size_hcl [33;61]) = Err ECtor /\
  (match read_yaml (with_ctor ex_decode) gen_ammo_schema (ex_size_yaml [60]) with Ok _ => true | _ => false end) = true /\
  norm_res (read_hcl (with_ctor ex_decode) gen_ammo_schema gen_hcl_root (ex_size_hcl [60])) =
  norm_res (read_yaml (with_ctor ex_decode) gen_ammo_schema (ex_size_yaml [60])).
Proof. vm_compute. repeat split; reflexivity. Qed.

(* ---- multi-line strings: YAML literal block scalars and HCL heredocs as functions of the text of the file
   (Model/BlockScalar.v; round 7).  The text of a block scalar runs to the next node or to THE END OF THE FILE. -------- *)

(* Every string -- any bytes, any number of line breaks at its end -- is written as itself under the header chomp_for
   chooses (`|-` none, `|` one, `|+` more); and under `|+` every text is its own value. *)
Theorem C16_block_scalar_is_literal :
  forall x, read_block (chomp_for x) x = x /\ read_block Keep x = x.
Proof. intro x. split; [exact (block_of_string x) | exact (keep_is_literal x)]. Qed.
Print Assumptions C16_block_scalar_is_literal.

(* The HCL heredoc and the YAML `|` scalar over the same lines (the last one not blank) are the same string: each line
   with its break, the break of the LAST line included; and any heredoc is the `|+` scalar over its text. *)
Theorem C16_heredoc_and_block_scalar_agree :
  forall ls, ls <> [] -> last ls [] <> [] -> ~ In nl (last ls []) ->
    heredoc_value (unlines ls) = Some (unlines ls) /\ read_block Clip (unlines ls) = unlines ls.
Proof. exact heredoc_clip_twin. Qed.
Print Assumptions C16_heredoc_and_block_scalar_agree.

Theorem C16_heredoc_is_keep_scalar :
  forall t v, heredoc_value t = Some v -> read_block Keep t = v.
Proof. exact heredoc_keep_twin. Qed.
Print Assumptions C16_heredoc_is_keep_scalar.

(* What the end of the file may and may not do to its last node.  The break that ends the last line of a `|` / `|+`
   scalar is content -- with it and without it the file says two different strings, so a front-end has to hand the
   text to the parser as it is --, whereas blank lines after a `|` scalar and any breaks after a `|-` one say nothing. *)
Theorem C16_final_line_break_is_content :
  forall c t, c <> Strip -> fst (chop t) <> [] -> snd (chop t) = O ->
    read_block c (t ++ [nl]) = t ++ [nl] /\ read_block c t = t /\ read_block c (t ++ [nl]) <> read_block c t.
Proof. exact final_break_is_content. Qed.
Print Assumptions C16_final_line_break_is_content.

Theorem C16_blank_lines_after_last_node :
  forall t j, read_block Clip (t ++ breaks (S j)) = read_block Clip (t ++ [nl]) /\
              read_block Strip (t ++ breaks j) = read_block Strip t.
Proof. intros t j. split; [exact (clip_ignores_blank_lines t j) | exact (strip_ignores_breaks t j)]. Qed.
Print Assumptions C16_blank_lines_after_last_node.

(* {"n": 1} and its line break, as `|` text, as heredoc lines; without the break; with two blank lines under `|+` *)
Definition ex_lines_body : str := [123;34;110;34;58;32;49;125].
Example C16_example_block_scalars :
  chomp_for (ex_lines_body ++ [nl]) = Clip /\ read_block Clip (ex_lines_body ++ [nl]) = ex_lines_body ++ [nl] /\
  heredoc_value (unlines [ex_lines_body]) = Some (ex_lines_body ++ [nl]) /\
  read_block Clip ex_lines_body = ex_lines_body /\ chomp_for ex_lines_body = Strip /\
  read_block Clip (ex_lines_body ++ [nl; nl; nl]) = ex_lines_body ++ [nl] /\
  chomp_for (ex_lines_body ++ [nl; nl]) = Keep /\ read_block Keep (ex_lines_body ++ [nl; nl]) = ex_lines_body ++ [nl; nl] /\
  chomp_for [nl] = Keep /\ read_block Clip [nl; nl] = [] /\ heredoc_value ex_lines_body = None /\
  (fst (chop ex_lines_body) <> [] /\ snd (chop ex_lines_body) = O).
Proof. vm_compute. repeat split; try reflexivity. discriminate. Qed.
