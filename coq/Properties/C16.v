(* Property C16 — a scenario means the same whether written in HCL or in YAML.  PARTIAL BY DESIGN: the YAML, HCL
   (incl. locals and the collection functions) and mapstructure libraries are oracles; the theorems cover the
   struct/tag layer pandora itself defines: the map AmmoHCL -> yaml keys (hcl.go) against the keys config.AmmoConfig
   accepts.  Statements only; proofs in Proofs/TagTablesProofs.v, Gen/ScenarioTags_bridge.v. *)
From Coq Require Import List NArith ZArith Bool QArith.
From PV Require Import Model.ConfigDecode Model.TagTables Proofs.ConfigDecodeProofs Proofs.TagTablesProofs
  Gen.ConfigSchemaGen Gen.ScenarioTagsGen Gen.ScenarioTags_bridge.
Import ListNotations.
Local Open Scope N_scope.

(* Round trip through the tag layer, for ANY pair of tables that is consistent at this level (level_ok) and any
   values: (1) every key the HCL hop writes is accepted by the config side (so no "invalid keys" error can come from
   the conversion); (2) a field that is present is handed -- by the decoder's own key lookup, for the config field
   whose key matches -- exactly its marshalled value, under exactly one key; (3) a field that is left out (nil with
   omitempty, or empty with omitempty) leaves no key: it stays absent. *)
Theorem C16_roundtrip_generic :
  forall mv hfs ffs vals,
    level_ok hfs ffs = true ->
    forallb (fun kv => accepted_b (fst kv) (map f_key ffs)) (marshal_fields mv hfs vals) = true /\
    forall i f v ck,
      nth_error hfs i = Some f -> nth_error vals i = Some v -> fold_eqb ck (h_yaml f) = true ->
      find_key ck (marshal_fields mv hfs vals) =
      if emitted f v then Some (h_yaml f, mv (h_kind f) v) else None.
Proof.
  intros mv hfs ffs vals H. split; [apply marshal_fields_accepted; exact H|].
  intros. eapply routed_to_config_field; eauto.
  unfold level_ok in H. apply andb_true_iff in H. tauto.
Qed.
Print Assumptions C16_roundtrip_generic.

(* The tables regenerated from hcl.go / config.go / the registered processors are consistent at every nesting level
   (computed on the generated tables), and the set of fields HCL allows to leave out is the documented one. *)
Theorem C16_table_ok : table_ok gen_registry 8 gen_hcl_root (flat_fields gen_ammo_schema) = true.
Proof. exact gen_table_ok. Qed.
Print Assumptions C16_table_ok.

(* Equivalence at a struct level of the common decoder: two written maps -- one typed by the user in YAML, one produced
   by the HCL hop -- that hand every config field the same value tree are decoded to the same field values. *)
Theorem C16_hcl_yaml_equiv :
  forall dec ffs cs kvs_yaml kvs_hcl,
    (forall f, In f ffs ->
       option_map snd (find_key (f_key f) kvs_yaml) = option_map snd (find_key (f_key f) kvs_hcl)) ->
    fst (dec_fields dec ffs cs kvs_yaml) = fst (dec_fields dec ffs cs kvs_hcl).
Proof. exact dec_fields_ext. Qed.
Print Assumptions C16_hcl_yaml_equiv.

(* ---- non-vacuity: one request written in HCL form, pushed through the generated table and decoded on the
   generated AmmoConfig schema, equals the decode of the same request typed in YAML (tag left out, headers empty) *)
Definition ex_none1 (_ : str) : option str := None.
Definition ex_none2 (_ _ : str) : option str := None.
Definition ex_orc (_ : okind) (_ : str) : option Z := None.
Definition ex_orcq (_ : str) : option Q := None.
Definition ex_decode (v : value) : res cval :=
  decode_and_validate ex_none1 ex_none2 ex_orc ex_orcq gen_registry model_factory_lazy (fuel_for v) gen_ammo_schema gen_ammo_default v.

Definition k_requests : str := [114;101;113;117;101;115;116;115].
Definition k_name : str := [110;97;109;101].
Definition k_method : str := [109;101;116;104;111;100].
Definition k_uri : str := [117;114;105].
Definition k_templater : str := [116;101;109;112;108;97;116;101;114].
Definition s_get : str := [71;69;84].
Definition s_html : str := [104;116;109;108].

(* AmmoHCL{Requests: [{Name: "r", Method: "GET", URI: "/", Headers: {}, Templater: &{Type: "html"}}]} *)
Definition ex_hcl_vals : list hval :=
  [ HRs []; HRs [[HS [114]; HS s_get; HS [47]; HM []; HAbsent; HAbsent; HAbsent; HRs []; HR [HS s_html]]]; HRs []; HRs [] ].
Definition ex_yaml_tree : value :=
  VMap [(k_requests, VList [VMap [(k_name, VStr [114]); (k_method, VStr s_get); (k_uri, VStr [47]);
                                  (k_templater, VMap [(s_type, VStr s_html)])]])].

Example C16_example_request :
  (match ex_decode ex_yaml_tree with Ok _ => true | _ => false end) = true /\
  norm_res (ex_decode (marshal_by_tags gen_hcl_root ex_hcl_vals)) = norm_res (ex_decode ex_yaml_tree).
Proof. vm_compute. split; reflexivity. Qed.
