(* Property C15 — scenario execution: order, multiplicity, pauses, variable flow, stop at the
   first failing step, weights, [next] round-robin.  Statements only; proofs live in Proofs/. *)
From Coq Require Import List NArith ZArith Bool Lia.
From PV Require Import Model.Iterator Model.Scenario Proofs.ScenarioParseProofs.
Import ListNotations.
Local Open Scope N_scope.

(* The three documented forms of a request-list entry parse to exactly the name, multiplicity
   and pause that were written, whatever blanks surround the tokens; an omitted or empty
   argument means multiplicity 1 / pause 0.  (print_bare is not padded: ParseStringFunc does
   not trim a name without brackets.) *)
Theorem C15_parse :
  (forall name, ~ In c_open name -> ~ In c_close name ->
     parse_shoot (print_bare name) = ShOk name 1%Z 0%Z) /\
  (forall b0 name b1 b2 n b3 b6 vn,
     blanks b0 -> blanks b1 -> blanks b2 -> blanks b3 -> blanks b6 ->
     name_ok name -> is_lit 1%Z n vn ->
     parse_shoot (print_n b0 name b1 b2 n b3 b6) = ShOk name vn 0%Z) /\
  (forall b0 name b1 b2 n b3 b4 s b5 b6 vn vs,
     blanks b0 -> blanks b1 -> blanks b2 -> blanks b3 -> blanks b4 -> blanks b5 -> blanks b6 ->
     name_ok name -> is_lit 1%Z n vn -> is_lit 0%Z s vs ->
     parse_shoot (print_ns b0 name b1 b2 n b3 b4 s b5 b6) = ShOk name vn vs).
Proof. repeat split; [exact parse_bare|exact parse_n|exact parse_ns]. Qed.
Print Assumptions C15_parse.

(* non-vacuity: " order_req ( 3 , 100 ) " *)
Example C15_parse_example :
  parse_shoot (print_ns [32] [111;114;100;101;114;95;114;101;113] [32] [32] [51] [32] [32] [49;48;48] [32] [32])
  = ShOk [111;114;100;101;114;95;114;101;113] 3%Z 100%Z
  /\ is_lit 1%Z [51] 3%Z /\ is_lit 0%Z [49;48;48] 100%Z.
Proof.
  split; [reflexivity|]. split.
  - apply (lit_plain 1%Z [51]); [discriminate|repeat constructor|unfold dval, int64_max; cbn; lia].
  - apply (lit_plain 0%Z [49;48;48]); [discriminate|repeat constructor|unfold dval, int64_max; cbn; lia].
Qed.
