(* Property C15 — scenario execution: order, multiplicity, pauses, variable flow, stop at the
   first failing step, weights, [next] round-robin.  Statements only; proofs live in Proofs/. *)
From Coq Require Import List NArith ZArith Bool Lia.
From PV Require Import Model.Iterator Model.Scenario
  Proofs.ScenarioParseProofs Proofs.ScenarioExpandProofs Proofs.ScenarioRingProofs
  Proofs.ScenarioShotProofs Proofs.IteratorProofs.
Import ListNotations.
Local Open Scope N_scope.

(* ------------------------------------------------------------------------------------ *)
(* The three documented forms of a request-list entry parse to exactly the name, multiplicity
   and pause that were written, whatever blanks surround the tokens; an omitted or empty
   argument means multiplicity 1 / pause 0.  (print_bare is not padded: ParseStringFunc does
   not trim a name without brackets.) *)
Theorem C15_parse :
  (forall name, ~ In c_open name -> ~ In c_close name ->
     parse_shoot (print_bare name) = ShOk name 1%Z 0%Z) /\
  (forall b0 name b1 b2 n b3 b6 vn,
     blanks b0 -> blanks b1 -> blanks b2 -> blanks b3 -> blanks b6 ->
     name_ok name -> is_lit 1%Z n vn ->
     parse_shoot (print_n b0 name b1 b2 n b3 b6) = ShOk name vn 0%Z) /\
  (forall b0 name b1 b2 n b3 b4 s b5 b6 vn vs,
     blanks b0 -> blanks b1 -> blanks b2 -> blanks b3 -> blanks b4 -> blanks b5 -> blanks b6 ->
     name_ok name -> is_lit 1%Z n vn -> is_lit 0%Z s vs ->
     parse_shoot (print_ns b0 name b1 b2 n b3 b4 s b5 b6) = ShOk name vn vs).
Proof. repeat split; [exact parse_bare|exact parse_n|exact parse_ns]. Qed.
Print Assumptions C15_parse.

(* non-vacuity: " order_req ( 3 , 100 ) " *)
Example C15_parse_example :
  parse_shoot (print_ns [32] [111;114;100;101;114;95;114;101;113] [32] [32] [51] [32] [32] [49;48;48] [32] [32])
  = ShOk [111;114;100;101;114;95;114;101;113] 3%Z 100%Z
  /\ is_lit 1%Z [51] 3%Z /\ is_lit 0%Z [49;48;48] 100%Z.
Proof.
  split; [reflexivity|]. split.
  - apply (lit_plain 1%Z [51]); [discriminate|repeat constructor|unfold dval, int64_max; cbn; lia].
  - apply (lit_plain 0%Z [49;48;48]); [discriminate|repeat constructor|unfold dval, int64_max; cbn; lia].
Qed.

(* ------------------------------------------------------------------------------------ *)
(* Expansion.  Read every entry as the documentation does ([item_of]: a request of a known
   name with multiplicity n and pause, or sleep(ms)).  If every entry reads, multiplicities
   are >= 1 and the list does not start with a sleep, the loop of convertScenarioToAmmo
   yields exactly [spec_expand]: in listed order, n copies of each named request, each copy
   with the pause of name(n, pause), the sleeps that follow an entry added to its LAST copy
   only.  Its requests are the listed requests with their multiplicities; every written pause
   is applied exactly once.  An entry that does not read (syntax error, unknown name) makes
   the construction fail. *)
Theorem C15_expand : forall (R : Type) (reqs : list (bytes * R)),
  (forall shoots items,
     map (item_of R reqs) shoots = map Some items -> pos_items R items -> not_sleep_head R items ->
     expand R reqs shoots = ExpOk (spec_expand R items)) /\
  (forall items,
     map fst (spec_expand R items) =
     flat_map (fun it => match it with IReq r n _ => repeat r n | ISleep _ => [] end) items) /\
  (forall items, pos_items R items -> not_sleep_head R items ->
     sum_z (map snd (spec_expand R items)) =
     sum_z (map (fun it => match it with IReq _ n p => (Z.of_nat n * p)%Z | ISleep ms => ms end) items)) /\
  (forall pre sh post items,
     map (item_of R reqs) pre = map Some items -> pos_items R items -> not_sleep_head R items ->
     item_of R reqs sh = None ->
     exists e, expand R reqs (pre ++ sh :: post) = ExpErr e).
Proof.
  intros R reqs. split; [exact (expand_spec R reqs)|].
  split; [exact (spec_expand_requests R)|].
  split; [exact (spec_expand_total_pause R)|exact (expand_bad_entry R reqs)].
Qed.
Print Assumptions C15_expand.

(* non-vacuity: requests a, b;  [ "a(2, 5)", "sleep(3)", " b " is not trimmed so "b" ] *)
Example C15_expand_example :
  let reqs := [([97], 0%nat); ([98], 1%nat)] in
  let shoots := [[97;40;50;44;32;53;41]; [115;108;101;101;112;40;51;41]; [98]] in
  let items := [IReq 0%nat 2 5%Z; ISleep 3%Z; IReq 1%nat 1 0%Z] in
  map (item_of nat reqs) shoots = map Some items /\ pos_items nat items /\ not_sleep_head nat items /\
  expand nat reqs shoots = ExpOk [(0%nat, 5%Z); (0%nat, 8%Z); (1%nat, 0%Z)].
Proof.
  cbv zeta. split; [reflexivity|]. split; [repeat constructor|]. split; [exact I|reflexivity].
Qed.

(* ------------------------------------------------------------------------------------ *)
(* lib/math: the Go loops compute greatest common divisors of positive arguments and never run
   out of fuel. *)
Theorem C15_gcd :
  (forall a b, (0 < a)%Z -> (0 < b)%Z -> gcd_go a b = Some (Z.gcd a b)) /\
  (forall ws, (2 <= length ws)%nat -> all_pos ws -> gcdm_go ws = Some (gcd_list ws)).
Proof. split; [exact gcd_go_correct|exact gcdm_go_correct]. Qed.
Print Assumptions C15_gcd.

(* Weights.  For scenarios with distinct names and weights >= 0 (0 counts as 1, as the code
   does): decodeAmmo's ring is [spec_ring]; with g the gcd of the weights, scenario i occurs
   exactly weight_i / g times in one turn (copies * g = weight, so the copies of any two
   scenarios are in the exact proportion of their weights); Provider.Run delivers cyclically,
   so over any m full turns, from any starting point, scenario i is delivered m * copies_i
   times; and in ANY window of L consecutive deliveries its count differs from L * copies_i /
   |ring| = L * w_i / sum(w) by less than copies_i. *)
Theorem C15_weights : forall (scs : list (bytes * Z)),
  NoDup (map fst scs) -> weights_ok (map snd scs) -> (2 <= length scs)%nat ->
  let ws := map snd scs in
  let ring := spec_ring ws in
  let g := gcd_list (map norm_w ws) in
  ring_of scs = RingOk ring /\ (0 < g)%Z /\
  (forall i w, nth_error ws i = Some w -> (Z.of_nat (count_nat i ring) * g = norm_w w)%Z) /\
  (forall i j wi wj, nth_error ws i = Some wi -> nth_error ws j = Some wj ->
     (Z.of_nat (count_nat i ring) * norm_w wj = Z.of_nat (count_nat j ring) * norm_w wi)%Z) /\
  (0 < length ring)%nat /\
  (forall i a m, cnt ring i a (m * length ring) = (m * count_nat i ring)%nat) /\
  (forall i a L, (0 < count_nat i ring)%nat ->
     (Z.abs (Z.of_nat (length ring) * Z.of_nat (cnt ring i a L) - Z.of_nat L * Z.of_nat (count_nat i ring))
      < Z.of_nat (length ring) * Z.of_nat (count_nat i ring))%Z) /\
  (forall i a L, count_nat i ring = O -> cnt ring i a L = O).
Proof. exact weights_theorem. Qed.
Print Assumptions C15_weights.

(* non-vacuity: weights 2 and 4 -> ring s0 s1 s1; a single scenario -> ring of one *)
Example C15_weights_example :
  ring_of [([115;48], 2%Z); ([115;49], 4%Z)] = RingOk [0;1;1]%nat /\
  NoDup (map fst [([115;48], 2%Z); ([115;49], 4%Z)]) /\
  ring_of [([115;48], 7%Z)] = RingOk [0%nat] /\
  ring_of [([115;48], 50%Z); ([115;49], 0%Z)] = RingOk (repeat 0%nat 50 ++ [1%nat]).
Proof.
  split; [reflexivity|]. split; [|split; reflexivity].
  constructor; [intros [H|[]]; discriminate H|]. constructor; [intros []|constructor].
Qed.

(* ------------------------------------------------------------------------------------ *)
(* One shot, for ANY preprocessor/templater/HTTP/postprocessor behaviour and any world state.
   The events of a shot are ordered by step, within a step render < send < sample < pause.
   If every step succeeds: all steps are sent once, in list order; one successful sample per
   step; a pause after exactly the steps that have one.  If step j is the first to fail with
   kind k: steps 0..j-1 were sent (and step j too iff the failure came after the request was
   handed to the client: transport or postprocessor/assertion failure), nothing with an index
   above j happened, samples are one per step 0..j, the first j successful and the j-th
   flagged failed; pauses only after steps before j. *)
Theorem C15_order_stop :
  forall (W Src Req Rend Resp V : Type) (rname : Req -> bytes)
         (o_pre : Req -> tree Src V -> W -> W * option (vars V))
         (o_render : Req -> tree Src V -> W -> W * option Rend)
         (o_exec : Rend -> W -> W * option Resp)
         (o_post : Req -> Resp -> W -> W * option (vars V))
         (o_status : Resp -> Z) (src : Src) (steps : list (Req * Z)) (w : W),
  let '(evs, _, out) := shoot W Src Req Rend Resp V rname o_pre o_render o_exec o_post o_status src steps w in
  match out with
  | Done =>
      sends Src Rend V evs = seq 0 (length steps) /\
      map fst (samples Src Rend V evs) = seq 0 (length steps) /\
      all_ok (samples Src Rend V evs) /\
      pauses Src Rend V evs = pauses_spec Req 0 steps
  | FailedAt j k =>
      exists d, j = (0 + d)%nat /\ (d < length steps)%nat /\
        sends Src Rend V evs = seq 0 d ++ (if fk_sent k then [j] else []) /\
        (exists oks, samples Src Rend V evs = oks ++ [(j, None)] /\ map fst oks = seq 0 d /\ all_ok oks) /\
        pauses Src Rend V evs = pauses_spec Req 0 (firstn d steps) /\
        Forall (fun e => (ev_index Src Rend V e <= j)%nat) evs
  end /\
  increasing (map (ev_key Src Rend V) evs).
Proof. exact shoot_order_stop. Qed.
Print Assumptions C15_order_stop.

(* The executable specification [order_stop_b] (used by the check on the IMPLEMENTATION's
   observation: ids of the requests the target received, and (step name, success?) of every
   reported sample) accepts every shot of the model, provided the templater renders the
   request it was given; in particular every shot of the concrete instance. *)
Theorem C15_order_stop_exec :
  (forall (W Src Req Rend Resp V : Type) (rname : Req -> bytes)
          (o_pre : Req -> tree Src V -> W -> W * option (vars V))
          (o_render : Req -> tree Src V -> W -> W * option Rend)
          (o_exec : Rend -> W -> W * option Resp)
          (o_post : Req -> Resp -> W -> W * option (vars V))
          (o_status : Resp -> Z) (rid : Req -> N) (rend_id : Rend -> N),
     (forall rq t w w' r, o_render rq t w = (w', Some r) -> rend_id r = rid rq) ->
     forall (src : Src) (steps : list (Req * Z)) (w : W),
     let '(evs, _, _) := shoot W Src Req Rend Resp V rname o_pre o_render o_exec o_post o_status src steps w in
     order_stop_b (step_obs Req rname rid steps) (send_ids Src Rend V rend_id evs) (sample_obs Src Rend V evs) = true) /\
  (forall src steps w,
     let '(evs, _, _) := c_shoot src steps w in
     order_stop_b (c_step_obs steps) (c_send_ids evs) (c_sample_obs evs) = true).
Proof. split; [exact shoot_order_stop_b|exact c_shoot_order_stop_b]. Qed.
Print Assumptions C15_order_stop_exec.

(* the executable specification is not trivially true: a sample after a failed one, a missing
   request, a skipped step and a request after the failure are all rejected *)
Example C15_order_stop_exec_rejects :
  let steps := [([97], 0); ([98], 1); ([99], 2)] in
  order_stop_b steps [0;1] [([97], true); ([98], false)] = true /\
  order_stop_b steps [0;1;2] [([97], true); ([98], false); ([99], true)] = false /\
  order_stop_b steps [0] [([97], true); ([98], true)] = false /\
  order_stop_b steps [0;2] [([97], true); ([99], true)] = false /\
  order_stop_b steps [0;1;2] [([97], true); ([98], false)] = false /\
  order_stop_b steps [0;1] [([97], true); ([98], true)] = false.
Proof. repeat split; reflexivity. Qed.

(* The scenario-level pause min_waiting_time, same generality plus a clock oracle
   [o_elapsed] (time.Since(startAt) read after the last step).  A shot whose steps all succeed
   ends with a sleep of the remainder, so it lasts max(time spent, min_waiting_time) >=
   min_waiting_time, and — given that the step pauses really elapsed — at least
   max(sum of the written pauses, min_waiting_time); a shot with a failing step does not wait. *)
Theorem C15_min_waiting :
  forall (W Src Req Rend Resp V : Type) (rname : Req -> bytes)
         (o_pre : Req -> tree Src V -> W -> W * option (vars V))
         (o_render : Req -> tree Src V -> W -> W * option Rend)
         (o_exec : Rend -> W -> W * option Resp)
         (o_post : Req -> Resp -> W -> W * option (vars V))
         (o_status : Resp -> Z) (o_elapsed : W -> Z)
         (src : Src) (steps : list (Req * Z)) (minw : Z) (w : W),
  let '(evs, w1, out, fin) :=
    shoot_timed W Src Req Rend Resp V rname o_pre o_render o_exec o_post o_status o_elapsed src steps minw w in
  match out with
  | Done =>
      (o_elapsed w1 + fin = Z.max (o_elapsed w1) minw)%Z /\
      (minw <= o_elapsed w1 + fin)%Z /\ (0 <= fin)%Z /\
      pauses Src Rend V evs = pauses_spec Req 0 steps /\
      ((sum_pauses (pauses Src Rend V evs) <= o_elapsed w1)%Z ->
       (Z.max (sum_pauses (pauses_spec Req 0 steps)) minw <= o_elapsed w1 + fin)%Z)
  | FailedAt _ _ => fin = 0%Z
  end.
Proof. exact shoot_min_waiting. Qed.
Print Assumptions C15_min_waiting.

(* Variable flow, same generality.  Whenever the templater is called for step j (named nm,
   own preprocessor output pv) it receives a tree whose data-source part is the shot's
   source and in which request [name] is visible exactly as [visible h nm pv name] says:
     - name = nm: only the step's own preprocessor output (no postprocessor entry yet, and
       nothing of an earlier execution of the same request);
     - otherwise the preprocessor AND postprocessor output of the LATEST earlier execution of
       [name] in h;  - nothing if [name] was not executed earlier;
   where h lists exactly the steps 0..j-1 of THIS shot (newest first): nothing produced by
   step j or later, and nothing of any other shot, can be visible. *)
Theorem C15_varflow :
  forall (W Src Req Rend Resp V : Type) (rname : Req -> bytes)
         (o_pre : Req -> tree Src V -> W -> W * option (vars V))
         (o_render : Req -> tree Src V -> W -> W * option Rend)
         (o_exec : Rend -> W -> W * option Resp)
         (o_post : Req -> Resp -> W -> W * option (vars V))
         (o_status : Resp -> Z) (src : Src) (steps : list (Req * Z)) (w : W),
  let '(evs, _, _) := shoot W Src Req Rend Resp V rname o_pre o_render o_exec o_post o_status src steps w in
  forall j nm t h pv, In (EvRender j nm t h pv) evs ->
    t_src t = src /\
    (forall name, rm_get (t_req t) name = visible V h nm pv name) /\
    nth_error (map (fun p => rname (fst p)) steps) j = Some nm /\
    hist_names V h = rev (firstn j (map (fun p => rname (fst p)) steps)).
Proof. exact shoot_varflow. Qed.
Print Assumptions C15_varflow.

(* non-vacuity on the concrete instance used by the correspondence run: a(2) then b; the
   target answers 200,200,500; b asserts status 200 -> steps 0,1,2 sent, step 2 flagged failed *)
Example C15_order_stop_example :
  let a := {| cq_name := [97]; cq_id := 0; cq_iter := 0; cq_pre := []; cq_post := [CJson [116] [116]]; cq_tmpl := TNone; cq_html := false |} in
  let b := {| cq_name := [98]; cq_id := 1; cq_iter := 0; cq_pre := [([112], PPost [97] [116])]; cq_post := [CStatus 200]; cq_tmpl := TNone; cq_html := false |} in
  let r k st := {| rs_status := st; rs_json := true; rs_fields := [([116], [116; k])]; rs_hdr := None; rs_okbody := true |} in
  let w := {| w_arr := 0; w_script := [Some (r 48 200%Z); Some (r 49 200%Z); Some (r 50 500%Z)];
              w_dflt := fun _ => r 63 200%Z; w_iter := [] |} in
  let '(evs, _, out) := c_shoot {| cs_tables := []; cs_glob := []; cs_vlists := [] |} [(a, 0%Z); (a, 4%Z); (b, 0%Z); (a, 0%Z)] w in
  out = FailedAt 2 FPost /\ sends _ _ _ evs = [0;1;2]%nat /\
  samples _ _ _ evs = [(0%nat, Some 200%Z); (1%nat, Some 200%Z); (2%nat, None)] /\
  pauses _ _ _ evs = [(1%nat, 4%Z)] /\
  (* b's preprocessor saw the token captured by the LATEST execution of a: "t1" *)
  exists t h, In (EvRender 2 [98] t h [([112], [116;49])]) evs.
Proof.
  vm_compute. repeat split. eexists. eexists. right. right. right. right. right. right. right. left. reflexivity.
Qed.

(* ------------------------------------------------------------------------------------ *)
(* [next].  NextIterator.Next is one critical section; take ANY history of critical sections
   of a fresh iterator (any number of instances, any interleaving: [merge_of_b tr progs] says
   tr interleaves the instances' programs).  The p-th critical section, on segment s, returns
   the number k of earlier critical sections on s — so (k < 2^63, len > 0) calcIndex picks
   row k mod len: consecutive evaluations get consecutive rows cyclically, evaluations less
   than len apart never get the same row, every len consecutive evaluations cover all rows;
   and in a complete run the number of evaluations on s is the total the programs contain. *)
Theorem C15_next_round_robin :
  (forall tr p t s v,
     nth_error (fst (it_run [] tr)) p = Some (t, s, v) ->
     nth_error tr p = Some (t, s) /\ v = (N.of_nat (count_seg s (firstn p tr)) mod two64)) /\
  (forall len k, (0 < len)%nat -> (N.of_nat k < two63) ->
     next_row len (N.of_nat k mod two64) = NxRow (k mod len)) /\
  (forall len k, (0 < len)%nat -> (S k mod len = (k mod len + 1) mod len)%nat) /\
  (forall len k1 k2, (0 < len)%nat -> (k1 < k2)%nat -> (k2 < k1 + len)%nat -> (k1 mod len <> k2 mod len)%nat) /\
  (forall len k0 r, (0 < len)%nat -> (r < len)%nat -> exists d, (d < len)%nat /\ ((k0 + d) mod len = r)%nat) /\
  (forall tr progs, merge_of_b tr progs = true -> forall s, count_seg s tr = count_progs s progs).
Proof.
  split; [exact it_run_values|]. split; [exact next_row_k|]. split; [exact rows_consecutive|].
  split; [exact rows_distinct_in_turn|]. split; [exact rows_cover_turn|exact merge_counts].
Qed.
Print Assumptions C15_next_round_robin.

(* The same fact where the scenarios use it: the preprocessor path source.<src>[next].<field>
   of the concrete instance.  With k earlier evaluations on this iterator and table it yields
   the field of row k mod len, consumes exactly one counter value of that segment, leaves every
   other counter and the rest of the world alone; the same for a list variable of a `variables`
   source, source.<src>.<lst>[next], whose counter is named by the source AND the list (two lists
   of the same name under different sources never share it); no other path expression touches a
   counter.  (Which key an arbitrary path uses: Properties/C15_paths.v.) *)
Theorem C15_next_in_preprocessor :
  (forall own src field (t : ctree) (w : cworld) rows c0,
     assoc_table (cs_tables (t_src t)) src = Some rows -> rows <> [] ->
     repr (w_iter w) c0 -> (N.of_nat (c0 (seg_next own src)) < two63) ->
     exists w',
       eval_pexpr own (PNext src field) t w =
         Some (w', row_field rows (c0 (seg_next own src) mod length rows) field) /\
       repr (w_iter w') (bump c0 (seg_next own src)) /\
       w_arr w' = w_arr w /\ w_script w' = w_script w) /\
  (forall own src lst (t : ctree) (w : cworld) ls elems c0,
     assoc_vsrc (cs_vlists (t_src t)) src = Some ls -> assoc_vlist ls lst = Some elems -> elems <> [] ->
     repr (w_iter w) c0 -> (N.of_nat (c0 (seg_vnext own src lst)) < two63) ->
     exists w',
       eval_pexpr own (PVNext src lst) t w =
         Some (w', nth_error elems (c0 (seg_vnext own src lst) mod length elems)) /\
       repr (w_iter w') (bump c0 (seg_vnext own src lst)) /\
       w_arr w' = w_arr w /\ w_script w' = w_script w) /\
  (forall own s1 l1 s2 l2,
     ~ In 46 s1 -> ~ In 46 s2 -> ~ In 91 l1 -> ~ In 91 l2 ->
     seg_vnext own s1 l1 = seg_vnext own s2 l2 -> s1 = s2 /\ l1 = l2) /\
  (forall own e (t : ctree) (w w' : cworld) r,
     (forall src field, e <> PNext src field) -> (forall src lst, e <> PVNext src lst) ->
     eval_pexpr own e t w = Some (w', r) -> w' = w).
Proof.
  split; [exact eval_next_row|]. split; [exact eval_vnext_row|]. split; [exact seg_vnext_inj|exact eval_other_keeps_iter].
Qed.
Print Assumptions C15_next_in_preprocessor.

(* Why the single critical section matters (the model's atomicity assumption is not idle): if
   the lookup and the insert/add were two sections, two instances whose first lookups both miss
   would both be handed row 0. *)
Theorem C15_next_split_sections_refuted :
  exists ops, split_run [] [] ops = [(0%nat, 0); (1%nat, 0)].
Proof. exact split_next_refuted. Qed.
Print Assumptions C15_next_split_sections_refuted.

(* non-vacuity: two instances interleaved on one segment, 3 rows *)
Example C15_next_example :
  let s := [46;117] in
  let tr := [(0%nat, s); (1%nat, s); (1%nat, s); (0%nat, s)] in
  merge_of_b tr [[s; s]; [s; s]] = true /\
  map (fun x => next_row 3 (snd x)) (fst (it_run [] tr)) = [NxRow 0; NxRow 1; NxRow 2; NxRow 0].
Proof. split; reflexivity. Qed.
