(* Property C17, the any-depth statements that Properties/C17.v left at one level:
   (1) validate-tag violations inside nested plain structs of a validation unit, at any depth;
   (2) congruence of the decoder and "a placeholder at any path decodes like the literal at that path", for whole
       trees with any number of placeholders;
   (3) the concrete form ${property:FILE#KEY} alongside ${env:NAME}.
   Statements only; proofs in Proofs/ConfigDepthProofs.v. *)
From Coq Require Import List NArith ZArith Bool QArith.
From PV Require Import Model.ConfigDecode Proofs.ConfigDecodeProofs Proofs.ConfigDepthProofs.
Import ListNotations.
Local Open Scope N_scope.

(* (1) A written value at ANY depth of nested plain structs (sreach: keys through struct fields only) that fails the
   validate tags of its field, however it is decoded: the root configuration is refused by DecodeAndValidate, and so
   is a component config wherever the component sits in the tree (lz = false: nothing is decoded lazily). *)
Theorem C17_range_any_depth :
  forall env prop orc orcq reg lz uq,
  (forall q s v s' tags' x,
     q <> [] -> sreach q [] s v = Some (s', tags', x) -> violates env prop orc orcq reg lz s' tags' x ->
     forall F cur, notok (decode_and_validate env prop orc orcq reg lz F s cur v))
  /\
  (forall p s cur v iface fk tags d0 kvs q e cs d s' tags' x,
     reach reg lz uq p [] s cur v = Some (SPlugin iface fk, tags, d0, VMap kvs) ->
     plugin_entry reg iface kvs = Some e -> e_conf e = Some (cs, d) -> entry_lazy lz fk e = false ->
     q <> [] ->
     sreach q [] cs (VMap (filter (fun kv => negb (is_type_key kv)) kvs)) = Some (s', tags', x) ->
     violates env prop orc orcq reg lz s' tags' x ->
     forall F c, notok (decode env prop orc orcq reg lz F s c v)).
Proof. intros. split; [apply range_nested_root|apply range_nested_at]. Qed.
Print Assumptions C17_range_any_depth.

(* (2a) Congruence: writing at a reached path a value that the sub-problem there decodes like the original gives a tree
   that decodes exactly like the original (every fuel, every current value). *)
Theorem C17_decode_congruence :
  forall env prop orc orcq reg lz p tags s cur v s' tags' cur' x x' v',
    reach reg lz true p tags s cur v = Some (s', tags', cur', x) ->
    s' <> SAny ->
    replace_at p x' v = Some v' ->
    (forall F c, decode env prop orc orcq reg lz F s' c x = decode env prop orc orcq reg lz F s' c x') ->
    forall F c, decode env prop orc orcq reg lz F s c v = decode env prop orc orcq reg lz F s c v'.
Proof. exact decode_congruence. Qed.
Print Assumptions C17_decode_congruence.

(* (2b) Whole trees: resolving any number of ${env:..} / ${property:..#..} placeholders, each at a scalar position the
   decoder reaches, into the literal their text stands for at that position (ph_literal: what confutil.cast makes
   of the text for the kind of the field, else the text) does not change what the tree decodes to. *)
Theorem C17_placeholders_whole_tree :
  forall env prop orc orcq reg lz s cur v v',
    resolves env prop orc orcq reg lz s cur v v' ->
    forall F c, decode env prop orc orcq reg lz F s c v = decode env prop orc orcq reg lz F s c v'.
Proof. exact resolves_decode. Qed.
Print Assumptions C17_placeholders_whole_tree.

(* (3) ${property:FILE#KEY}: in a scalar position of any kind like the literal / text it resolves to; a missing file or
   key is an error whatever the target and wherever the decoder reaches it. *)
Theorem C17_property_placeholder :
  forall env prop orc orcq reg lz uq,
  (forall file key t k F c,
     prop_names_ok file key = true -> prop file key = Some t -> has_dollar_brace t = false ->
     decode env prop orc orcq reg lz (S F) (SScalar k) c (VStr (ph_prop file key)) =
     match cast_text orc orcq (SScalar k) t with
     | HVal (VStr _) => decode env prop orc orcq reg lz (S F) (SScalar k) c (VStr t)
     | HVal lit => decode env prop orc orcq reg lz (S F) (SScalar k) c lit
     | HErr e => Err e
     end)
  /\
  (forall file key target,
     prop_names_ok file key = true -> prop file key = None ->
     hooks env prop orc orcq target (VStr (ph_prop file key)) = HErr EPlaceholder)
  /\
  (forall p s cur v s' tags d file key,
     reach reg lz uq p [] s cur v = Some (s', tags, d, VStr (ph_prop file key)) ->
     prop_names_ok file key = true -> prop file key = None ->
     forall F c, notok (decode env prop orc orcq reg lz F s c v)).
Proof.
  intros. split; [apply placeholder_scalar_prop|split; [apply hooks_ph_prop_missing|apply placeholder_prop_missing_at]].
Qed.
Print Assumptions C17_property_placeholder.

(* non-vacuity: the placeholder forms are what the documentation writes, and the name conditions are satisfiable *)
Example C17_depth_forms :
  ph_prop [102] [107] = [36;123;112;114;111;112;101;114;116;121;58;102;35;107;125]   (* ${property:f#k} *)
  /\ prop_names_ok [47;101;116;99;47;115;46;112] [116;118;109;95;115] = true               (* /etc/s.p # tvm_s *)
  /\ simple_name [84] = true.
Proof. vm_compute. repeat split; reflexivity. Qed.
