(* Property C20 — what the TARGET receives: exactly one call per entry that is to be sent, carrying the
   entry's metadata and nothing of reflect_metadata, whatever the target answers (any gRPC status,
   depending on everything it has received before).  Statements only; proofs live in Proofs/. *)
From Coq Require Import List NArith ZArith Bool.
From PV Require Import Model.GrpcCall Model.GrpcExample Model.GrpcWire Model.GrpcWireExample
  Proofs.GrpcCallProofs Proofs.GrpcExampleProofs Proofs.GrpcWireProofs Proofs.GrpcWireExampleProofs.
Import ListNotations.

(* A connection dialled with options that do not touch calls (credentials, user agent, authority) has
   the policy "never send an answered call again"; the bridge Gen/GrpcDial_bridge.v shows that the
   options of MakeGRPCConnect, re-read from the source, are of this kind. *)
Theorem C20_dial_policy :
  forall opts p, dial_policy opts = Some p -> p = no_retry.
Proof. exact dial_policy_some. Qed.
Print Assumptions C20_dial_policy.

(* dial_options.authority: when configured, every request the servers see (the reflection request and
   every call) carries it as :authority; when not, the address that was dialled *)
Theorem C20_authority :
  (forall configured addr,
     (configured = [] -> conn_authority configured addr = addr) /\
     (configured <> [] -> conn_authority configured addr = configured)) /\
  (forall configured t r any a,
     configured <> [] -> In a (run_authorities configured t r any) -> a = configured).
Proof. split; [exact conn_authority_spec|exact run_authorities_configured]. Qed.
Print Assumptions C20_authority.

(* The transport under that policy, against ANY stateful target: the outcomes the guns decided reach
   the target as exactly the sent ones, one call each, in order, and every sample code is the
   conversion of the answer to that very call (a call answered UNAVAILABLE is a failed sample, it is
   not sent again).  With ANY policy, what the target receives for one call is k >= 1 copies of it. *)
Theorem C20_transport_delivers_once :
  forall (msg : Type) (code_of_status : N -> N) (target : list (sent msg) -> sent msg -> N),
    (forall os hist,
       deliver msg code_of_status target no_retry hist os =
         (hist ++ sent_of os, spec_codes msg code_of_status target hist os)) /\
    (forall extra retry hist s,
       exists k, 1 <= k <= S extra /\ fst (attempts msg target extra retry hist s) = hist ++ repeat s k).
Proof.
  intros. split; [intros os hist; apply deliver_no_retry|intros; apply attempts_shape].
Qed.
Print Assumptions C20_transport_delivers_once.

(* grpc/json entries, a whole run (warm-up with reflect_metadata, n instances bound to its result, any
   assignment of entries to instances, any stateful target): everything the servers see is ONE
   reflection request carrying reflect_metadata followed by exactly the specified calls; the samples
   are the specified ones. *)
Theorem C20_one_call_per_entry :
  forall (desc msg payload : Type) (reencode : payload -> payload) (fits : desc -> payload -> option msg)
         (code_of_status : N -> N) (target : list (sent msg) -> sent msg -> N)
         (c : wconf) (reflected : mtable desc) (n : nat) (sched : list (nat * entry payload)),
    Forall (fun ie => fst ie < n) sched ->
    session desc msg payload reencode fits code_of_status target no_retry c reflected n sched =
      session_spec desc msg payload reencode fits code_of_status target c reflected (map snd sched).
Proof. exact session_is_spec. Qed.
Print Assumptions C20_one_call_per_entry.

(* … where every call of the specified run is the call of one of its entries — that entry's method and
   that entry's metadata, nothing else — and there is exactly one per entry that is to be sent *)
Theorem C20_call_is_the_entry :
  forall (desc msg payload : Type) (reencode : payload -> payload) (fits : desc -> payload -> option msg)
         (code_of_status : N -> N) (target : list (sent msg) -> sent msg -> N)
         (c : wconf) (reflected : mtable desc) (es : list (entry payload)),
    (forall s, In (WCall s) (fst (session_spec desc msg payload reencode fits code_of_status target c reflected es)) ->
       exists e, In e es /\ spec_outcome desc msg payload reencode fits reflected (wc_timeout c) e = Sent s /\
                 s_method s = e_call payload e /\ s_meta s = e_meta payload e) /\
    length (fst (session_spec desc msg payload reencode fits code_of_status target c reflected es)) =
      S (length (filter (fun e => match spec_outcome desc msg payload reencode fits reflected (wc_timeout c) e with
                                  | Sent _ => true | _ => false end) es)).
Proof.
  intros. split; [intros s; apply session_spec_calls|apply session_spec_call_count].
Qed.
Print Assumptions C20_call_is_the_entry.

(* reflect_metadata belongs to the reflection request only: configurations that differ in it give the
   same calls and the same samples *)
Theorem C20_reflect_metadata_frame :
  forall (desc msg payload : Type) (reencode : payload -> payload) (fits : desc -> payload -> option msg)
         (code_of_status : N -> N) (target : list (sent msg) -> sent msg -> N)
         timeout rm rm' (reflected : mtable desc) (es : list (entry payload)),
    let run := fun m => session_spec desc msg payload reencode fits code_of_status target (mkWConf timeout m) reflected es in
    tl (fst (run rm)) = tl (fst (run rm')) /\ snd (run rm) = snd (run rm') /\
    hd_error (fst (run rm)) = Some (WReflect rm).
Proof. intros. apply session_spec_frame. Qed.
Print Assumptions C20_reflect_metadata_frame.

(* scenario steps on the wire (composes with C20_scenario_metadata): any guns satisfying the cache
   invariant, any interleaving, any variables, any stateful target: the target receives exactly the
   calls specified for the executed steps, one each, in execution order *)
Theorem C20_scenario_wire :
  forall (desc msg tmpl vars : Type) (parse_t : gbytes -> option tmpl) (exec_t : tmpl -> vars -> option gbytes)
         (fits_text : desc -> gbytes -> option msg) (code_of_status : N -> N)
         (target : list (sent msg) -> sent msg -> N)
         (h : heap) (defs : list step) (t : mtable desc) (timeout : Z) (evs : list (sevent vars)),
    steps_wf h defs ->
    forall guns : list (sgun desc tmpl),
    Forall (gun_ok desc tmpl parse_t h defs t timeout) guns ->
    Forall (fun e => In (ev_step vars e) defs /\ ev_inst vars e < length guns) evs ->
    forall hist,
    let specs := map (fun e => spec_step desc msg tmpl vars parse_t exec_t fits_text t timeout h (ev_step vars e) (ev_vars vars e)) evs in
    deliver msg code_of_status target no_retry hist
      (snd (run_events desc msg tmpl vars parse_t exec_t fits_text h guns evs)) =
    (hist ++ sent_of specs, spec_codes msg code_of_status target hist specs).
Proof. exact scenario_wire. Qed.
Print Assumptions C20_scenario_wire.

(* The replays of the correspondence run.  For ALL entries the code-shaped session equals the
   specification with payloads read through reencode_guarded (as written when every integer literal is
   < 2^53, else as Go re-encodes them); PARTIAL: equal to the specification with payloads read as
   written under that guard (missing: integers beyond 2^53, see C20_json_int64_refuted).  Scenario
   shots: one call per sent step, codes as specified. *)
Theorem C20_json_session_partial :
  forall (sd : Z -> option Z) (code_of_status : N -> N) (target : list (sent msg_c) -> sent msg_c -> N)
         n timeout rm es, n <> 0 ->
    json_session sd code_of_status target no_retry n timeout rm es =
      json_session_spec code_of_status target (reencode_guarded sd) timeout rm es /\
    (Forall (fun e => fields_small (e_payload fields e) = true) es ->
     json_session sd code_of_status target no_retry n timeout rm es =
       json_session_spec code_of_status target (fun p => p) timeout rm es).
Proof.
  intros. split; [apply json_session_guarded; assumption|intros; apply json_session_exact; assumption].
Qed.
Print Assumptions C20_json_session_partial.

Theorem C20_scen_codes_replay :
  forall code_of_status target shots,
    scen_codes code_of_status target no_retry shots =
      (concat (map sent_of shots), scen_codes_spec code_of_status target shots).
Proof. exact scen_codes_no_retry. Qed.
Print Assumptions C20_scen_codes_replay.

(* ---------- non-vacuity, and what a different policy would do ---------- *)

Definition exw_entry : entry_c :=
  mkEntry fields [116]%N (b_prefix ++ [72;101;108;108;111]%N) [([120]%N, [49]%N)] [(b_name, PStr [97]%N)].
(* a target that answers its first call UNAVAILABLE (14) and later ones OK *)
Definition exw_target : list (sent msg_c) -> sent msg_c -> N :=
  fun hist _ => match hist with [] => 14%N | _ => 0%N end.
Definition exw_code : N -> N := fun st => if N.eqb st 0 then 200%N else 503%N.

(* pandora's policy: the entry is one call with its own metadata (not reflect_metadata), sample 503 … *)
Example C20_unavailable_is_a_failed_sample :
  let '(evs, rs) := json_session (fun _ => None) exw_code exw_target no_retry 2 0 [([114]%N, [82]%N)] [exw_entry] in
  map (fun ev => match ev with WReflect md => md | WCall s => s_meta s end) evs = [[([114]%N, [82]%N)]; [([120]%N, [49]%N)]] /\
  map (r_code msg_c) rs = [503%N].
Proof. vm_compute. split; reflexivity. Qed.

(* … whereas a connection that re-sends UNAVAILABLE would put the entry on the wire twice and report
   200: the model distinguishes the policies, the theorems above are about pandora's *)
Example C20_retry_policy_refuted :
  let '(evs, rs) := json_session (fun _ => None) exw_code exw_target (mkPolicy 2 (N.eqb 14)) 2 0 [] [exw_entry] in
  length evs = 3 /\ map (r_code msg_c) rs = [200%N] /\
  (evs, rs) <> json_session_spec exw_code exw_target (fun p => p) 0 [] [exw_entry].
Proof. vm_compute. repeat split. discriminate. Qed.

(* hypotheses of C20_one_call_per_entry / C20_json_session_partial are satisfiable *)
Example C20_session_hyp_example :
  Forall (fun ie : nat * entry_c => fst ie < 3) (round_robin 3 0 [exw_entry; exw_entry]) /\
  Forall (fun e => fields_small (e_payload fields e) = true) [exw_entry; exw_entry] /\ 3 <> 0.
Proof. repeat split; repeat constructor; discriminate. Qed.
