(* Property C19, the sample object (Model/RobustRecycle.v): "reported as a sample carrying the received status or the
   failure" when the sample is a RECYCLED object (the phout aggregator returns every sample to the pool).
   Statements only; proofs in Proofs/RobustRecycleProofs.v. *)
From Coq Require Import List ZArith Bool.
From PV Require Import Model.Robust Model.RobustRecycle Proofs.RobustRecycleProofs.
Import ListNotations.
Local Open Scope Z_scope.

(* what is reported does not depend on what the object was used for before *)
Theorem C19_recycled_sample_independent : forall prev1 prev2 ops, report acquire prev1 ops = report acquire prev2 ops.
Proof. exact report_independent. Qed.
Print Assumptions C19_recycled_sample_independent.

(* over any history of requests sharing one pooled object every report is the one a fresh object would give *)
Theorem C19_pool_history_independent : forall hist prev, run_pool acquire prev hist = map (report acquire fresh) hist.
Proof. exact run_pool_independent. Qed.
Print Assumptions C19_pool_history_independent.

(* and it carries its own outcome: failure without response = (net code, proto 0); clean exchange = (0, status);
   body failing after the status = (net code, status) *)
Theorem C19_recycled_sample_own_outcome : forall prev r net,
  let s := report acquire prev (ops_of r net) in
  (conn_ok (rs_conn r) = false -> s = {| so_net := net; so_proto := 0; so_err := true |}) /\
  (conn_ok (rs_conn r) = true -> rs_body_ok r = true -> s = {| so_net := 0; so_proto := rs_status r; so_err := false |}) /\
  (conn_ok (rs_conn r) = true -> rs_body_ok r = false -> s = {| so_net := net; so_proto := rs_status r; so_err := true |}).
Proof. exact report_own_outcome. Qed.
Print Assumptions C19_recycled_sample_own_outcome.

(* non-vacuity and the contrast: a reset that leaves the two codes alone reports (111, 200) for a refused request after
   an answered one, and a net code on the answered request after it *)
Example C19_example_recycle :
  let ok200 := {| rs_conn := ConnOk; rs_status := 200; rs_body_ok := true; rs_h2 := false |} in
  let refused := {| rs_conn := ConnRefused; rs_status := 0; rs_body_ok := false; rs_h2 := false |} in
  run_pool acquire_keeping_codes fresh [ops_of ok200 111; ops_of refused 111; ops_of ok200 111] =
    [{| so_net := 0; so_proto := 200; so_err := false |}; {| so_net := 111; so_proto := 200; so_err := true |};
     {| so_net := 111; so_proto := 200; so_err := false |}] /\
  run_pool acquire fresh [ops_of ok200 111; ops_of refused 111; ops_of ok200 111] =
    [{| so_net := 0; so_proto := 200; so_err := false |}; {| so_net := 111; so_proto := 0; so_err := true |};
     {| so_net := 0; so_proto := 200; so_err := false |}].
Proof. exact keeping_codes_leaks. Qed.
