(* Property C12 — instance startup profile. Statements only; proofs live in Proofs/StartLoopProofs.v. *)
From Coq Require Import List ZArith Bool Arith Lia.
From Coq Require Import Permutation.
From PV Require Import Model.StartLoop Model.Instance Model.StartAsync Model.StartWaiter Model.StartFire Model.StartProfile Model.StartPerInst Model.StartCompLeft Model.StartOverflow.
From PV Require Import Proofs.StartLoopProofs Proofs.StartAsyncProofs Proofs.StartWaiterProofs Proofs.StartFireProofs Proofs.StartProfileProofs Proofs.StartPerInstProofs Proofs.StartCompLeftProofs Proofs.StartOverflowProofs.
From PV Require Model.Waiter.
Import ListNotations.
Local Open Scope Z_scope.

(* Every finite trace of the start loop (any interleaving of its sections with the passing of
   time and with the cancel sources), from any startup token stream: *)

(* ids are 0,1,...,started-1 in creation order, pairwise distinct *)
Theorem C12_ids : forall toks l t0 s,
  srun l (sinit toks t0) = Some s ->
  map fst (creations s) = seq 0 (length (creations s)) /\ NoDup (map fst (creations s)).
Proof. exact ids_consecutive. Qed.
Print Assumptions C12_ids.

(* at every instant t, in every reachable state: instances created by t <= tokens released by t;
   and instance number k is created at or after the instant of token number k *)
Theorem C12_not_ahead : forall toks l t0 s,
  srun l (sinit toks t0) = Some s ->
  (forall t, (started_by t s <= released_by t toks)%nat)
  /\ (forall id c, In (id, c) (started s) -> exists tk, nth_error toks id = Some tk /\ tk <= c).
Proof. intros toks l t0 s H. split; [apply (not_ahead toks l t0 s H)|apply (created_after_token toks l t0 s H)]. Qed.
Print Assumptions C12_not_ahead.

(* no action of the start loop (nor the passing of time, nor a cancel of the start context)
   removes an instance: the list of started instances only grows ... *)
Theorem C12_monotone_loop : forall l s s',
  srun l s = Some s' -> exists new, started s' = new ++ started s.
Proof. exact started_grows. Qed.
Print Assumptions C12_monotone_loop.

(* ... and in the engine model of C03 an instance is changed by its own steps only (not by the
   start loop creating further instances or ending), and leaves its loop only on finding its
   RPS profile exhausted or the ammo gone (cancellation and panics are not in that model). *)
Theorem C12_monotone_instances : forall c a s s',
  apply_action c a s = Some s' ->
  forall i x, nth_error (insts s) i = Some x ->
  exists x', nth_error (insts s') i = Some x'
    /\ (match a with AStep j _ => j <> i | _ => True end -> x' = x)
    /\ (pc x <> Done -> pc x' = Done -> left_of c (sh s) x = 0%nat \/ ammo (sh s) = 0%nat).
Proof. exact instance_kept. Qed.
Print Assumptions C12_monotone_instances.

(* when the loop has ended: all tokens became instances if the profile was exhausted; fewer
   instances than tokens only if the start context was cancelled (by a labelled source) or the
   first instance could not be created *)
Theorem C12_all_tokens : forall toks l t0 s e,
  srun l (sinit toks t0) = Some s -> spc s = LEnd e ->
  (e = EExhausted -> length (started s) = length toks)
  /\ ((length (started s) < length toks)%nat ->
      (exists c, e = ECancelled c /\ cancelled s = Some c /\ In (SCancel c) l)
      \/ (e = EFirstCreateFailed /\ started s = [])).
Proof.
  intros toks l t0 s e H E. destruct (all_tokens toks l t0 s e H E) as [A B]. split; [exact A|].
  intros Hlt. destruct (B Hlt) as [(c & Ec & Cc)|F]; [left|right; exact F].
  exists c. repeat split; auto. eapply cancel_source; eauto.
Qed.
Print Assumptions C12_all_tokens.

(* once the start context is cancelled, at most one more instance is created *)
Theorem C12_cut_is_prompt : forall l s s',
  cancelled s <> None -> srun l s = Some s' -> (length (started s') <= length (started s) + 1)%nat.
Proof. exact cut_prompt. Qed.
Print Assumptions C12_cut_is_prompt.

(* NewInstanceStep(from,to,step,dur): `from` tokens at 0, then `step` tokens at j*dur for every
   j >= 1 with from + j*step <= to (the loop never runs out of fuel) *)
Theorem C12_instance_step : forall from to step dur,
  0 <= from -> 0 <= to -> 1 <= step ->
  istep_tokens from to step dur = Some (istep_spec from to step dur)
  /\ length (istep_spec from to step dur) = (Z.to_nat from + istep_levels from to step * Z.to_nat step)%nat.
Proof. intros. split; [apply instance_step_tokens; assumption|apply instance_step_count]. Qed.
Print Assumptions C12_instance_step.

(* non-vacuity: a run that starts two instances and is then cut short by out-of-ammo, with
   the third token already drawn *)
Example C12_cut_short_run :
  exists s, srun [SLoop false false; SLoop false false; SLoop false false; SLoop false false;
                  SLoop false false; SLoop false false; SLoop false false; STick 5; SLoop false false;
                  SLoop false false; SLoop false false; SLoop false false; SLoop false false; SCancel OutOfAmmo;
                  SLoop false false] (sinit [0; 5; 100] 0) = Some s
            /\ spc s = LEnd (ECancelled OutOfAmmo) /\ creations s = [(0%nat, 0); (1%nat, 5)].
Proof. eexists. split; [vm_compute; reflexivity|]. vm_compute. split; reflexivity. Qed.

Example C12_instance_step_example :
  istep_tokens 2 8 3 7 = Some [0; 0; 7; 7; 7; 14; 14; 14].
Proof. vm_compute. reflexivity. Qed.

(* ------------------------------------------------------------------------------------------ *)
(* Asynchronous creation (Model/StartAsync.v): the instances after the first one are created in
   their own goroutines (go runNewInstance); a creation may fail (RPS schedule factory, gun factory,
   gun.Bind); the failure reaches awaitRun through runRes and fails the pool, which cancels the start
   context.  Every trace of loop sections, time, cancel sources, creations returning (AResolve) and
   failures being received (AAwait), from any token stream: *)

(* the instances that exist have distinct ids below the number of launched ids; with nothing in
   flight, instances and failed creations together are exactly the ids 0..launched-1 (so without a
   failed creation the ids are consecutive from 0, and every hole is a creation that failed) *)
Theorem C12_async_ids : forall toks l t0 a,
  arun l (ainit toks t0) = Some a ->
  NoDup (live_ids a)
  /\ (forall id, In id (live_ids a) -> (id < length (started (base a)))%nat)
  /\ (quiescent a = true -> Permutation (live_ids a ++ failed a) (seq 0 (length (started (base a))))).
Proof. exact async_ids. Qed.
Print Assumptions C12_async_ids.

(* the instance with id k exists only from the instant of startup token number k on *)
Theorem C12_async_not_ahead : forall toks l t0 a,
  arun l (ainit toks t0) = Some a ->
  forall id c, In (id, c) (live a) -> exists tk, nth_error toks id = Some tk /\ tk <= c.
Proof. exact async_not_ahead. Qed.
Print Assumptions C12_async_not_ahead.

(* an instance that could not be created cuts instance start short: once the failure has been
   received the start context is cancelled (by that AAwait of the trace) ... *)
Theorem C12_async_failure_cancels : forall toks l t0 a,
  arun l (ainit toks t0) = Some a ->
  forall id, In id (failed a) -> cancelled (base a) <> None /\ In (AAwait id) l.
Proof. exact async_failure_cancels. Qed.
Print Assumptions C12_async_failure_cancels.

(* ... and from then on at most one more id is launched: no instance with an id above the number
   launched at that point ever exists *)
Theorem C12_async_cut_is_prompt : forall toks l1 l2 t0 a a',
  arun l1 (ainit toks t0) = Some a -> failed a <> [] -> arun l2 a = Some a' ->
  (length (started (base a')) <= length (started (base a)) + 1)%nat
  /\ (forall id, In id (live_ids a') -> (id <= length (started (base a)))%nat).
Proof. exact async_cut_prompt. Qed.
Print Assumptions C12_async_cut_is_prompt.

(* loop ended, nothing in flight: launched = instances + failed creations; profile exhausted and no
   failed creation => the instances are exactly the ids 0..tokens-1; fewer instances than tokens =>
   start context cancelled by a labelled source occurring in the trace (a received creation failure
   being the source InstanceFailed), or the first instance could not be created, or the profile was
   already exhausted when the received creation failure cancelled the start context *)
Theorem C12_async_all_tokens : forall toks l t0 a e,
  arun l (ainit toks t0) = Some a -> spc (base a) = LEnd e -> quiescent a = true ->
  (length (live a) + length (failed a) = length (started (base a)))%nat
  /\ (e = EExhausted -> failed a = [] -> Permutation (live_ids a) (seq 0 (length toks)))
  /\ ((length (live a) < length toks)%nat ->
      (exists c, e = ECancelled c /\ cancelled (base a) = Some c
                 /\ (In (ABase (SCancel c)) l \/ (c = InstanceFailed /\ exists id, In (AAwait id) l)))
      \/ (e = EFirstCreateFailed /\ live a = [])
      \/ (e = EExhausted /\ failed a <> [] /\ cancelled (base a) <> None
          /\ exists id, In id (failed a) /\ In (AAwait id) l)).
Proof. exact async_all_tokens. Qed.
Print Assumptions C12_async_all_tokens.

(* non-vacuity: instance 1 cannot be created; the failure is received; start is cut short with
   tokens at 10 and 20 never used *)
Example C12_async_failed_creation_run :
  exists a, arun (repeat (ABase (SLoop false false)) 8 ++ [AResolve 1 false; AAwait 1; ABase (SLoop false false)])
                 (ainit [0; 0; 10; 20] 0) = Some a
            /\ spc (base a) = LEnd (ECancelled InstanceFailed) /\ live_ids a = [0%nat] /\ failed a = [1%nat]
            /\ quiescent a = true.
Proof. eexists. split; [vm_compute; reflexivity|]. vm_compute. repeat split; reflexivity. Qed.

(* sensitivity: in the variant where a received creation failure is treated as a normal finish (no
   cancel) the conclusion of C12_async_failure_cancels is false: the profile runs to its end, the
   ids of the instances have a hole and nothing was cancelled *)
Example C12_async_swallowed_failure_differs :
  exists a, arun_swallow (repeat (ABase (SLoop false false)) 8 ++ [AResolve 1 false; AAwait 1]
                          ++ repeat (ABase (SLoop false false)) 3 ++ [ABase (STick 10)]
                          ++ repeat (ABase (SLoop false false)) 2 ++ [AResolve 2 true]
                          ++ repeat (ABase (SLoop false false)) 2)
                 (ainit [0; 0; 10] 0) = Some a
            /\ spc (base a) = LEnd EExhausted /\ live_ids a = [2%nat; 0%nat] /\ failed a = [1%nat]
            /\ cancelled (base a) = None.
Proof. eexists. split; [vm_compute; reflexivity|]. vm_compute. repeat split; reflexivity. Qed.

(* ------------------------------------------------------------------------------------------ *)
(* The Waiter's lateness bookkeeping under the start loop (Model/StartWaiter.v).  waiter.go keeps
   overdueDuration = how late the last event was handed out (a slowly created first instance makes
   the tokens behind it late).  It must not decide WHEN a token is released.  [wlstep false] = the
   code with that bookkeeping explicit; every trace, any token stream: *)

(* the bookkeeping runs underneath without changing the loop: instances are never ahead of the
   profile, instance k is created at or after token k - however late earlier tokens were *)
Theorem C12_waiter_not_ahead : forall toks l t0 s ov,
  wlrun false l (wlinit toks t0) = Some (s, ov) ->
  srun l (sinit toks t0) = Some s
  /\ (forall t, (started_by t s <= released_by t toks)%nat)
  /\ (forall id c, In (id, c) (started s) -> exists tk, nth_error toks id = Some tk /\ tk <= c)
  /\ 0 <= ov.
Proof.
  intros toks l t0 s ov H. split; [exact (wlrun_code_is_loop l _ _ _ _ H)|].
  destruct (wl_not_ahead toks l t0 s ov H) as [A B]. split; [exact A|split; [exact B|]].
  exact (wl_overdue_nonneg toks l t0 s ov H).
Qed.
Print Assumptions C12_waiter_not_ahead.

(* the loop's Wait, where it holds a token, is Model/Waiter.v [wait wfixed] - the function that
   Gen/GoFnWaiter_bridge.v (property C04) proves equal to waiter.go Waiter.Wait re-read from source:
   same cached reading and overdue afterwards; the loop sleeps exactly when that Wait arms its timer *)
Theorem C12_loop_wait_is_waiter : forall s ov tk fail pc b wake s' ov',
  spc s = LHave tk ->
  wlstep false (SLoop fail pc) (s, ov) = Some (s', ov') ->
  let (st', o) := Waiter.wait Waiter.wfixed {| Waiter.lastNow := lastNow s; Waiter.overdue := ov |}
                              (wcall_of s tk b wake) in
  Waiter.lastNow st' = lastNow s' /\ Waiter.overdue st' = ov'
  /\ (spc s' = LSleep tk <-> (Waiter.w_slept o || negb (Waiter.w_ok o)) = true)
  /\ (spc s' = LCreate tk <-> (Waiter.w_slept o || negb (Waiter.w_ok o)) = false).
Proof. exact wl_have_is_waiter. Qed.
Print Assumptions C12_loop_wait_is_waiter.

(* sensitivity: the release rule "waitFor <= overdue" (a token due sooner than the previous one was
   late is handed out at once) falsifies C12_waiter_not_ahead: the first instance takes 300 to create,
   the second token is 300 late, the third token - due at 500 - becomes an instance at 300; the code
   itself blocks on its timer at that point (the same trace is not a trace of the code) and creates it at 500 *)
Example C12_waiter_catchup_differs :
  let tr := repeat (SLoop false false) 4 ++ [STick 300] ++ repeat (SLoop false false) 8 in
  (exists s ov, wlrun true tr (wlinit [0; 0; 500] 0) = Some (s, ov)
     /\ creations s = [(0%nat, 0); (1%nat, 300); (2%nat, 300)]
     /\ (released_by 300%Z [0%Z; 0%Z; 500%Z] < started_by 300%Z s)%nat /\ ov < 0)
  /\ wlrun false tr (wlinit [0; 0; 500] 0) = None
  /\ (exists s ov, wlrun false (repeat (SLoop false false) 4 ++ [STick 300] ++ repeat (SLoop false false) 7
                                ++ [STick 200] ++ repeat (SLoop false false) 4) (wlinit [0; 0; 500] 0) = Some (s, ov)
       /\ creations s = [(0%nat, 0); (1%nat, 300); (2%nat, 500)] /\ spc s = LEnd EExhausted).
Proof.
  split; [|split; [vm_compute; reflexivity|]].
  - eexists; eexists. split; [vm_compute; reflexivity|]. vm_compute. repeat split; try reflexivity; lia.
  - eexists; eexists. split; [vm_compute; reflexivity|]. vm_compute. split; reflexivity.
Qed.

(* ------------------------------------------------------------------------------------------ *)
(* Instances firing under the start loop (Model/StartFire.v): the cancel source "out of ammo" is
   produced by the system - an instance's Acquire answered !ok, the instance returned outOfAmmoErr,
   awaitRun received it - not a free label.  Item VALUES are arbitrary (None = nil: providers for guns
   that need no ammo).  Every trace, any token stream, any items: *)

(* instance start is cut by "out of ammo" only when the provider has really answered !ok (nothing left) *)
Theorem C12_fire_out_of_ammo_grounded : forall its toks l t0 f,
  frun OnlyNotOk l (finit toks t0 its) = Some f ->
  arun (flat_map fproj l) (ainit toks t0) = Some (fa f)
  /\ (cancelled (base (fa f)) = Some OutOfAmmo -> said_no f = true /\ items f = []).
Proof.
  intros its toks l t0 f H. split; [exact (frun_proj _ _ _ _ H)|exact (fire_out_of_ammo_grounded its toks l t0 f H)].
Qed.
Print Assumptions C12_fire_out_of_ammo_grounded.

(* an instance, once it exists, is in its shooting loop until it leaves it: with outOfAmmoErr only
   after the provider answered !ok with nothing left, otherwise by a labelled end (RPS profile
   exhausted / run cancelled); every item handed out was shot, whatever its value *)
Theorem C12_fire_keeps_firing : forall its toks l t0 f,
  frun OnlyNotOk l (finit toks t0 its) = Some f ->
  Permutation (live_ids (fa f)) (firing f ++ outq f ++ map fst (gone f))
  /\ (forall id, In id (outq f) \/ In (id, LvAmmo) (gone f) -> said_no f = true /\ items f = [])
  /\ (length (shots f) + length (items f) = length its)%nat.
Proof. exact fire_keeps_firing. Qed.
Print Assumptions C12_fire_keeps_firing.

(* all tokens become instances unless: the provider really ran out, another labelled source
   (RPS finished, run cancelled, instance failed) or a failed creation is in the trace, or the first
   instance could not be created *)
Theorem C12_fire_all_tokens : forall its toks l t0 f e,
  frun OnlyNotOk l (finit toks t0 its) = Some f ->
  spc (base (fa f)) = LEnd e -> quiescent (fa f) = true ->
  (length (live (fa f)) < length toks)%nat ->
  (said_no f = true /\ items f = [])
  \/ (exists c, c <> OutOfAmmo /\ In (FBase (ABase (SCancel c))) l)
  \/ (exists id, In (FBase (AAwait id)) l)
  \/ e = EFirstCreateFailed.
Proof. exact fire_all_tokens. Qed.
Print Assumptions C12_fire_all_tokens.

(* non-vacuity: a provider of nil items (the dummy provider); three tokens, three instances, each
   fires nil items; nothing is cut *)
Example C12_fire_nil_items_run :
  let B := FBase (ABase (SLoop false false)) in
  exists f, frun OnlyNotOk (repeat B 4 ++ [FAcquire 0%nat] ++ repeat B 4 ++ [FBase (AResolve 1 true); FAcquire 1%nat]
                            ++ repeat B 3 ++ [FBase (ABase (STick 10))] ++ repeat B 2
                            ++ [FBase (AResolve 2 true); FAcquire 2%nat; FAcquire 0%nat] ++ repeat B 2)
                 (finit [0; 0; 10] 0 (repeat None 6)) = Some f
            /\ spc (base (fa f)) = LEnd EExhausted /\ live_ids (fa f) = [2%nat; 1%nat; 0%nat]
            /\ firing f = [2%nat; 1%nat; 0%nat] /\ length (shots f) = 4%nat /\ said_no f = false.
Proof. eexists. split; [vm_compute; reflexivity|]. vm_compute. repeat split; reflexivity. Qed.

(* sensitivity: under the rule that also takes a nil item for the end of the ammo, the conclusions of
   C12_fire_out_of_ammo_grounded and C12_fire_all_tokens are false: instance 0 leaves at its first
   Acquire, instance start is cut with two tokens unused although the provider never answered !ok and
   still has items *)
Example C12_fire_nil_as_out_of_ammo_differs :
  let B := FBase (ABase (SLoop false false)) in
  exists f, frun NilToo (repeat B 4 ++ [FAcquire 0%nat; FAwaitOut 0%nat; B]) (finit [0; 0; 10] 0 (repeat None 4)) = Some f
            /\ spc (base (fa f)) = LEnd (ECancelled OutOfAmmo) /\ cancelled (base (fa f)) = Some OutOfAmmo
            /\ live_ids (fa f) = [0%nat] /\ said_no f = false /\ length (items f) = 3%nat /\ shots f = [].
Proof. eexists. split; [vm_compute; reflexivity|]. vm_compute. repeat split; reflexivity. Qed.


(* ------------------------------------------------------------------------------------------------ *)
(* Round 7: how many tokens a CONFIGURED profile releases (Model/StartProfile.v), and instances firing
   their OWN rps profile (Model/StartPerInst.v).                                                      *)

(* const profile of rate opn/opd per second for d ns: its count n is floor(rate x duration) - never more
   tokens than rate x duration, and not a whole period less; token i (0 <= i < n) has its whole period
   inside the duration, is released at floor(i/rate) and strictly inside the duration *)
Theorem C12_const_count : forall opn opd d, 0 < opn -> 0 < opd -> 0 <= d ->
  (0 <= const_count opn opd d
   /\ const_count opn opd d * (opd * ns_per_s) <= opn * d < (const_count opn opd d + 1) * (opd * ns_per_s))
  /\ (forall i, 0 <= i < const_count opn opd d ->
        (i + 1) * (opd * ns_per_s) <= opn * d
        /\ opn * const_offset opn opd i <= i * (opd * ns_per_s) < opn * (const_offset opn opd i + 1)
        /\ 0 <= const_offset opn opd i < d)
  /\ (forall start tk, In tk (const_tokens start opn opd d) -> start <= tk < start + d).
Proof.
  exact (fun opn opd d Hn Hd H0 =>
    conj (const_count_floor opn opd d Hn Hd H0)
      (conj (fun i Hi => const_token_period opn opd d i Hn Hd H0 Hi)
            (fun start tk Hin => const_tokens_inside start opn opd d tk Hn Hd H0 Hin))).
Qed.
Print Assumptions C12_const_count.

(* the token stream of a configured profile (once / pause / const by rate / instance_step parts) has exactly
   the sum of the counts of its parts *)
Theorem C12_profile_count : forall ps start, Z.of_nat (length (pflatten start ps)) = profile_count ps.
Proof. exact pflatten_length. Qed.
Print Assumptions C12_profile_count.

(* the start loop over a configured profile: in EVERY reachable state of every trace the instances are at most
   the count of the configured profile; for a const startup profile: instances <= rate x duration *)
Theorem C12_profile_never_more : forall ps l t0 s,
  srun l (sinit (pflatten t0 ps) t0) = Some s ->
  Z.of_nat (length (started s)) <= profile_count ps.
Proof. exact profile_never_more. Qed.
Print Assumptions C12_profile_never_more.

Theorem C12_const_startup_never_more : forall opn opd d l t0 s, 0 < opn -> 0 < opd -> 0 <= d ->
  srun l (sinit (pflatten t0 [PRate opn opd d]) t0) = Some s ->
  Z.of_nat (length (started s)) * (opd * ns_per_s) <= opn * d.
Proof. exact const_startup_never_more. Qed.
Print Assumptions C12_const_startup_never_more.

(* non-vacuity: 2.5 instances per second for one second = two tokens (0 and 0.4 s), two instances, profile
   exhausted *)
Example C12_const_fractional_run :
  const_count 25 10 1000000000 = 2
  /\ pflatten 0 [PRate 25 10 1000000000] = [0; 400000000]
  /\ exists s, srun (repeat (SLoop false false) 4 ++ [STick 400000000] ++ repeat (SLoop false false) 6)
                    (sinit (pflatten 0 [PRate 25 10 1000000000]) 0) = Some s
               /\ spc s = LEnd EExhausted /\ length (started s) = 2%nat.
Proof.
  split; [reflexivity|]. split; [reflexivity|]. eexists. split; [vm_compute; reflexivity|]. vm_compute. split; reflexivity.
Qed.

(* sensitivity: with the product rounded to the nearest whole number the same profile has a third token
   (at 0.8 s, still inside the duration), the loop makes a third instance, and the conclusion of
   C12_const_startup_never_more is false: 3 instances > 2.5 *)
Example C12_const_rounded_differs :
  const_count_by RoundNearest 25 10 1000000000 = 3
  /\ pflatten_by RoundNearest 0 [PRate 25 10 1000000000] = [0; 400000000; 800000000]
  /\ exists s, srun (repeat (SLoop false false) 4 ++ [STick 400000000] ++ repeat (SLoop false false) 4
                     ++ [STick 400000000] ++ repeat (SLoop false false) 6)
                    (sinit (pflatten_by RoundNearest 0 [PRate 25 10 1000000000]) 0) = Some s
               /\ spc s = LEnd EExhausted /\ length (started s) = 3%nat
               /\ ~ (Z.of_nat (length (started s)) * (10 * ns_per_s) <= 25 * 1000000000).
Proof.
  split; [reflexivity|]. split; [reflexivity|]. eexists. split; [vm_compute; reflexivity|]. vm_compute.
  split; [reflexivity|]. split; [reflexivity|]. intros H. apply H. reflexivity.
Qed.

(* rps-per-instance: every call of the schedule factory builds new schedule objects (Fresh).  In every trace
   (any interleaving of the instances asking for tokens, whenever each was started): an instance has fired
   exactly what is missing from its own profile, never more than its T tokens, and one that found its profile
   exhausted and left has fired all T of them *)
Theorem C12_perinst_own_profile : forall T l s, pirun Fresh l (piinit T) = Some s ->
  forall id, (shots_of id s + rem s (obj_of Fresh id) = T)%nat
             /\ (shots_of id s <= T)%nat
             /\ (In id (pleft s) -> shots_of id s = T).
Proof. exact (fun T l s H => perinst_own_profile Fresh T fresh_own l s H). Qed.
Print Assumptions C12_perinst_own_profile.

(* ... and as long as it has not fired its whole profile it has not left, and gets a token whenever it asks:
   "an instance, once started, keeps firing until its RPS profile is exhausted" *)
Theorem C12_perinst_keeps_firing : forall T l s id, pirun Fresh l (piinit T) = Some s ->
  (shots_of id s < T)%nat ->
  ~ In id (pleft s)
  /\ exists s', pistep Fresh (PINext id) s = Some s' /\ shots_of id s' = S (shots_of id s) /\ pleft s' = pleft s.
Proof. exact (fun T l s id H => perinst_keeps_firing Fresh T fresh_own l s id H). Qed.
Print Assumptions C12_perinst_keeps_firing.

(* non-vacuity: three instances, profiles of two tokens, instance 2 asks only after instance 0 has left *)
Example C12_perinst_fresh_run :
  exists s, pirun Fresh [PINext 0; PINext 1; PINext 0; PINext 0; PINext 2; PINext 1; PINext 2; PINext 2; PINext 1]%nat (piinit 2) = Some s
            /\ shots_of 0 s = 2%nat /\ shots_of 1 s = 2%nat /\ shots_of 2 s = 2%nat /\ pleft s = [1; 2; 0]%nat.
Proof. eexists. split; [vm_compute; reflexivity|]. vm_compute. repeat split; reflexivity. Qed.

(* sensitivity: when the configuration decoded at factory creation is reused for every call, the nested
   schedule objects of a list profile are the same for all instances: instance 1, started after instance 0
   has fired, leaves at its first request without having fired anything - the conclusion of
   C12_perinst_own_profile is false *)
Example C12_perinst_decoded_once_differs :
  exists s, pirun DecodedOnce [PINext 0; PINext 0; PINext 0; PINext 1]%nat (piinit 2) = Some s
            /\ In 1%nat (pleft s) /\ shots_of 1 s = 0%nat /\ shots_of 0 s = 2%nat.
Proof. eexists. split; [vm_compute; reflexivity|]. vm_compute. split; [left; reflexivity|split; reflexivity]. Qed.

(* ---------------------------------------------------------------------------------------------------- *)
(* Round 8.  "The shared RPS profile finished" is one of the listed reasons for cutting instance start, and
   "its RPS profile is exhausted" the reason for an instance to stop firing.  The engine decides both by
   Left() == 0 of the profile.  For a composite profile (list form / type composite) Left() is computed from a
   table built by NewComposite (Model/StartCompLeft.v follows composite.go).  For EVERY list of parts - each
   with a known number of tokens left or unlimited - and in every state in which the parts behind the current
   one have not been touched (the only states Next produces, C12_composite_left_trace): Left() is unknown (-1)
   exactly while an unlimited part is ahead, else the sum of what the parts have left ... *)
Theorem C12_composite_left : forall started ps,
  forallb untouched (tl ps) = true -> comp_left Sticky started ps = left_spec ps.
Proof. exact comp_left_is_spec. Qed.
Print Assumptions C12_composite_left.

(* ... so a composite profile reports its end only when every remaining part is known and empty ... *)
Theorem C12_composite_left_zero : forall started ps,
  forallb untouched (tl ps) = true -> comp_left Sticky started ps = 0 -> Forall (fun p => cur_left p = 0) ps.
Proof. exact comp_left_zero. Qed.
Print Assumptions C12_composite_left_zero.

(* ... never while an unlimited part is still ahead, however few tokens the parts in front of it have ... *)
Theorem C12_composite_left_unknown : forall started ps,
  forallb untouched (tl ps) = true -> In (CUnl false) ps -> comp_left Sticky started ps = -1.
Proof. exact comp_left_unknown. Qed.
Print Assumptions C12_composite_left_unknown.

(* ... along any number of Next calls from a freshly built composite (or any state as above) *)
Theorem C12_composite_left_trace : forall draws ps,
  forallb untouched (tl ps) = true -> cleft_trace Sticky draws ps = cleft_spec_trace draws ps.
Proof. exact cleft_trace_is_spec. Qed.
Print Assumptions C12_composite_left_trace.

(* non-vacuity: three tokens, one token, then unlimited: unknown all the way; a finite list counts down *)
Example C12_composite_left_run :
  cleft_trace Sticky 6 [CKnown 3; CKnown 1; CUnl false] = [-1; -1; -1; -1; -1; -1; -1]
  /\ cleft_trace Sticky 6 [CKnown 2; CKnown 0; CKnown 3] = [5; 4; 3; 2; 1; 0].
Proof. split; vm_compute; reflexivity. Qed.

(* sensitivity: when the backward pass adds every known part to the accumulator (no sticky `unknown` flag),
   exactly one token in front of an unlimited part brings the accumulator from -1 to 0: with the first part
   drained the profile reports its end although a token and an unlimited part are ahead - the conclusions of
   C12_composite_left_zero / _unknown are false *)
Example C12_composite_left_not_sticky_differs :
  let ps := [CKnown 0; CKnown 1; CUnl false] in
  forallb untouched (tl ps) = true
  /\ comp_left CurrentKnown true ps = 0 /\ comp_left Sticky true ps = -1
  /\ ~ Forall (fun p => cur_left p = 0) ps.
Proof.
  cbv zeta. split; [reflexivity|]. split; [vm_compute; reflexivity|]. split; [vm_compute; reflexivity|].
  intros H. inversion H as [|? ? _ H1]; subst. inversion H1 as [|? ? H2 _]; subst. vm_compute in H2. discriminate.
Qed.

(* Round 8.  The pool option discard_overflow (on by default in the CLI) is about shots.  The start loop does
   not look at it (Model/StartOverflow.v, rule NeverSkip): for either setting, every trace - however late the
   loop is, e.g. a first instance that takes longer than MaxOverdueDuration to create - ends with all tokens
   turned into instances unless one of the listed causes cut it *)
Theorem C12_overflow_all_tokens : forall discard toks l t0 s e,
  orun NeverSkip discard l (sinit toks t0) = Some s -> spc s = LEnd e ->
  (e = EExhausted -> length (started s) = length toks)
  /\ ((length (started s) < length toks)%nat ->
      (exists c, e = ECancelled c /\ cancelled s = Some c /\ In (SCancel c) l)
      \/ (e = EFirstCreateFailed /\ started s = [])).
Proof. exact overflow_all_tokens. Qed.
Print Assumptions C12_overflow_all_tokens.

Theorem C12_overflow_ids : forall discard toks l t0 s,
  orun NeverSkip discard l (sinit toks t0) = Some s ->
  map fst (creations s) = seq 0 (length (creations s)) /\ NoDup (map fst (creations s)).
Proof. exact overflow_ids. Qed.
Print Assumptions C12_overflow_ids.

Definition late_first_trace : list saction :=
  let sl := SLoop false false in
  [sl; sl; sl; sl; STick 2100000000; sl; sl; sl; sl; sl; sl; sl; sl; sl; sl].

(* non-vacuity: three tokens at 0, the first instance takes 2.1 s to create, discard_overflow on: three instances *)
Example C12_overflow_late_tokens_run :
  exists s, orun NeverSkip true late_first_trace (sinit [0; 0; 0] 0) = Some s
            /\ spc s = LEnd EExhausted /\ map fst (creations s) = [0; 1; 2]%nat.
Proof. eexists. split; [vm_compute; reflexivity|]. split; reflexivity. Qed.

(* sensitivity: when the loop drops a startup token that is MaxOverdueDuration late (as an instance drops an
   overdue shot), the same run ends with the profile exhausted, nothing cancelled and ONE instance for three
   tokens - the conclusion of C12_overflow_all_tokens is false *)
Example C12_overflow_skip_differs :
  exists s, orun SkipOverdue true late_first_trace (sinit [0; 0; 0] 0) = Some s
            /\ spc s = LEnd EExhausted /\ cancelled s = None /\ length (started s) = 1%nat.
Proof. eexists. split; [vm_compute; reflexivity|]. repeat split; reflexivity. Qed.
