(* Property C12 — instance startup profile. Statements only; proofs live in Proofs/StartLoopProofs.v. *)
From Coq Require Import List ZArith Bool Arith.
From Coq Require Import Permutation.
From PV Require Import Model.StartLoop Model.Instance Model.StartAsync Proofs.StartLoopProofs Proofs.StartAsyncProofs.
Import ListNotations.
Local Open Scope Z_scope.

(* Every finite trace of the start loop (any interleaving of its sections with the passing of
   time and with the cancel sources), from any startup token stream: *)

(* ids are 0,1,...,started-1 in creation order, pairwise distinct *)
Theorem C12_ids : forall toks l t0 s,
  srun l (sinit toks t0) = Some s ->
  map fst (creations s) = seq 0 (length (creations s)) /\ NoDup (map fst (creations s)).
Proof. exact ids_consecutive. Qed.
Print Assumptions C12_ids.

(* at every instant t, in every reachable state: instances created by t <= tokens released by t;
   and instance number k is created at or after the instant of token number k *)
Theorem C12_not_ahead : forall toks l t0 s,
  srun l (sinit toks t0) = Some s ->
  (forall t, (started_by t s <= released_by t toks)%nat)
  /\ (forall id c, In (id, c) (started s) -> exists tk, nth_error toks id = Some tk /\ tk <= c).
Proof. intros toks l t0 s H. split; [apply (not_ahead toks l t0 s H)|apply (created_after_token toks l t0 s H)]. Qed.
Print Assumptions C12_not_ahead.

(* no action of the start loop (nor the passing of time, nor a cancel of the start context)
   removes an instance: the list of started instances only grows ... *)
Theorem C12_monotone_loop : forall l s s',
  srun l s = Some s' -> exists new, started s' = new ++ started s.
Proof. exact started_grows. Qed.
Print Assumptions C12_monotone_loop.

(* ... and in the engine model of C03 an instance is changed by its own steps only (not by the
   start loop creating further instances or ending), and leaves its loop only on finding its
   RPS profile exhausted or the ammo gone (cancellation and panics are not in that model). *)
Theorem C12_monotone_instances : forall c a s s',
  apply_action c a s = Some s' ->
  forall i x, nth_error (insts s) i = Some x ->
  exists x', nth_error (insts s') i = Some x'
    /\ (match a with AStep j _ => j <> i | _ => True end -> x' = x)
    /\ (pc x <> Done -> pc x' = Done -> left_of c (sh s) x = 0%nat \/ ammo (sh s) = 0%nat).
Proof. exact instance_kept. Qed.
Print Assumptions C12_monotone_instances.

(* when the loop has ended: all tokens became instances if the profile was exhausted; fewer
   instances than tokens only if the start context was cancelled (by a labelled source) or the
   first instance could not be created *)
Theorem C12_all_tokens : forall toks l t0 s e,
  srun l (sinit toks t0) = Some s -> spc s = LEnd e ->
  (e = EExhausted -> length (started s) = length toks)
  /\ ((length (started s) < length toks)%nat ->
      (exists c, e = ECancelled c /\ cancelled s = Some c /\ In (SCancel c) l)
      \/ (e = EFirstCreateFailed /\ started s = [])).
Proof.
  intros toks l t0 s e H E. destruct (all_tokens toks l t0 s e H E) as [A B]. split; [exact A|].
  intros Hlt. destruct (B Hlt) as [(c & Ec & Cc)|F]; [left|right; exact F].
  exists c. repeat split; auto. eapply cancel_source; eauto.
Qed.
Print Assumptions C12_all_tokens.

(* once the start context is cancelled, at most one more instance is created *)
Theorem C12_cut_is_prompt : forall l s s',
  cancelled s <> None -> srun l s = Some s' -> (length (started s') <= length (started s) + 1)%nat.
Proof. exact cut_prompt. Qed.
Print Assumptions C12_cut_is_prompt.

(* NewInstanceStep(from,to,step,dur): `from` tokens at 0, then `step` tokens at j*dur for every
   j >= 1 with from + j*step <= to (the loop never runs out of fuel) *)
Theorem C12_instance_step : forall from to step dur,
  0 <= from -> 0 <= to -> 1 <= step ->
  istep_tokens from to step dur = Some (istep_spec from to step dur)
  /\ length (istep_spec from to step dur) = (Z.to_nat from + istep_levels from to step * Z.to_nat step)%nat.
Proof. intros. split; [apply instance_step_tokens; assumption|apply instance_step_count]. Qed.
Print Assumptions C12_instance_step.

(* non-vacuity: a run that starts two instances and is then cut short by out-of-ammo, with
   the third token already drawn *)
Example C12_cut_short_run :
  exists s, srun [SLoop false false; SLoop false false; SLoop false false; SLoop false false;
                  SLoop false false; SLoop false false; SLoop false false; STick 5; SLoop false false;
                  SLoop false false; SLoop false false; SLoop false false; SLoop false false; SCancel OutOfAmmo;
                  SLoop false false] (sinit [0; 5; 100] 0) = Some s
            /\ spc s = LEnd (ECancelled OutOfAmmo) /\ creations s = [(0%nat, 0); (1%nat, 5)].
Proof. eexists. split; [vm_compute; reflexivity|]. vm_compute. split; reflexivity. Qed.

Example C12_instance_step_example :
  istep_tokens 2 8 3 7 = Some [0; 0; 7; 7; 7; 14; 14; 14].
Proof. vm_compute. reflexivity. Qed.

(* ------------------------------------------------------------------------------------------ *)
(* Asynchronous creation (Model/StartAsync.v): the instances after the first one are created in
   their own goroutines (go runNewInstance); a creation may fail (RPS schedule factory, gun factory,
   gun.Bind); the failure reaches awaitRun through runRes and fails the pool, which cancels the start
   context.  Every trace of loop sections, time, cancel sources, creations returning (AResolve) and
   failures being received (AAwait), from any token stream: *)

(* the instances that exist have distinct ids below the number of launched ids; with nothing in
   flight, instances and failed creations together are exactly the ids 0..launched-1 (so without a
   failed creation the ids are consecutive from 0, and every hole is a creation that failed) *)
Theorem C12_async_ids : forall toks l t0 a,
  arun l (ainit toks t0) = Some a ->
  NoDup (live_ids a)
  /\ (forall id, In id (live_ids a) -> (id < length (started (base a)))%nat)
  /\ (quiescent a = true -> Permutation (live_ids a ++ failed a) (seq 0 (length (started (base a))))).
Proof. exact async_ids. Qed.
Print Assumptions C12_async_ids.

(* the instance with id k exists only from the instant of startup token number k on *)
Theorem C12_async_not_ahead : forall toks l t0 a,
  arun l (ainit toks t0) = Some a ->
  forall id c, In (id, c) (live a) -> exists tk, nth_error toks id = Some tk /\ tk <= c.
Proof. exact async_not_ahead. Qed.
Print Assumptions C12_async_not_ahead.

(* an instance that could not be created cuts instance start short: once the failure has been
   received the start context is cancelled (by that AAwait of the trace) ... *)
Theorem C12_async_failure_cancels : forall toks l t0 a,
  arun l (ainit toks t0) = Some a ->
  forall id, In id (failed a) -> cancelled (base a) <> None /\ In (AAwait id) l.
Proof. exact async_failure_cancels. Qed.
Print Assumptions C12_async_failure_cancels.

(* ... and from then on at most one more id is launched: no instance with an id above the number
   launched at that point ever exists *)
Theorem C12_async_cut_is_prompt : forall toks l1 l2 t0 a a',
  arun l1 (ainit toks t0) = Some a -> failed a <> [] -> arun l2 a = Some a' ->
  (length (started (base a')) <= length (started (base a)) + 1)%nat
  /\ (forall id, In id (live_ids a') -> (id <= length (started (base a)))%nat).
Proof. exact async_cut_prompt. Qed.
Print Assumptions C12_async_cut_is_prompt.

(* loop ended, nothing in flight: launched = instances + failed creations; profile exhausted and no
   failed creation => the instances are exactly the ids 0..tokens-1; fewer instances than tokens =>
   start context cancelled by a labelled source occurring in the trace (a received creation failure
   being the source InstanceFailed), or the first instance could not be created, or the profile was
   already exhausted when the received creation failure cancelled the start context *)
Theorem C12_async_all_tokens : forall toks l t0 a e,
  arun l (ainit toks t0) = Some a -> spc (base a) = LEnd e -> quiescent a = true ->
  (length (live a) + length (failed a) = length (started (base a)))%nat
  /\ (e = EExhausted -> failed a = [] -> Permutation (live_ids a) (seq 0 (length toks)))
  /\ ((length (live a) < length toks)%nat ->
      (exists c, e = ECancelled c /\ cancelled (base a) = Some c
                 /\ (In (ABase (SCancel c)) l \/ (c = InstanceFailed /\ exists id, In (AAwait id) l)))
      \/ (e = EFirstCreateFailed /\ live a = [])
      \/ (e = EExhausted /\ failed a <> [] /\ cancelled (base a) <> None
          /\ exists id, In id (failed a) /\ In (AAwait id) l)).
Proof. exact async_all_tokens. Qed.
Print Assumptions C12_async_all_tokens.

(* non-vacuity: instance 1 cannot be created; the failure is received; start is cut short with
   tokens at 10 and 20 never used *)
Example C12_async_failed_creation_run :
  exists a, arun (repeat (ABase (SLoop false false)) 8 ++ [AResolve 1 false; AAwait 1; ABase (SLoop false false)])
                 (ainit [0; 0; 10; 20] 0) = Some a
            /\ spc (base a) = LEnd (ECancelled InstanceFailed) /\ live_ids a = [0%nat] /\ failed a = [1%nat]
            /\ quiescent a = true.
Proof. eexists. split; [vm_compute; reflexivity|]. vm_compute. repeat split; reflexivity. Qed.

(* sensitivity: in the variant where a received creation failure is treated as a normal finish (no
   cancel) the conclusion of C12_async_failure_cancels is false: the profile runs to its end, the
   ids of the instances have a hole and nothing was cancelled *)
Example C12_async_swallowed_failure_differs :
  exists a, arun_swallow (repeat (ABase (SLoop false false)) 8 ++ [AResolve 1 false; AAwait 1]
                          ++ repeat (ABase (SLoop false false)) 3 ++ [ABase (STick 10)]
                          ++ repeat (ABase (SLoop false false)) 2 ++ [AResolve 2 true]
                          ++ repeat (ABase (SLoop false false)) 2)
                 (ainit [0; 0; 10] 0) = Some a
            /\ spc (base a) = LEnd EExhausted /\ live_ids a = [2%nat; 0%nat] /\ failed a = [1%nat]
            /\ cancelled (base a) = None.
Proof. eexists. split; [vm_compute; reflexivity|]. vm_compute. repeat split; reflexivity. Qed.
