(* Property C12 — instance startup profile. Statements only; proofs live in Proofs/StartLoopProofs.v. *)
From Coq Require Import List ZArith Bool Arith.
From PV Require Import Model.StartLoop Model.Instance Proofs.StartLoopProofs.
Import ListNotations.
Local Open Scope Z_scope.

(* Every finite trace of the start loop (any interleaving of its sections with the passing of
   time and with the cancel sources), from any startup token stream: *)

(* ids are 0,1,...,started-1 in creation order, pairwise distinct *)
Theorem C12_ids : forall toks l t0 s,
  srun l (sinit toks t0) = Some s ->
  map fst (creations s) = seq 0 (length (creations s)) /\ NoDup (map fst (creations s)).
Proof. exact ids_consecutive. Qed.
Print Assumptions C12_ids.

(* at every instant t, in every reachable state: instances created by t <= tokens released by t;
   and instance number k is created at or after the instant of token number k *)
Theorem C12_not_ahead : forall toks l t0 s,
  srun l (sinit toks t0) = Some s ->
  (forall t, (started_by t s <= released_by t toks)%nat)
  /\ (forall id c, In (id, c) (started s) -> exists tk, nth_error toks id = Some tk /\ tk <= c).
Proof. intros toks l t0 s H. split; [apply (not_ahead toks l t0 s H)|apply (created_after_token toks l t0 s H)]. Qed.
Print Assumptions C12_not_ahead.

(* no action of the start loop (nor the passing of time, nor a cancel of the start context)
   removes an instance: the list of started instances only grows ... *)
Theorem C12_monotone_loop : forall l s s',
  srun l s = Some s' -> exists new, started s' = new ++ started s.
Proof. exact started_grows. Qed.
Print Assumptions C12_monotone_loop.

(* ... and in the engine model of C03 an instance is changed by its own steps only (not by the
   start loop creating further instances or ending), and leaves its loop only on finding its
   RPS profile exhausted or the ammo gone (cancellation and panics are not in that model). *)
Theorem C12_monotone_instances : forall c a s s',
  apply_action c a s = Some s' ->
  forall i x, nth_error (insts s) i = Some x ->
  exists x', nth_error (insts s') i = Some x'
    /\ (match a with AStep j _ => j <> i | _ => True end -> x' = x)
    /\ (pc x <> Done -> pc x' = Done -> left_of c (sh s) x = 0%nat \/ ammo (sh s) = 0%nat).
Proof. exact instance_kept. Qed.
Print Assumptions C12_monotone_instances.

(* when the loop has ended: all tokens became instances if the profile was exhausted; fewer
   instances than tokens only if the start context was cancelled (by a labelled source) or the
   first instance could not be created *)
Theorem C12_all_tokens : forall toks l t0 s e,
  srun l (sinit toks t0) = Some s -> spc s = LEnd e ->
  (e = EExhausted -> length (started s) = length toks)
  /\ ((length (started s) < length toks)%nat ->
      (exists c, e = ECancelled c /\ cancelled s = Some c /\ In (SCancel c) l)
      \/ (e = EFirstCreateFailed /\ started s = [])).
Proof.
  intros toks l t0 s e H E. destruct (all_tokens toks l t0 s e H E) as [A B]. split; [exact A|].
  intros Hlt. destruct (B Hlt) as [(c & Ec & Cc)|F]; [left|right; exact F].
  exists c. repeat split; auto. eapply cancel_source; eauto.
Qed.
Print Assumptions C12_all_tokens.

(* once the start context is cancelled, at most one more instance is created *)
Theorem C12_cut_is_prompt : forall l s s',
  cancelled s <> None -> srun l s = Some s' -> (length (started s') <= length (started s) + 1)%nat.
Proof. exact cut_prompt. Qed.
Print Assumptions C12_cut_is_prompt.

(* NewInstanceStep(from,to,step,dur): `from` tokens at 0, then `step` tokens at j*dur for every
   j >= 1 with from + j*step <= to (the loop never runs out of fuel) *)
Theorem C12_instance_step : forall from to step dur,
  0 <= from -> 0 <= to -> 1 <= step ->
  istep_tokens from to step dur = Some (istep_spec from to step dur)
  /\ length (istep_spec from to step dur) = (Z.to_nat from + istep_levels from to step * Z.to_nat step)%nat.
Proof. intros. split; [apply instance_step_tokens; assumption|apply instance_step_count]. Qed.
Print Assumptions C12_instance_step.

(* non-vacuity: a run that starts two instances and is then cut short by out-of-ammo, with
   the third token already drawn *)
Example C12_cut_short_run :
  exists s, srun [SLoop false false; SLoop false false; SLoop false false; SLoop false false;
                  SLoop false false; SLoop false false; SLoop false false; STick 5; SLoop false false;
                  SLoop false false; SLoop false false; SLoop false false; SLoop false false; SCancel OutOfAmmo;
                  SLoop false false] (sinit [0; 5; 100] 0) = Some s
            /\ spc s = LEnd (ECancelled OutOfAmmo) /\ creations s = [(0%nat, 0); (1%nat, 5)].
Proof. eexists. split; [vm_compute; reflexivity|]. vm_compute. split; reflexivity. Qed.

Example C12_instance_step_example :
  istep_tokens 2 8 3 7 = Some [0; 0; 7; 7; 7; 14; 14; 14].
Proof. vm_compute. reflexivity. Qed.
