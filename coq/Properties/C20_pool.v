(* C20 (round 8): "every grpc/json ammo entry … the server receives a call to exactly the named method whose request
   message equals the entry's JSON payload … with the entry's metadata … does not disturb other entries" — at the level
   of the ammo OBJECTS: the provider decodes every line into a pooled object that instances give back after the shot
   (or after discarding the token under discard_overflow); an object given back twice would be handed to the decoder for
   two lines while an earlier line is still queued in it.  Model/GrpcPool.v, proofs Proofs/GrpcPoolProofs.v. *)
From Coq Require Import List Arith.
From PV Require Import Model.GrpcPool Proofs.GrpcPoolProofs.
Import ListNotations.

(* ANY content type, ANY file, ANY interleaving of the decoder's steps (with any choice of the pool) and of the
   instances' acquire / shoot / discard / release steps: with ONE release per acquire (extra = 0) what the guns read
   through the pooled objects is what the value-level specification shoots — the line that was acquired; enabledness
   agrees too (both sides are defined on the same event lists) *)
Theorem C20_pooled_object_is_the_line : forall (A : Type) (input : list A) (evs : list ev),
  option_map (@ps_out A) (prun 0 (pinit input) evs) = option_map (@vs_out A) (vrun (vinit input) evs).
Proof. exact pool_refines. Qed.
Print Assumptions C20_pooled_object_is_the_line.

(* the specification side: lines are handed out in file order (acquired ++ queued ++ not yet decoded = the file), every
   line that is shot is a line that was acquired, and a discarded token sends nothing *)
Theorem C20_lines_in_file_order : forall (A : Type) (input : list A) (evs : list ev) (v : vstate A),
  vrun (vinit input) evs = Some v ->
  vs_acq v ++ vs_queue v ++ vs_rest v = input /\
  (forall a, In a (shots_of (vs_out v)) -> In a (vs_acq v)) /\
  length (shots_of (vs_out v)) <= length (vs_out v).
Proof. exact lines_in_file_order. Qed.
Print Assumptions C20_lines_in_file_order.

(* the hypothesis "one release" is needed: a second Release in the discard branch (extra = 1) and the same events give
   line 3 twice and line 2 never — the model distinguishes the two; with extra = 0 the run is the specified one *)
Theorem C20_double_release_refuted :
  option_map (@ps_out nat) (prun 1 (pinit [1; 2; 3; 4]) double_release_events) = Some [Discarded; Shot 3; Shot 3] /\
  option_map (@vs_out nat) (vrun (vinit [1; 2; 3; 4]) double_release_events) = Some [Discarded; Shot 2; Shot 3] /\
  option_map (@ps_out nat) (prun 0 (pinit [1; 2; 3; 4]) double_release_events) = Some [Discarded; Shot 2; Shot 3].
Proof. exact double_release_refuted. Qed.
Print Assumptions C20_double_release_refuted.

(* `extra_releases` is defined only for "exactly one deferred Release" and then counts the others *)
Theorem C20_release_sites_shape : forall sites n, extra_releases sites = Some n ->
  length (filter (fun s => snd s) sites) = 1 /\ n = length (filter (fun s => negb (snd s)) sites).
Proof. exact extra_releases_shape. Qed.
Print Assumptions C20_release_sites_shape.

(* non-vacuity: a run with a discarded token, an object taken from the pool again and two instances is defined *)
Example C20_pool_run_example :
  option_map (@ps_out nat) (prun 0 (pinit [7; 8; 9])
    [EDecode 0; EDecode 0; EAcquire 0; EAcquire 1; EDiscard 0; ERelease 0; EDecode 0; EShoot 1; ERelease 1; EAcquire 0; EShoot 0])
  = Some [Discarded; Shot 8; Shot 9].
Proof. vm_compute. reflexivity. Qed.

(* "each entry once": for a file whose lines are pairwise different (tags, say) and instances that follow the program of
   instance.Run (acquire; shoot OR discard, once; release) in any interleaving, no line is sent twice *)
Theorem C20_line_sent_at_most_once : forall (A : Type) (input : list A), NoDup input ->
  forall (evs : list ev) (v : vstate A), disciplined evs = true -> vrun (vinit input) evs = Some v ->
  NoDup (shots_of (vs_out v)).
Proof. exact sent_at_most_once. Qed.
Print Assumptions C20_line_sent_at_most_once.

(* non-vacuity: the events of the examples are disciplined and defined *)
Example C20_disciplined_example :
  disciplined double_release_events = true /\
  option_map (@vs_out nat) (vrun (vinit [1; 2; 3; 4]) double_release_events) = Some [Discarded; Shot 2; Shot 3].
Proof. split; vm_compute; reflexivity. Qed.
