(* Property C02 - nested composite schedules under concurrent callers.  Statements only; proofs
   live in Proofs/SchedNested*.v.

   Properties/C02.v proves the concurrent theorem for ONE composite whose child operations are
   atomic steps (C02_conc_flat; C02_conc_nested_partial for children of any shape TAKEN as atomic).
   Here the children are composites with their own RWMutex, to any depth, and a child operation
   made under the parent's read lock is NOT atomic: it is an interleaved sequence of the child's
   own sections (Model/SchedNested.v):

     pc of a thread = one pc per nesting level ([npc]: QIn q = holds this composite's read lock
     while its operation on scheds[0] is at pc q; QN1 / QL1 = wants this composite's write lock);
     read sections of different threads overlap freely; a write section of a composite is a step
     that is enabled only while no other thread holds that composite's read lock ([others] = 0 -
     what sync.RWMutex guarantees), hence while no other thread is anywhere below it; the child
     calls inside a write section then run alone and are the sequential s_start / s_next
     (C02_nested_solo_next / _left: a solo run of the nested steps IS s_next / s_left).

   [nireach] = all finite interleavings, every step reading any clock value not before the
   previous one; the ghost history [ni_log] records each operation in the step in which it
   returns (the leaf operation that decided its result happens in that step).
   [nconc_conclusion] (Proofs/SchedNestedCor.v): no step panics or exceeds its recursion budget;
   the ghost history is a legal sequential history of the abstract token stream of the
   FLATTENED tree (run_abs ... = results, so every Left value is abs_left at its linearisation
   point); every thread got exactly the results of its own operations, in program order; all
   Next results are the successive abs_next answers of the stream. *)
From Coq Require Import List ZArith Bool Arith Lia.
From PV Require Import Model.SchedTree Model.SchedConc Model.SchedNested
  Proofs.SchedTreeProofs Proofs.SchedTreeSeq Proofs.SchedTreeRun Proofs.SchedTreeSpec
  Proofs.SchedConcSections Proofs.SchedConcProofs Proofs.SchedConcCor
  Proofs.SchedNestedSections Proofs.SchedNestedSteps Proofs.SchedNestedProofs Proofs.SchedNestedCor
  Proofs.SchedNestedSolo.
Import ListNotations.
Local Open Scope Z_scope.

(* ------------------------------------------------------------------ the theorem *)
(* Every tree of leaves and composites as the constructors leave it ([fresh]: any depth, any
   shapes, unknown-length parts anywhere), any number of threads, any programs of Next / Left,
   every interleaving of the nested sections. *)
Theorem C02_conc_nested : forall fuel c0 lo0 ths st,
  fresh c0 -> comp_len c0 <> 0%nat -> (size c0 <= S fuel)%nat -> ninit_threads ths ->
  nireach fuel {| ni_g := {| ng_c := c0; ng_lo := lo0; ng_threads := ths |};
                  ni_a := a_init (flatten c0); ni_log := [] |} st ->
  nconc_conclusion fuel c0 lo0 ths st.
Proof. exact conc_nested. Qed.
Print Assumptions C02_conc_nested.

(* the same when Start(t0) was called before the callers run *)
Theorem C02_conc_nested_started : forall fuel c0 c1 lo0 t0 ths st,
  fresh c0 -> comp_len c0 <> 0%nat -> (size c0 <= S fuel)%nat -> ninit_threads ths ->
  s_start t0 c0 = Ok c1 ->
  nireach fuel {| ni_g := {| ng_c := c1; ng_lo := lo0; ng_threads := ths |};
                  ni_a := a_start t0 (a_init (flatten c0));
                  ni_log := [(0%nat, (lo0, OStart t0), RStart)] |} st ->
  nconc_conclusion fuel c0 lo0 ths st.
Proof. exact conc_nested_started. Qed.
Print Assumptions C02_conc_nested_started.

(* from the configuration: whatever NewComposite builds from any configuration tree (it never
   panics), when that is a composite; the stream is the one of the flattened configuration *)
Theorem C02_conc_nested_cfg : forall cfg fuel now0,
  (size_cfg cfg <= S fuel)%nat ->
  exists c0, build (S fuel) now0 cfg = Ok c0 /\ flatten c0 = flatten_cfg cfg /\
    (comp_len c0 <> 0%nat -> forall lo0 ths st, ninit_threads ths ->
       nireach fuel {| ni_g := {| ng_c := c0; ng_lo := lo0; ng_threads := ths |};
                       ni_a := a_init (flatten_cfg cfg); ni_log := [] |} st ->
       nconc_conclusion fuel c0 lo0 ths st).
Proof. exact conc_nested_cfg. Qed.
Print Assumptions C02_conc_nested_cfg.

(* ------------------------------------------------------------------ one step, at any depth *)
(* What a single step does, for a thread whose pc [q] is valid ([Jq]) in a started tree: it does
   not panic; the composite keeps its finish time and an exhausted stream stays exhausted
   ([sevol]); the pcs of all threads that can coexist with the step (a thread holding a read
   lock excludes the write sections above it: depth_in q2 <= others) stay valid; and the step is
   a pop (Next returns abs_next), a Left (returns abs_left), or a stutter of the stream of the
   composite - proved by induction on q, i.e. through all nesting levels. *)
Theorem C02_conc_nested_step : forall fuel q c lo now o others r0,
  wf c -> started c -> comp_len c <> 0%nat -> (size c <= S fuel)%nat -> lo <= now ->
  Jq lo c q ->
  nsec fuel now o others q c = Some r0 ->
  exists c' out, r0 = Ok (c', out) /\ wf c' /\ started c' /\ comp_len c' <> 0%nat /\ (size c' <= size c)%nat /\
    sevol lo now c c' /\
    (forall q2, (depth_in q2 <= others)%nat -> Jq lo c q2 -> Jq now c' q2) /\
    match out with
    | NRetN t ok => o = ONext /\ exists its', abs_next now (afin 0 c) (absp 0 c) = (its', t, ok) /\
                                             drop_closed now its' = drop_closed now (absp 0 c')
    | NRetL v => o = OLeft /\ v = abs_left now (absp 0 c) /\
                 drop_closed now (absp 0 c') = drop_closed now (absp 0 c)
    | NGoto q' => drop_closed now (absp 0 c') = drop_closed now (absp 0 c) /\ Jq now c' q'
    end.
Proof. exact nsec_S. Qed.
Print Assumptions C02_conc_nested_step.

(* ------------------------------------------------------------------ the model is the right one *)
(* the ghost constrains nothing: every step of the uninstrumented system has its instrumented
   counterpart *)
Theorem C02_nested_ghost_erasable : forall fuel st g',
  ngstep fuel (ni_g st) g' -> exists st', nistep fuel st st' /\ ni_g st' = g'.
Proof. exact ngstep_lift. Qed.
Print Assumptions C02_nested_ghost_erasable.

(* on a composite whose head is a leaf the nested step is exactly the section of
   Model/SchedConc.v (the flat model is the depth-1 instance) *)
Theorem C02_nested_extends_flat : forall fuel now o p h r la cs,
  is_comp h = false ->
  nsec fuel now o 0 (lift_pc p) (Comp (h :: r) la cs) =
  match thread_section fuel now (Comp (h :: r) la cs) {| t_pc := p; t_todo := [o]; t_hist := [] |} with
  | Some x => Some (lift_res x)
  | None => None
  end.
Proof. exact nsec_flat. Qed.
Print Assumptions C02_nested_extends_flat.

(* the child calls inside write sections: a thread that runs ALONE through the nested steps of a
   composite (others = 0, one clock value; [solo] = its non-returning steps followed by the
   returning one) obtains exactly the result and leaves exactly the tree of the sequential
   s_next / s_left - so writing s_next in the write section loses nothing *)
Theorem C02_nested_solo_next : forall fuel now f c c' t ok,
  (f <= S fuel)%nat -> good fuel now c QIdle -> s_next f now c = Ok (c', t, ok) ->
  solo fuel now ONext QIdle c c' (NRetN t ok).
Proof. exact solo_next. Qed.
Print Assumptions C02_nested_solo_next.

Theorem C02_nested_solo_left : forall fuel now f c c' v,
  (f <= S fuel)%nat -> good fuel now c QIdle -> s_left f now c = Ok (c', v) ->
  solo fuel now OLeft QIdle c c' (NRetL v).
Proof. exact solo_left. Qed.
Print Assumptions C02_nested_solo_left.

(* and the solo run is unique *)
Theorem C02_nested_solo_det : forall fuel now o q c c1 out1 c2 out2,
  solo fuel now o q c c1 out1 -> solo fuel now o q c c2 out2 -> c1 = c2 /\ out1 = out2.
Proof. exact solo_det. Qed.
Print Assumptions C02_nested_solo_det.

(* ------------------------------------------------------------------ consequences *)
(* exactly once: without unlimited parts the Next results of ALL threads, in linearisation order,
   are the tokens of the flattened tree, each once, in order, then the finish *)
Theorem C02_conc_nested_exactly_once : forall fuel c0 lo0 ths st,
  nconc_conclusion fuel c0 lo0 ths st -> existsb unknown_part (flatten c0) = false ->
  exists p, let its := fst (items_from p (flatten c0)) in let f := snd (items_from p (flatten c0)) in
    let n := length (next_nows (map evt (ni_log st))) in
    next_results (map eres (ni_log st)) =
    firstn n (map (fun x => (tok_time x, true)) its) ++ repeat (f, false) (n - length its).
Proof. exact nconc_exactly_once. Qed.
Print Assumptions C02_conc_nested_exactly_once.

(* per-thread monotone times (well-behaved leaves, unlimited parts included) *)
Theorem C02_conc_nested_thread_mono : forall fuel c0 lo0 ths st,
  nconc_conclusion fuel c0 lo0 ths st ->
  Forall leaf_ok (flatten c0) -> Forall unstarted (flatten c0) ->
  exists p, forall i th, nth_error (ng_threads (ni_g st)) i = Some th ->
    nondecr p (next_results (n_hist th)).
Proof. exact nconc_thread_mono. Qed.
Print Assumptions C02_conc_nested_thread_mono.

(* after exhaustion every call of every thread returns the same finish time *)
Theorem C02_conc_nested_finish_stable : forall fuel c0 lo0 ths st,
  nconc_conclusion fuel c0 lo0 ths st ->
  exists f, forall j x, nth_error (next_results (map eres (ni_log st))) j = Some x -> snd x = false ->
    forall j' x', (j <= j')%nat -> nth_error (next_results (map eres (ni_log st))) j' = Some x' -> x' = (f, false).
Proof. exact nconc_finish_stable. Qed.
Print Assumptions C02_conc_nested_finish_stable.

(* ------------------------------------------------------------------ non-vacuity *)
(* A depth-2 tree: root = composite[ A = composite[1 token / 10 ns; 1 token / 10 ns],
   B = composite[2 tokens / 10 ns; 0 tokens / 5 ns] ], three threads, and one concrete interleaving
   (thread, clock) run by the executable scheduler [nirun] (every run of it is an [nireach]):
     T0, T1 take the root's read lock; T0 draws A's first token; T1 finds A's first part
     exhausted and waits for A's write lock while still holding the root's read lock; T2 takes the
     root's read lock for a Left; T0 comes back, also finds the part exhausted; T1 shifts A under
     A's write lock (T0, T2 are not below A) and draws; T0 then finds A exhausted and wants the
     ROOT's write lock - which it cannot get while T2 is inside the root's read section
     (first conjunct: no step); T2 finishes its Left; T0 shifts the root to B; ... until the
     stream is drained.  The hypotheses of C02_conc_nested hold, so its conclusion does. *)
Example C02_conc_nested_example :
  let lf := fun (n : nat) (d : Z) => DoAt n d (fun k => Z.of_nat k) 0 None in
  let cA := Comp [lf 1%nat 10; lf 1%nat 10] (la_of [lf 1%nat 10; lf 1%nat 10]) false in
  let cB := Comp [lf 2%nat 10; lf 0%nat 5] (la_of [lf 2%nat 10; lf 0%nat 5]) false in
  let root := Comp [cA; cB] (la_of [cA; cB]) false in
  let th := fun l => {| n_pc := QIdle; n_todo := l; n_hist := [] |} in
  let ths := [th [ONext; ONext; OLeft]; th [ONext; OLeft; ONext]; th [OLeft; ONext]] in
  let st0 := {| ni_g := {| ng_c := root; ng_lo := 0; ng_threads := ths |}; ni_a := a_init (flatten root); ni_log := [] |} in
  let sch1 : list (nat * Z) := [(0%nat, 100); (1%nat, 100); (0%nat, 101); (1%nat, 102); (2%nat, 103); (0%nat, 104); (0%nat, 105); (1%nat, 106); (0%nat, 107)] in
  let sch2 : list (nat * Z) := [(2%nat, 108); (0%nat, 109); (0%nat, 110); (1%nat, 110); (1%nat, 111); (0%nat, 112); (2%nat, 113); (2%nat, 114);
               (1%nat, 115); (1%nat, 116); (1%nat, 117); (1%nat, 118)] in
  (exists st1, nirun 6 st0 sch1 = Some st1 /\
     map n_pc (ng_threads (ni_g st1)) = [QN1 121 2; QIdle; QIn QIdle] /\
     nistep_fn 6 st1 0%nat 108 = None) /\
  exists st, nirun 6 st0 (sch1 ++ sch2) = Some st /\
    map n_pc (ng_threads (ni_g st)) = [QIdle; QIdle; QIdle] /\
    map n_todo (ng_threads (ni_g st)) = [[]; []; []] /\
    map n_hist (ng_threads (ni_g st)) =
      [[RNext 101 true; RNext 121 true; RLeft 1]; [RNext 111 true; RLeft 1; RNext 136 false]; [RLeft 2; RNext 122 true]] /\
    map eres (ni_log st) =
      [RNext 101 true; RNext 111 true; RLeft 2; RNext 121 true; RLeft 1; RLeft 1; RNext 122 true; RNext 136 false] /\
    nconc_conclusion 6 root 0 ths st.
Proof.
  intros lf cA cB root th ths st0 sch1 sch2. split.
  - assert (H : option_map (fun st => (map n_pc (ng_threads (ni_g st)), nistep_fn 6 st 0%nat 108)) (nirun 6 st0 sch1)
                = Some ([QN1 121 2; QIdle; QIn QIdle], None)) by (vm_compute; reflexivity).
    destruct (nirun 6 st0 sch1) as [st1|]; [|discriminate]. exists st1. split; [reflexivity|].
    cbn [option_map] in H. injection H as H1 H2. split; assumption.
  - assert (H : option_map (fun st => (map n_pc (ng_threads (ni_g st)), map n_todo (ng_threads (ni_g st)),
                                       map n_hist (ng_threads (ni_g st)), map eres (ni_log st)))
                           (nirun 6 st0 (sch1 ++ sch2))
                = Some ([QIdle; QIdle; QIdle], [[]; []; []],
                        [[RNext 101 true; RNext 121 true; RLeft 1]; [RNext 111 true; RLeft 1; RNext 136 false]; [RLeft 2; RNext 122 true]],
                        [RNext 101 true; RNext 111 true; RLeft 2; RNext 121 true; RLeft 1; RLeft 1; RNext 122 true; RNext 136 false]))
      by (vm_compute; reflexivity).
    destruct (nirun 6 st0 (sch1 ++ sch2)) as [st|] eqn:E; [|discriminate]. exists st. split; [reflexivity|].
    cbn [option_map] in H. injection H as H1 H2 H3 H4. repeat (split; [assumption|]).
    eapply conc_nested; [| | | |eapply nirun_reach; exact E].
    + apply (fr_comp [_; _]); [|discriminate].
      constructor; [apply (fr_comp [_; _]); [repeat constructor|discriminate]|].
      constructor; [apply (fr_comp [_; _]); [repeat constructor|discriminate]|constructor].
    + cbn. discriminate.
    + cbn. lia.
    + repeat constructor.
Qed.

(* the hypotheses of the solo theorem are satisfiable: composite[ composite[0 tokens / 10 ns; 1 token / 5 ns];
   1 token / 1 ns ] run alone at clock 7 (read lock of the root, inner part exhausted, inner shift, token at 17) *)
Example C02_nested_solo_example :
  let lf := fun (n : nat) (d : Z) => DoAt n d (fun k => Z.of_nat k) 0 None in
  let cB := Comp [lf 0%nat 10; lf 1%nat 5] (la_of [lf 0%nat 10; lf 1%nat 5]) false in
  let root := Comp [cB; lf 1%nat 1] (la_of [cB; lf 1%nat 1]) false in
  good 4 7 root QIdle /\
  exists c', s_next 4 7 root = Ok (c', 17, true) /\ solo 4 7 ONext QIdle root c' (NRetN 17 true).
Proof.
  intros lf cB root.
  assert (G : good 4 7 root QIdle).
  { split; [|split; [cbn; discriminate|split; [cbn; lia|exact I]]].
    apply fresh_wf. apply (fr_comp [_; _]); [|discriminate].
    constructor; [apply (fr_comp [_; _]); [repeat constructor|discriminate]|repeat constructor]. }
  split; [exact G|].
  assert (H : match s_next 4 7 root with Ok (_, t, ok) => Some (t, ok) | _ => None end = Some (17, true))
    by (vm_compute; reflexivity).
  destruct (s_next 4 7 root) as [[[c' t] ok]| |] eqn:E; try discriminate. injection H as -> ->.
  exists c'. split; [reflexivity|]. eapply solo_next; [|exact G|exact E]. lia.
Qed.
