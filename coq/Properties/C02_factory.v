(* Property C02 - "any schedule": schedules made by a schedule factory.  Statements only; proofs live
   in Proofs/SchedFactoryProofs.v.

   pandora hands the engine schedule FACTORIES decoded from the configuration (pool option `rps`, called
   once per instance with rps-per-instance).  Model/SchedFactory.v: a factory call runs the constructors
   again ([build]); K schedules of one factory, operations (instance, clock, Start / Next / Left) in any
   order by one caller ([sys_run]; an instance that panicked is dead). *)
From Coq Require Import List ZArith Bool Arith Lia.
From PV Require Import Model.SchedTree Model.SchedConc Model.SchedFactory
  Proofs.SchedTreeProofs Proofs.SchedTreeSeq Proofs.SchedTreeRun Proofs.SchedFactoryProofs.
Import ListNotations.
Local Open Scope Z_scope.

(* Every configuration tree, any number K of factory calls, every interleaved sequence of operations
   with a non-decreasing clock: all K constructions succeed and what instance j observes is exactly
   what the abstract token stream of the configuration answers to ITS OWN operations ([run_abs], the
   specification of C02_seq_refines) - its tokens exactly once, its Left dropping by one per token
   drawn from IT, its parts chained from ITS start - whatever is done with its siblings. *)
Theorem C02_factory_independent : forall c fuel now0 k,
  (size_cfg c <= fuel)%nat ->
  exists ss, sys_init fuel now0 c k = Ok ss /\ length ss = k /\
    forall lo ops, clock_ok lo (map snd ops) ->
    forall j, (j < k)%nat ->
      proj_obs j (sys_run fuel ss ops) = run_abs (a_init (flatten_cfg c)) (proj_ops j ops).
Proof. exact factory_independent. Qed.
Print Assumptions C02_factory_independent.

(* the projection lemma on any system state *)
Theorem C02_factory_projection : forall fuel j ops ss,
  proj_obs j (sys_run fuel ss ops) =
  match nth_error ss j with
  | Some (Some s) => run_tree fuel s (proj_ops j ops)
  | _ => []
  end.
Proof. exact sys_run_proj. Qed.
Print Assumptions C02_factory_projection.

(* Non-vacuity: [once(2); const(1 rps, 2 s)], three schedules of one factory; instance 0 is drained,
   the Left of the untouched siblings stays 4, instance 1 started later gets its own tokens. *)
Example C02_factory_example :
  clock_ok 0 (map snd fx_ops) /\
  match sys_init 5 0 fx_cfg 3 with Ok ss => sys_run 5 ss fx_ops | _ => [] end =
      [(0, RStart); (1, RLeft 4); (0, RNext 0 true); (1, RLeft 4); (2, RLeft 4); (0, RNext 0 true);
       (0, RNext 0 true); (0, RNext 1000 true); (0, RNext 2000 false); (1, RLeft 4); (1, RStart);
       (1, RNext 7 true); (0, RLeft 0); (2, RLeft 4)]%nat.
Proof. exact factory_example. Qed.
Print Assumptions C02_factory_example.
