(* Property C11 — instance isolation and data-race freedom. Statements only.
   PARTIAL by design: freedom from data races at the level of the Go memory model cannot be
   exhibited by an executable Gallina model.  What is proved is (a) the ownership discipline of
   the engine-level model and (b) the isolation / information-flow discipline of the hand-written
   footprint table of the scenario components; the race detector run of the check is only a
   failing-schedule search and a cross-check that the table is not missing a write. *)
From Coq Require Import List NArith ZArith Bool Arith.
From PV Require Import Model.GunOwner Model.ScenarioHeap Proofs.GunOwnerProofs Proofs.ScenarioHeapProofs
  Model.GrpcCall Proofs.GrpcCallProofs Model.AmmoOwner Proofs.AmmoOwnerProofs.
Import ListNotations.

(* (a) Every trace of the engine model — any interleaving of any number of instances, each running
   Make; Bind; (Start; End)* over a shared supply of fresh gun objects, plus unbound (warm-up)
   guns — satisfies: the factory never hands out an object twice; an instance binds one gun and a
   gun is bound by one instance; only bound guns are shot; all Shoot calls on a gun come from one
   goroutine and a goroutine shoots one gun; Shoot calls on a gun never overlap. *)
Theorem C11_gun_exclusive :
  forall tr st, orun oinit tr = Some st ->
  NoDup (makes_of tr) /\
  (forall i g g', In (i, g) (binds_of tr) -> In (i, g') (binds_of tr) -> g = g') /\
  (forall i i' g, In (i, g) (binds_of tr) -> In (i', g) (binds_of tr) -> i = i') /\
  (forall r g, In (r, g) (starts_of tr) -> exists i, In (i, g) (binds_of tr)) /\
  (forall r r' g, In (r, g) (starts_of tr) -> In (r', g) (starts_of tr) -> r = r') /\
  (forall r g g', In (r, g) (starts_of tr) -> In (r, g') (starts_of tr) -> g = g') /\
  (forall g, alt_run g false tr <> None).
Proof. exact gun_exclusive. Qed.
Print Assumptions C11_gun_exclusive.

(* meaning of the executable check the correspondence run applies to the traces recorded on the
   real engine *)
Theorem C11_exclusive_b_sound :
  forall tr, exclusive_b tr = true ->
  NoDup (makes_of tr) /\
  (forall i g g', In (i, g) (binds_of tr) -> In (i, g') (binds_of tr) -> g = g') /\
  (forall i i' g, In (i, g) (binds_of tr) -> In (i', g) (binds_of tr) -> i = i') /\
  (forall r g, In (r, g) (starts_of tr) -> exists i, In (i, g) (binds_of tr)) /\
  (forall r r' g, In (r, g) (starts_of tr) -> In (r', g) (starts_of tr) -> r = r') /\
  (forall r g g', In (r, g) (starts_of tr) -> In (r, g') (starts_of tr) -> g = g') /\
  (forall g, alt_run g false tr <> None).
Proof. exact exclusive_b_sound. Qed.
Print Assumptions C11_exclusive_b_sound.

(* (a') Ammo objects: every trace of the instance loops  Acquire; …; Release  (one object at a time
   per instance) satisfies, for every ammo object: Acquire and Release alternate and each Release is
   by the goroutine of the preceding Acquire — an object is held by at most one instance between
   Acquire and Release and is handed back exactly once (so a provider that recycles released
   objects never gives one object to two instances). *)
Theorem C11_ammo_exclusive :
  forall tr st, arun [] tr = Some st -> forall a, obj_run a None tr <> None.
Proof. exact ammo_exclusive. Qed.
Print Assumptions C11_ammo_exclusive.

Theorem C11_ammo_exclusive_b_sound :
  forall tr, ammo_exclusive_b tr = true -> forall a, obj_run a None tr <> None.
Proof. exact ammo_exclusive_b_sound. Qed.
Print Assumptions C11_ammo_exclusive_b_sound.

(* (b) FULL over the footprint table: for any two operations of different instances (any step
   definitions, any instance numbers), a cell written by one and read or written by the other is
   one of the synchronised objects (NextIterator under its mutex, atomic counters, the sync.Map
   template cache, sync.Pool, the locked global rand source). *)
Theorem C11_isolation :
  forall (a b : op) (c : cell),
    inst_of a <> inst_of b -> In c (writes a) -> In c (reads b ++ writes b) -> synchronised c = true.
Proof. exact isolation. Qed.
Print Assumptions C11_isolation.

(* every operation writes only shared cells and its own instance's cells, reads no other
   instance's private cell, and what it stores into a shared cell depends on shared cells only *)
Theorem C11_flow_discipline : forall o : op, flow_ok_b o = true.
Proof. exact flow_ok_all. Qed.
Print Assumptions C11_flow_discipline.

(* The functional corollary: for ANY semantics of the operations that respects the footprint table,
   any sequence of operations of any instances (any interleaving), and two initial stores that
   differ only in the private cells of instance A (its variables, its rendered parts, its clone,
   its caches): the final stores still differ only there.  In particular what another instance B
   renders (CParts B) and every shared definition do not depend on A's variables. *)
Theorem C11_noninterference :
  forall (value : Type) (sem : op -> store value -> store value) (A : nat) (ops : list op),
    (forall o, In o ops -> respects value sem o) ->
    forall s1 s2, agree_except value A s1 s2 ->
      agree_except value A (run_ops value sem ops s1) (run_ops value sem ops s2).
Proof. exact noninterference. Qed.
Print Assumptions C11_noninterference.

Corollary C11_render_independent :
  forall (value : Type) (sem : op -> store value -> store value) (A B : nat) (ops : list op),
    A <> B -> (forall o, In o ops -> respects value sem o) ->
    forall s1 s2, agree_except value A s1 s2 ->
      run_ops value sem ops s1 (CParts B) = run_ops value sem ops s2 (CParts B) /\
      forall d, run_ops value sem ops s1 (CMetaMap d) = run_ops value sem ops s2 (CMetaMap d) /\
                run_ops value sem ops s1 (CHeaderMap d) = run_ops value sem ops s2 (CHeaderMap d) /\
                run_ops value sem ops s1 (CStepDef d) = run_ops value sem ops s2 (CStepDef d).
Proof.
  intros value sem A B ops HAB Hr s1 s2 Hag.
  pose proof (noninterference value sem A ops Hr s1 s2 Hag) as H.
  split; [apply H; cbn; congruence|].
  intros d. repeat split; apply H; cbn; discriminate.
Qed.
Print Assumptions C11_render_independent.

(* the gRPC scenario step as a content-level instance (proved for C20, restated for isolation):
   whatever guns, interleaving and variables, the shared metadata heap is returned unchanged *)
Theorem C11_grpc_shared_heap_unchanged :
  forall (desc msg tmpl vars : Type) (parse_t : gbytes -> option tmpl) (exec_t : tmpl -> vars -> option gbytes)
         (fits_text : desc -> gbytes -> option msg) h defs (t : mtable desc) timeout (evs : list (sevent vars)),
    steps_wf h defs ->
    forall guns : list (sgun desc tmpl),
    Forall (gun_ok desc tmpl parse_t h defs t timeout) guns ->
    Forall (fun e => In (ev_step vars e) defs /\ ev_inst vars e < length guns) evs ->
    fst (fst (run_events desc msg tmpl vars parse_t exec_t fits_text h guns evs)) = h.
Proof.
  intros. destruct (run_events_spec desc msg tmpl vars parse_t exec_t fits_text h defs t timeout evs H guns H0 H1) as [g' [E _]].
  rewrite E. reflexivity.
Qed.
Print Assumptions C11_grpc_shared_heap_unchanged.

(* ---------- non-vacuity ---------- *)

(* a trace of two instances that the model accepts (warm-up gun 0 is never bound) *)
Example C11_trace_example :
  orun oinit [OMake 0; OMake 1; OBind 0 1; OMake 2; OBind 1 2; OStart 0 1; OStart 1 2; OEnd 1 2; OEnd 0 1; OStart 0 1; OEnd 0 1] <> None /\
  (* … and two overlapping Shoot calls on one gun, or a second goroutine on it, are rejected *)
  orun oinit [OMake 0; OBind 0 0; OStart 0 0; OStart 0 0] = None /\
  orun oinit [OMake 0; OBind 0 0; OStart 0 0; OEnd 0 0; OStart 1 0] = None /\
  exclusive_b [OMake 0; OBind 0 0; OStart 0 0; OStart 1 0] = false.
Proof. repeat split; vm_compute; congruence. Qed.

(* an accepted ammo trace; a double release and a hand-out of a held object are rejected *)
Example C11_ammo_example :
  arun [] [AAcq 0 0; AAcq 1 1; ARel 0 0; AAcq 0 0; ARel 1 1; ARel 0 0] <> None /\
  arun [] [AAcq 0 0; ARel 0 0; ARel 0 0] = None /\
  arun [] [AAcq 0 0; AAcq 1 0] = None /\
  ammo_exclusive_b [AAcq 0 0; ARel 0 0; ARel 0 0] = false.
Proof. repeat split; vm_compute; congruence. Qed.

(* the table is not vacuous: the same write WITHOUT the copy (the shape of the repaired defect:
   rendering into the shared metadata map) is rejected by the isolation check *)
Example C11_isolation_example :
  isolated_b (OpGRPCTemplate 0 3) (OpGRPCCopyMeta 1 3) = true /\
  (let bad_writes := [CMetaMap 3] in
   forallb (fun c => negb (mem_cell c (reads (OpGRPCCopyMeta 1 3) ++ writes (OpGRPCCopyMeta 1 3))) || synchronised c) bad_writes = false).
Proof. split; vm_compute; reflexivity. Qed.
