(* Property C19, the grpc/scenario gun (Model/RobustGrpcScn.v): whatever the calls of a scenario end with - any
   status, a target that refuses or vanishes, an answer the postprocessors reject, a payload that does not fit - the
   shot returns, every executed call is one sample carrying the mapped status, a failed CALL does not end the
   scenario (a step ERROR does), and the instance goes on.  Statements only; proofs in Proofs/RobustGrpcScnProofs.v. *)
From Coq Require Import List ZArith Bool.
From PV Require Import Model.Robust Model.RobustGrpcScn Proofs.RobustProofs Proofs.RobustGrpcScnProofs.
Import ListNotations.
Local Open Scope Z_scope.

Theorem C19_grpc_scenario_total : forall steps, Forall gstep_safe steps ->
  exists l, grpc_scn_shoot steps = Returned l /\ length l = grpc_scn_executed steps /\
            Forall (fun sm => sm_err sm = false) l.
Proof. exact grpc_scn_shoot_total. Qed.
Print Assumptions C19_grpc_scenario_total.

(* a call that fails with any status is a sample with that status and the next call follows *)
Theorem C19_grpc_scenario_failed_call_goes_on : forall s code, gs_pre s = Done tt -> gs_tmpl_ok s = true ->
  gs_method_ok s = true -> gs_payload_ok s = true -> gs_code s = code -> run_pps (gs_pps s) = Done tt ->
  forall r acc, grpc_scn_steps (s :: r) acc = grpc_scn_steps r (acc ++ [gsample code]).
Proof. exact grpc_scn_failed_call_goes_on. Qed.
Print Assumptions C19_grpc_scenario_failed_call_goes_on.

(* with the modelled postprocessor (assert/response on any answer incl. nil, any status) no hypothesis is left *)
Theorem C19_grpc_scenario_modelled_safe : forall tmpl method payload code out asserts,
  gstep_safe (mk_gstep tmpl method payload code out asserts).
Proof. exact mk_gstep_safe. Qed.
Print Assumptions C19_grpc_scenario_modelled_safe.

Theorem C19_instance_survives_grpc_scenario : forall scenarios, Forall (Forall gstep_safe) scenarios ->
  snd (instance_run (map grpc_scn_shoot scenarios)) = false /\
  length (fst (instance_run (map grpc_scn_shoot scenarios))) = fold_right (fun st n => (grpc_scn_executed st + n)%nat) O scenarios.
Proof. exact instance_grpc_scn_survives. Qed.
Print Assumptions C19_instance_survives_grpc_scenario.

(* non-vacuity: OK, then Unavailable (no postprocessor: goes on), then Internal with an assertion on the payload (nil
   answer: step error, scenario ends), the fourth call is not made *)
Example C19_example_grpc_scenario :
  grpc_scn_shoot [mk_gstep true true true 200 (Some [72%N]) [(200, [[72%N]])];
                  mk_gstep true true true 503 None [];
                  mk_gstep true true true 500 None [(0, [[72%N]])];
                  mk_gstep true true true 200 (Some [72%N]) []]
  = Returned [gsample 200; gsample 503; gsample 500] /\
  grpc_scn_shoot [mk_gstep true true false 200 None []; mk_gstep true true true 200 None []] = Returned [gsample 400] /\
  grpc_scn_shoot [mk_gstep true false true 200 None []; mk_gstep true true true 200 None []] = Returned [gsample 0].
Proof. vm_compute. repeat split; reflexivity. Qed.
