(* Driver of the extracted C09 model (module Model = coq/extracted/C09_model).
   prediction = canonical rendering of  map (on_wire g) (file_requests canon_mime fmt cfg [] items)   (code-shaped model)
   verdict    = the implementation's observation equals the canonical rendering of the format-independent
                specification (spec_method / e_uri / spec_body / spec_hdrs / spec_host, tls = ssl, arrived at the target),
                the run succeeded, the connection counts satisfy the extracted conn_ok (Model/HttpConns.v; theorem C09_conn_spec)
                and the numbers of distinct http clients per pool satisfy the extracted clients_ok (theorem C09_clients_spec);
                the prediction carries the model's own number of distinct clients (instance_clients / distinct_clients) and
                echoes the connection counts when conn_ok accepts them (the counts are bounded, not determined, by the property). *)
open Model
open Conv

type rc = { srv : string; tls : string; meth : string; uri : string; host : string; body : string;
            hdrs : (string * string list) list }

let show (r : rc) : string =
  let hs = List.sort compare r.hdrs in
  String.concat " "
    ([r.srv; r.tls; r.meth; r.uri; r.host; r.body; string_of_int (List.length hs)]
     @ List.concat_map (fun (k, vs) -> k :: string_of_int (List.length vs) :: vs) hs)

let hx = hex_of_bytes

let rc_of_hmap (m : hmap) : (string * string list) list =
  List.map (fun (k, (v, vs)) -> (hx k, List.map hx (v :: vs))) m

(* token stream *)
let toks = ref []
let next () = match !toks with [] -> failwith "short line" | t :: r -> toks := r; t
let num () = int_of_string (next ())
let strn () = bytes_of_hex (next ())

let parse_fmt = function
  | "uri" -> FUri | "uripost" -> FUripost | "jsonline" | "jsonarr" -> FJsonline | "raw" -> FRaw
  | s -> failwith ("fmt " ^ s)

let parse_kvs n = List.init n (fun _ -> let k = strn () in let v = strn () in (k, v))

(* per entry, in file order (reversed while parsing): the raw entry's body is chunked (suffix c of the scheme field) *)
let chunked_flags : bool list ref = ref []

(* gun options: suffix of the keep-alive field  <0|1>[:tok.tok...]  (harness/cmd/hC09/opts.go); auto-tag (g..), redirect (r) and
   the http2 gun (2) have no counterpart in the model of Shoot: they never touch the request *)
let parse_ka (s : string) : bool * shoot_opts * string list =
  match String.split_on_char ':' s with
  | [] -> failwith "ka"
  | k :: rest ->
      let ts = (match rest with [] | [""] -> [] | t :: _ -> String.split_on_char '.' t) in
      let has t = List.mem t ts in
      let filter = if has "aa" then 0 else if has "aw" then 1 else 2 in
      (bool_of_field k,
       { o_answlog = has "aa" || has "aw" || has "ae"; o_filter = n_of_int filter; o_dump = has "d"; o_trace = has "t"; o_debug = has "v" },
       ts)

(* gun kind and dial timeout among the gun option tokens: k = connect, K = connect with connect-ssl, T<ms> = dial.timeout *)
let gun_kind (ts : string list) : bool * bool * int =
  let timeout = List.fold_left (fun acc t ->
      if String.length t > 1 && t.[0] = 'T' then (try int_of_string (String.sub t 1 (String.length t - 1)) with _ -> acc) else acc) 3000 ts in
  (List.mem "k" ts || List.mem "K" ts, List.mem "K" ts, timeout)

let bytes_of_string (s : string) : n list = List.init (String.length s) (fun i -> n_of_int (Char.code s.[i]))

(* the "[key: value]" line as the harness writes it in the case's style (suffix of the preload field: s "[k:v]", S "[  k \t:   v ]",
   default "[k: v]"), decoded by the extracted model of util.DecodeHeader: what the model of the merge sites is fed with *)
let decode_kv (style : int) ((k, v) : n list * n list) : n list * n list =
  let sp = n_of_int 32 and tab = n_of_int 9 in
  let line = (match style with
    | 1 -> header_line [] k [] [] v []
    | 2 -> header_line [sp; sp] k [sp; tab] [sp; sp; sp] v [sp]
    | _ -> header_line [] k [] [sp] v []) in
  match decode_header line with
  | Some kv -> kv
  | None -> (bytes_of_string "model-refuses-header-line", line)

let parse_item () : item =
  match next () with
  | "H" -> let k = strn () in let v = strn () in IHdr (k, v)
  | "E" ->
      let m = strn () in
      let u = strn () in
      let scf = next () in
      let chunked = String.length scf > 0 && scf.[String.length scf - 1] = 'c' in
      chunked_flags := chunked :: !chunked_flags;
      let sc = (match (if chunked then String.sub scf 0 (String.length scf - 1) else scf) with
                | "h" -> n_of_int 1 | "s" -> n_of_int 2 | _ -> n_of_int 0) in
      let h = strn () in
      let _tag = next () in
      let b = strn () in
      let nh = num () in
      let hs = parse_kvs nh in
      IEntry { e_method = m; e_uri = u; e_scheme = sc; e_urlhost = h; e_hdrs = hs; e_body = b }
  | s -> failwith ("item " ^ s)


(* parse the observation's records *)
(* the tun= field of the last parsed observation (connect gun cases only): CONNECTs / connections at the recording servers /
   CONNECTs with a foreign authority / connections that did not start with a CONNECT *)
let last_tun : string option ref = ref None

let parse_obs (o : string) : (string * string * string * int * rc list) option =
  try
    let parts = List.map String.trim (String.split_on_char '|' o) in
    match parts with
    | [] -> None
    | head :: recs ->
        let kvs = List.filter_map (fun t -> match String.index_opt t '=' with
            | Some i -> Some (String.sub t 0 i, String.sub t (i + 1) (String.length t - i - 1)) | None -> None)
            (split_blank head) in
        let get k = List.assoc k kvs in
        let (run, conn, cl, n) = (get "run", get "conn", get "cl", int_of_string (get "n")) in
        last_tun := List.assoc_opt "tun" kvs;
        let one (s : string) : rc =
          let t = ref (String.split_on_char ' ' s) in
          let nx () = match !t with [] -> failwith "short rec" | x :: r -> t := r; x in
          let srv = nx () in let tls = nx () in let meth = nx () in let uri = nx () in let host = nx () in let body = nx () in
          let nh = int_of_string (nx ()) in
          let hdrs = List.init nh (fun _ -> let k = nx () in let nv = int_of_string (nx ()) in (k, List.init nv (fun _ -> nx ()))) in
          { srv; tls; meth; uri; host; body; hdrs } in
        Some (run, conn, cl, n, List.map one recs)
  with _ -> None

let render (conn : string) (cl : string) (tun : string) (recs : rc list) : string =
  let ls = List.sort compare (List.map show recs) in
  Printf.sprintf "run=ok conn=%s cl=%s%s n=%d%s" conn cl tun (List.length ls) (String.concat "" (List.map (fun l -> " | " ^ l) ls))

(* shared-client block of the case: n | d<N> | e<N> *)
let parse_sc (s : string) : shared_cfg =
  if s = "" || s = "n" then { sc_enabled = false; sc_number = z_of_int 0 }
  else { sc_enabled = (s.[0] = 'e'); sc_number = z_of_int (int_of_string (String.sub s 1 (String.length s - 1))) }

let ints_of (sep : char) (s : string) : int list option =
  try Some (List.map int_of_string (String.split_on_char sep s)) with _ -> None

(* which header key differs, and is it a key both the entry (incl. in-file headers) and the configuration define? *)
let classify_hdr (both : string list) (a : rc) (b : rc) : string =
  let ha = List.sort compare a.hdrs and hb = List.sort compare b.hdrs in
  let keys = List.sort_uniq compare (List.map fst ha @ List.map fst hb) in
  let diff = List.filter (fun k -> List.assoc_opt k ha <> List.assoc_opt k hb) keys in
  if List.exists (fun k -> List.mem k both) diff then "header-precedence"
  else if List.exists (fun k -> match List.assoc_opt k ha, List.assoc_opt k hb with Some x, Some y -> List.length x <> List.length y | _ -> false) diff
  then "header-values-lost"
  else "headers"

let predict (c : string) (obs : string) : string * string * bool =
  toks := split_blank c;
  match next () with
  | "wire" ->
      let f = parse_fmt (next ()) in
      let ssl = bool_of_field (next ()) in
      let (ka, opts, gtoks) = parse_ka (next ()) in
      let no_dns_cache = List.mem "c" gtoks and h2 = List.mem "2" gtoks in
      (* net/http, not the gun: a request parsed by http.ReadRequest (raw ammo: its Body is net/http's server-side body type) sent
         through http.Client.Do (the gun's client when `redirect: true`) does not always get its connection reused — reproduced with
         net/http alone (5 % of 1000 rounds under load; never through Transport.RoundTrip, never with a bytes.Reader body; see
         design/C09.md).  For raw + redirect the connection count is therefore only bounded by the number of requests. *)
      let loose_conn = (f = FRaw) && List.mem "r" gtoks in
      let (inst, sc) = (match String.split_on_char ':' (next ()) with
                        | [i] -> (int_of_string i, parse_sc "n")
                        | i :: s :: _ -> (int_of_string i, parse_sc s)
                        | [] -> failwith "instances") in
      let tgt = next () in
      let hstyle = (match String.split_on_char ':' (next ()) with
                    | _ :: fl :: _ -> if String.contains fl 'S' then 2 else if String.contains fl 's' then 1 else 0
                    | _ -> 0) in
      let _resp = next () in
      let pools = num () in
      let late = bool_of_field (next ()) in
      let pause = num () in
      let late = late && pause = 0 in
      let passes = (let pf = next () in
                    let pf = if String.length pf > 0 && pf.[String.length pf - 1] = 'p' then String.sub pf 0 (String.length pf - 1) else pf in
                    let p = int_of_string pf in if p < 1 then 1 else p) in
      let cfg = parse_kvs (num ()) in
      chunked_flags := [];
      let items = List.init (num ()) (fun _ -> parse_item ()) in
      let chunked = List.rev !chunked_flags in
      (* the model side reads the header lines through decode_header; the specification takes key and value as the user means them *)
      let cfg_m = List.map (decode_kv hstyle) cfg in
      let items_m = List.map (function IHdr (k, v) -> let (k', v') = decode_kv hstyle (k, v) in IHdr (k', v') | it -> it) items in
      let gk k = { g_ssl = ssl; g_target_host = bytes_of_string (if tgt = "name" then "localhost" else "127.0.0.1");
                   g_resolved = bytes_of_string ("T" ^ string_of_int k) } in
      (* every pool delivers the file [passes] times *)
      let ks = List.concat (List.init passes (fun _ -> List.init pools (fun k -> k))) in
      let string_of_bytes (l : n list) = String.concat "" (List.map (fun c -> String.make 1 (Char.chr (int_of_n c))) l) in
      (* HTTP/2 (gun type http2) carries cookies as crumbs: the target sees ONE Cookie value, the non-empty values joined by "; "
         (RFC 7540 8.1.2.5; none when all are empty).  Applied to the model's and to the specification's rendering alike. *)
      let h2_cookie (hs : (string * string list) list) : (string * string list) list =
        if not h2 then hs else
        List.concat_map (fun (k, vs) ->
          if k <> hx (bytes_of_string "Cookie") then [(k, vs)]
          else match List.filter (fun v -> v <> "-" && v <> "") vs with
               | [] -> []
               | l -> [(k, [String.concat "3b20" l])]) hs in
      let of_wire (w : wire) : rc =
        { srv = string_of_bytes w.w_addr; tls = field_of_bool w.w_tls; meth = hx w.w_method;
          uri = hx w.w_uri; host = hx w.w_host; body = hx w.w_body; hdrs = h2_cookie (rc_of_hmap w.w_hdrs) } in
      (* code-shaped model: Shoot under the case's gun options (Model/HttpShoot.v); a broken request never arrives *)
      let model = List.concat_map (fun k ->
          List.concat (List.map2 (fun r ch -> match shoot_wire opts (gk k) f ch r with Some w -> [of_wire w] | None -> [])
                         (file_requests canon_mime f cfg_m [] items_m) chunked)) ks in
      (* specification, entry by entry with the in-file headers in scope *)
      let sp = List.concat_map (fun k -> List.map of_wire (file_spec canon_mime f cfg [] (gk k) items)) ks in
      (* canonical keys that both the entry (any entry of the file / in-file header) and the configuration define *)
      let cfgkeys = List.map (fun (k, _) -> hx (canon_mime k)) cfg in
      let entkeys = List.concat_map (function IHdr (k, _) -> [hx (canon_mime k)] | IEntry e -> List.map (fun (k, _) -> hx (canon_mime k)) e.e_hdrs) items in
      let both = List.filter (fun k -> List.mem k entkeys) cfgkeys in
      (* clients: per pool the engine bound b guns (b <= instances: it stops starting instances when the schedule is used up, so b
         is bounded, not determined); the model's number of distinct clients among b bound guns is the prediction *)
      let parsed = parse_obs obs in
      let model_distinct b = List.length (distinct_clients (instance_clients sc (nat_of_int b))) in
      let obs_cl = (match parsed with
        | Some (_, _, cl, _, _) ->
            let ps = List.map (ints_of '/') (String.split_on_char ',' cl) in
            if List.length ps = pools && List.for_all (function Some [_; b] -> 0 <= b && b <= inst | _ -> false) ps
            then Some (List.map (function Some [d; b] -> (d, b) | _ -> (0, 0)) ps) else None
        | None -> None) in
      let cl_model = (match obs_cl with
        | Some ps -> String.concat "," (List.map (fun (_, b) -> Printf.sprintf "%d/%d" (model_distinct b) b) ps)
        | None -> String.concat "," (List.init pools (fun _ -> Printf.sprintf "%d/%d" (model_distinct inst) inst))) in
      (* specification side: clients_ok per pool, conn_ok on the carrying and on the accepted connections *)
      let cl_ok = (match obs_cl with
        | Some ps -> List.for_all (fun (d, b) -> clients_ok sc (nat_of_int b) (nat_of_int d)) ps
        | None -> false) in
      let conn_text, conn_good = (match parsed with
        | Some (_, conn, _, _, recs) ->
            (match ints_of '/' conn with
             | Some (carrying :: accepted :: probes :: fu) when List.length fu <= 1 ->
                 (* follow-ups of redirects (gun option redirect: true) are requests at the target as well *)
                 let fu = (match fu with [x] -> x | _ -> 0) in
                 let nt = List.length (List.filter (fun r -> String.length r.srv > 0 && r.srv.[0] = 'T') recs) in
                 let want_probes = if tgt = "name" && not late && not no_dns_cache then pools else 0 in
                 let good = probes = want_probes
                   && conn_ok ka (sc.sc_enabled || loose_conn) (nat_of_int (inst * pools)) (nat_of_int nt) (nat_of_int carrying)
                   && fu >= 0
                   && conn_ok ka (sc.sc_enabled || loose_conn) (nat_of_int (inst * pools + probes)) (nat_of_int (nt + probes + fu)) (nat_of_int accepted) in
                 ((if good then conn else "outside-conn_ok"), good)
             | _ -> ("unparsable", false))
        | None -> ("unparsable", false)) in
      (* connect gun (round 7): every connection the gun's target (the tunnel front) accepts beyond the reachability probes starts
         with ONE CONNECT whose authority and Host are the target itself (the front counts the others; C09_connect_request on the
         address Shoot sets: the resolved target), and every tunnel is one connection at the recording server behind: tun = c/c/0/0 with
         c = accepted - probes *)
      let (connect, _, _) = gun_kind gtoks in
      let tun_text, tun_good = (match connect, !last_tun, parsed with
        | false, None, _ -> ("", true)
        | true, Some t, Some (_, conn, _, _, _) ->
            (match ints_of '/' t, ints_of '/' conn with
             | Some [cn; at; bad; non], Some (_ :: accepted :: probes :: _) ->
                 (* at (connections the front opened behind that have been noticed by the recording servers) is the harness's own
                    doing, not the gun's: informational, only bounded by the CONNECTs; the connections behind that carried requests
                    are judged by conn_ok above *)
                 let good = at <= cn && cn = accepted - probes && bad = 0 && non = 0 in
                 ((if good then " tun=" ^ t else " tun=outside-spec"), good)
             | _ -> (" tun=unparsable", false))
        | _ -> (" tun=missing", false)) in
      let pred = render conn_text cl_model tun_text model in
      let want = render conn_text cl_model tun_text sp in
      let verdict =
        if obs = want && conn_good && cl_ok && tun_good then "ok"
        else match parsed with
          | None -> "BAD:unparsable-observation"
          | Some (run, _conn, _cl, n, recs) ->
              if String.length run >= 9 && String.sub run 0 9 = "followups" then "BAD:redirect-followups"
              else if run <> "ok" then "BAD:run-failed"
              else if n <> List.length sp then "BAD:request-count"
              else begin
                let so = List.sort (fun a b -> compare (show a) (show b)) recs
                and ss = List.sort (fun a b -> compare (show a) (show b)) sp in
                (* pair requests by everything except headers/host first, to name the field that differs *)
                let rec first_diff a b = match a, b with
                  | x :: ar, y :: br -> if show x = show y then first_diff ar br else Some (x, y)
                  | _ -> None in
                match first_diff so ss with
                | None -> if not cl_ok then "BAD:client-sharing" else if not conn_good then "BAD:connection-count"
                          else if not tun_good then "BAD:tunnel" else "BAD:other"
                | Some (x, y) ->
                    if x.srv <> y.srv then "BAD:wrong-server"
                    else if x.tls <> y.tls then "BAD:scheme"
                    else if x.meth <> y.meth then "BAD:method"
                    else if x.uri <> y.uri then "BAD:uri"
                    else if x.body <> y.body then "BAD:body"
                    else if List.sort compare x.hdrs <> List.sort compare y.hdrs then "BAD:" ^ classify_hdr both x y
                    else if x.host <> y.host then (if List.mem (hx host_key) both then "BAD:host-precedence" else "BAD:host")
                    else "BAD:other"
              end in
      let nontrivial = cfg <> [] && (both <> [] || List.length items > 1) in
      (pred, verdict, nontrivial)
  | "hist" ->
      (* scripted history on the real guns: exact comparison with the transport model t_run, judged by hist_ok / clients_ok *)
      let (ka, _opts, gtoks) = parse_ka (next ()) in
      let sc = parse_sc (next ()) in
      let mi = eff_max_idle (z_of_int (num ())) in
      let _size = next () in
      let n = num () in
      let nev = num () in
      (* round 7: W<ms> = time passes; the history is TIMED (Model/HttpTunnel.v): every B / E happens at the sum of the waits
         before it.  The deadline a connection carries is what the gun's dial function leaves on it (gun_arm: gun kind http /
         connect / connect with connect-ssl, dial timeout T<ms>, default 3000 ms) *)
      let (connect, connect_ssl, timeout) = gun_kind gtoks in
      let clock = ref 0 in
      let h = List.concat (List.init nev (fun _ -> let t = next () in
                let v = int_of_string (String.sub t 1 (String.length t - 1)) in
                if t.[0] = 'W' then (clock := !clock + v; [])
                else [At (n_of_int !clock, (if t.[0] = 'B' then Begin (nat_of_int v) else End (nat_of_int v)))])) in
      let requests = List.length (List.filter (function At (_, Begin _) -> true | _ -> false) h) in
      let show_log l = if l = [] then "-" else String.concat "," (List.map (fun (i, c) -> Printf.sprintf "%d:%d" i c) l) in
      let model_d = List.length (distinct_clients (instance_clients sc (nat_of_int n))) in
      let pred = (match tt_run (client_of (prepare_pool sc)) ka mi (gun_arm connect connect_ssl (n_of_int timeout)) tt_init h with
        | None -> "not-a-history"
        | Some s ->
            let ((dials, log), failed) = tt_obs s in
            if int_of_nat failed <> 0 then Printf.sprintf "model-loses-%d-requests-to-a-deadline" (int_of_nat failed) else
            Printf.sprintf "run=ok dials=%d log=%s cl=%d/%d" (int_of_nat dials)
              (show_log (List.map (fun (i, c) -> (int_of_nat i, int_of_nat c)) log)) model_d n) in
      let v = (try
          Scanf.sscanf obs "run=%s dials=%d log=%s cl=%d/%d" (fun run dials lg d b ->
            let log = if lg = "-" then [] else
              List.map (fun p -> match ints_of ':' p with Some [i; c] -> (i, c) | _ -> failwith "log") (String.split_on_char ',' lg) in
            let nlog = List.map (fun (i, c) -> (nat_of_int i, nat_of_int c)) log in
            if run <> "ok" then "BAD:hist-run-" ^ run
            else if not (b = n && clients_ok sc (nat_of_int n) (nat_of_int d)) then "BAD:client-sharing"
            else if not (conn_ok ka sc.sc_enabled (nat_of_int n) (nat_of_int requests) (nat_of_int dials)) then "BAD:connection-count"
            else if not (hist_ok ka sc.sc_enabled (nat_of_int n) (nat_of_int requests) (nat_of_int dials) nlog) then "BAD:one-connection-per-instance"
            else "ok")
        with _ -> "BAD:unparsable-observation") in
      (pred, v, true)
  | "tr" ->
      (* specification of NewTransport / NewDialer: every field of the config lands in the same-named field of the built object;
         the field list comes from the implementation's own structs (reflection), at least the 8 + 4 fields known today *)
      let ts = split_blank obs in
      let parts = List.map (fun t -> String.split_on_char ':' t) ts in
      let ok = List.length ts >= 13 && List.for_all (function [_; c; b] -> c = b | _ -> false) parts in
      let pred = String.concat " " (List.map (function [n; c; _] -> n ^ ":" ^ c ^ ":" ^ c | l -> String.concat ":" l) parts) in
      (pred, verdict ok "transport-field-mismatch", true)
  | _ -> ("unknown-case", "BAD:unknown-case", false)

let () = run_cases predict
