open Model
open Conv

(* case: pair <kind> <limit> <passes> <tags> <chosen> <cancel>
   obs : S <count> <seq> <closed|blocked> <run> P <count> <seq> <closed|blocked> <run> *)

let dkind_of (k : string) : dkind =
  match k with
  | "uri" -> DUri | "uripost" -> DUripost | "raw" -> DRaw | "jsonl" -> DJsonl | "jsona" -> DJsonArr
  | _ -> failwith "kind"

let rec err_class (e : err) : string =
  match e with
  | EAmmoLimit -> "err:limit"
  | EPassLimit -> "err:passes"
  | ENoAmmo -> "err:noammo"
  | ECtx -> "canceled"
  | EUnexpected -> "err:other"
  | EPanic -> "panic"
  | ENoAmmoText -> "err:other"
  | ELoad e' -> err_class e'

let out_class (o : outcome) : string =
  match o with Ok -> "ok" | Failed e -> err_class e | OutOfFuel -> "hang"

let ints (s : string) : int list =
  if s = "-" || s = "" then [] else List.map int_of_string (String.split_on_char ',' s)

let render (r : result) : string =
  let l = List.map int_of_nat (ids r.delivered) in
  Printf.sprintf "%d %s %s %s" (List.length l)
    (if l = [] then "-" else String.concat "," (List.map string_of_int l))
    (if r.closed then "closed" else "blocked") (out_class r.out)

let runclass_of (s : string) : runclass =
  match s with "ok" -> ROk | "canceled" -> RCanceled | "hang" -> RHang | "err:noammo" -> RNoAmmo
             | "construct" -> RRefused | _ -> RErr

(* a sequence item x<idx> (content differs from the file) becomes an id no entry has *)
let obs_ids (s : string) : int list =
  if s = "-" then []
  else List.map (fun t -> if String.length t > 0 && t.[0] = 'x' then 1000000 else int_of_string t)
      (String.split_on_char ',' s)

let predict (c : string) (obs : string) : string * string * bool =
  match split_blank c with
  | "pair" :: kind :: lim :: pas :: tags :: chosen :: cancel :: _eof ->   (* the EOF layout does not change the entries *)
      let lim = int_of_string lim and pas = int_of_string pas in
      let es = List.mapi (fun i t -> { e_tag = nat_of_int t; e_id = nat_of_int i }) (ints tags) in
      let ch = List.map nat_of_int (ints chosen) in
      let cf = { limit = nat_of_int lim; passes = nat_of_int pas; chosen = ch } in
      let k = dkind_of kind in
      let n = List.length es in
      let (sc, ss, sa, sr, pc, ps, pa, pr) =
        (match split_blank obs with
         | ["S"; a; b; c; d; "P"; e; f; g; h] -> (int_of_string a, b, c, d, int_of_string e, f, g, h)
         | _ -> (0, "-", "?", "?", 0, "-", "?", "?")) in
      let cancel_m = if cancel = "-" then None else Some (int_of_string cancel) in
      let src_len = List.length (chosen_entries ch es) in
      let bnd = (match bound cf.limit cf.passes (nat_of_int src_len) with Some b -> Some (int_of_nat b) | None -> None) in
      let fuel cnt = nat_of_int (60 * ((max cnt (match bnd with Some b -> b | None -> 0)) + 1) * (n + 2)) in
      let one preload ocount oline =
        if constructor_refuses (KHttp (k, preload)) es then "0 - closed construct" else
        (match cancel_m with
         | None -> render (deliver k preload cf es None (fuel ocount))
         | Some _ ->
             let p_c = render (deliver k preload cf es (Some (nat_of_int ocount)) (fuel ocount)) in
             if bnd = None && src_len > 0 then p_c   (* an unbounded run over a matching filter never ends by itself *)
             else begin
               let p_none = render (deliver k preload cf es None (fuel ocount)) in
               if p_none = oline then p_none else p_c
             end) in
      let sline = Printf.sprintf "%d %s %s %s" sc ss sa sr and pline = Printf.sprintf "%d %s %s %s" pc ps pa pr in
      let pred = "S " ^ one false sc sline ^ " P " ^ one true pc pline in
      let ok = spec14_b cf.limit cf.passes es ch
          (match cancel_m with None -> None | Some m -> Some (nat_of_int m))
          (List.map nat_of_int (obs_ids ss)) (List.map nat_of_int (obs_ids ps))
          (sa = "closed") (pa = "closed") (runclass_of sr) (runclass_of pr) in
      let why =
        if sline <> pline then "preload on and off differ"
        else if src_len = 0 then "nothing matches: want nothing delivered, sink closed, Run returns"
        else (match bnd with
            | Some b -> Printf.sprintf "want the %d chosen entries replayed cyclically, %d delivered, closed, run ok" src_len b
            | None -> "want the chosen entries replayed cyclically until cancelled") in
      (pred, verdict ok why, ch <> [] || lim > 0 || pas > 0)
  | _ -> ("unknown-case", "BAD:unknown-case", false)

(* ---- content cells: cpair <kind> <limit> <passes> <cfg> <items> <chosen> <cancel> <eof> ---- *)

let split_on c s = if s = "-" || s = "" then [] else String.split_on_char c s

let kv_of (s : string) : n list * n list =
  match String.index_opt s '.' with
  | Some i -> (bytes_of_hex (String.sub s 0 i), bytes_of_hex (String.sub s (i + 1) (String.length s - i - 1)))
  | None -> (bytes_of_hex s, [])

let tail1 s = String.sub s 1 (String.length s - 1)

let citems_of (s : string) : citem list =
  List.filter_map (fun f ->
      if f = "" then None
      else if f.[0] = 'h' then (let (k, v) = kv_of (tail1 f) in Some (CHdr (k, v)))
      else Some (CEnt (bytes_of_hex (tail1 f)))) (split_on ',' s)

let render_view (v : view) : string =
  let hs = if v.v_hdrs = [] then "-"
    else String.concat ";" (List.map (fun (k, x) -> hex_of_bytes k ^ "=" ^ hex_of_bytes x) v.v_hdrs) in
  Printf.sprintf "%d/%s/%s/%s" (int_of_nat v.v_pos) (hex_of_bytes v.v_tag) (hex_of_bytes v.v_host) hs

let big_nat : nat = let rec mk acc i = if i <= 0 then acc else mk (S acc) (i - 1) in mk O 100000
let view_of_obs (t : string) : view =
  let bad = { v_pos = big_nat; v_tag = []; v_host = []; v_hdrs = [] } in
  match String.split_on_char '/' t with
  | [p; tag; host; hs] ->
      (match int_of_string_opt p with
       | None -> bad   (* x<idx>: method or body differ from the file *)
       | Some i ->
           let hdrs = List.map (fun kv ->
               match String.index_opt kv '=' with
               | Some j -> (bytes_of_hex (String.sub kv 0 j), bytes_of_hex (String.sub kv (j + 1) (String.length kv - j - 1)))
               | None -> (bytes_of_hex kv, [])) (split_on ';' hs) in
           { v_pos = nat_of_int i; v_tag = bytes_of_hex tag; v_host = bytes_of_hex host; v_hdrs = hdrs })
  | _ -> bad

let predict_c (c : string) (obs : string) : string * string * bool =
  match split_blank c with
  | "cpair" :: kind :: lim :: pas :: cfg :: items :: chosen :: cancel :: _eof ->
      let lim = int_of_string lim and pas = int_of_string pas in
      let k = dkind_of kind in
      let uri_like = (kind = "uri" || kind = "uripost") in
      let cfgh = List.map kv_of (split_on ',' cfg) in
      let items = citems_of items in
      let chb = List.map (fun t -> bytes_of_hex (tail1 t)) (split_on ',' chosen) in
      let cs = file_entries cfgh items [] O in
      let n = List.length cs in
      let src_len = List.length (chosen_content chb cs) in
      let (sc, ss, sa, sr, pc, ps, pa, pr) =
        (match split_blank obs with
         | ["S"; a; b; c; d; "P"; e; f; g; h] -> (int_of_string a, b, c, d, int_of_string e, f, g, h)
         | _ -> (0, "-", "?", "?", 0, "-", "?", "?")) in
      let cancel_m = if cancel = "-" then None else Some (int_of_string cancel) in
      let bnd = (match bound (nat_of_int lim) (nat_of_int pas) (nat_of_int src_len) with Some b -> Some (int_of_nat b) | None -> None) in
      let fuel cnt = nat_of_int (60 * ((max cnt (match bnd with Some b -> b | None -> 0)) + 1) * (n + 2)) in
      let render_c ((l, o), cl) =
        let l = List.map (fun c -> render_view (view_of uri_like c)) l in
        Printf.sprintf "%d %s %s %s" (List.length l) (if l = [] then "-" else String.concat "," l)
          (if cl then "closed" else "blocked") (out_class o) in
      let run preload cancel cnt = render_c (deliver_c k preload (nat_of_int lim) (nat_of_int pas) cfgh items chb cancel (fuel cnt)) in
      let one preload ocount oline =
        (match cancel_m with
         | None -> run preload None ocount
         | Some _ ->
             let p_c = run preload (Some (nat_of_int ocount)) ocount in
             if bnd = None && src_len > 0 then p_c
             else begin
               let p_none = run preload None ocount in
               if p_none = oline then p_none else p_c
             end) in
      let sline = Printf.sprintf "%d %s %s %s" sc ss sa sr and pline = Printf.sprintf "%d %s %s %s" pc ps pa pr in
      let pred = "S " ^ one false sc sline ^ " P " ^ one true pc pline in
      let views s = List.map view_of_obs (split_on ',' s) in
      let ok = spec14c_b uri_like (nat_of_int lim) (nat_of_int pas) cfgh items chb
          (match cancel_m with None -> None | Some m -> Some (nat_of_int m))
          (views ss) (views ps) (sa = "closed") (pa = "closed") (runclass_of sr) (runclass_of pr) in
      let why =
        if sline <> pline then "preload on and off differ"
        else if src_len = 0 then "nothing matches: want nothing delivered, sink closed, Run returns"
        else "want the " ^ string_of_int src_len ^ " entries whose whole tag is listed, each with its tag and the headers in force at its own line, replayed cyclically"
             ^ (match bnd with Some b -> Printf.sprintf ", %d delivered, closed, run ok" b | None -> " until cancelled") in
      (pred, verdict ok why, true)
  | _ -> ("unknown-case", "BAD:unknown-case", false)

(* ---- middleware cells: mpair <kind> <limit> <passes> <cfg> <items> <chosen> <cancel> <eof> <mws> ---- *)

let mwops_of (s : string) : mwop list =
  List.filter_map (fun f ->
      if f = "" then None
      else match f.[0] with
        | 'd' -> Some (MDate (if String.length f = 1 then [] else bytes_of_hex (tail1 f)))
        | 'a' -> let (k, v) = kv_of (tail1 f) in Some (MAdd (k, v))
        | 's' -> let (k, v) = kv_of (tail1 f) in Some (MSet (k, v))
        | 'x' -> Some (MDel (bytes_of_hex (tail1 f)))
        | 'I' -> Some MBadInit
        | 'C' -> Some OCloseFails
        | 'U' -> None   (* the uri lines given inline: the same file *)
        | _ -> failwith "mw") (split_on ',' s)

let predict_m (c : string) (obs : string) : string * string * bool =
  match split_blank c with
  | ["mpair"; kind; lim; pas; cfg; items; chosen; cancel; _eof; mws] ->
      let lim = int_of_string lim and pas = int_of_string pas in
      let k = dkind_of kind in
      let uri_like = (kind = "uri" || kind = "uripost") in
      let cfgh = List.map kv_of (split_on ',' cfg) in
      let items = citems_of items in
      let ops = mwops_of mws in
      let chb = List.map (fun t -> bytes_of_hex (tail1 t)) (split_on ',' chosen) in
      let cs = file_entries cfgh items [] O in
      let n = List.length cs in
      let src_len = List.length (chosen_content chb cs) in
      let (sc, ss, sa, sr, pc, ps, pa, pr) =
        (match split_blank obs with
         | ["S"; a; b; c; d; "P"; e; f; g; h] -> (int_of_string a, b, c, d, int_of_string e, f, g, h)
         | _ -> (0, "-", "?", "?", 0, "-", "?", "?")) in
      (* D<n>: the context ends the way one with a deadline does; Run must then return THAT context's error *)
      let deadline = String.length cancel > 0 && cancel.[0] = 'D' in
      let cancel_m = if cancel = "-" then None else Some (int_of_string (if deadline then tail1 cancel else cancel)) in
      let ctx_class s = if not deadline then s else if s = "canceled" then "deadline" else s in
      let runclass_of s = if deadline && s = "deadline" then RCanceled else runclass_of s in
      let bnd = (match bound (nat_of_int lim) (nat_of_int pas) (nat_of_int src_len) with Some b -> Some (int_of_nat b) | None -> None) in
      let fuel cnt = nat_of_int (60 * ((max cnt (match bnd with Some b -> b | None -> 0)) + 1) * (n + 2)) in
      let render_m ((l, o), cl) =
        let l = List.map (fun (c, r) -> render_view (view_m uri_like c r)) l in
        Printf.sprintf "%d %s %s %s" (List.length l) (if l = [] then "-" else String.concat "," l)
          (if cl then "closed" else "blocked") (ctx_class (out_class o)) in
      let run preload cancel cnt = render_m (deliver_m k preload (nat_of_int lim) (nat_of_int pas) cfgh items chb ops cancel (fuel cnt)) in
      let one preload ocount oline =
        (match cancel_m with
         | None -> run preload None ocount
         | Some _ ->
             let p_c = run preload (Some (nat_of_int ocount)) ocount in
             if init_fails ops then p_c
             else if bnd = None && src_len > 0 then p_c
             else begin
               let p_none = run preload None ocount in
               if p_none = oline then p_none else p_c
             end) in
      let sline = Printf.sprintf "%d %s %s %s" sc ss sa sr and pline = Printf.sprintf "%d %s %s %s" pc ps pa pr in
      let pred = "S " ^ one false sc sline ^ " P " ^ one true pc pline in
      let views s = List.map view_of_obs (split_on ',' s) in
      let ok = spec14m_b uri_like (nat_of_int lim) (nat_of_int pas) cfgh items chb ops
          (match cancel_m with None -> None | Some m -> Some (nat_of_int m))
          (views ss) (views ps) (sa = "closed") (pa = "closed") (runclass_of sr) (runclass_of pr)
               && sr = pr in
      let why =
        if init_fails ops then "a middleware cannot start: want the same end on both paths"
        else if sline <> pline then "preload on and off differ"
        else if src_len = 0 then "nothing matches: want nothing delivered, sink closed, Run returns"
        else "want the " ^ string_of_int src_len ^ " chosen entries replayed cyclically, every request = the middlewares applied once to the headers of the entry's own line"
             ^ (match bnd with Some b -> Printf.sprintf ", %d delivered, closed, run ok" b | None -> " until cancelled") in
      (pred, verdict ok why, true)
  | _ -> ("unknown-case", "BAD:unknown-case", false)

let () = run_cases (fun c obs ->
    if String.length c >= 5 && String.sub c 0 5 = "cpair" then predict_c c obs
    else if String.length c >= 5 && String.sub c 0 5 = "mpair" then predict_m c obs
    else predict c obs)
