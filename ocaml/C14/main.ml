open Model
open Conv

(* case: pair <kind> <limit> <passes> <tags> <chosen> <cancel>
   obs : S <count> <seq> <closed|blocked> <run> P <count> <seq> <closed|blocked> <run> *)

let dkind_of (k : string) : dkind =
  match k with
  | "uri" -> DUri | "uripost" -> DUripost | "raw" -> DRaw | "jsonl" -> DJsonl | "jsona" -> DJsonArr
  | _ -> failwith "kind"

let rec err_class (e : err) : string =
  match e with
  | EAmmoLimit -> "err:limit"
  | EPassLimit -> "err:passes"
  | ENoAmmo -> "err:noammo"
  | ECtx -> "canceled"
  | EUnexpected -> "err:other"
  | EPanic -> "panic"
  | ENoAmmoText -> "err:other"
  | ELoad e' -> err_class e'

let out_class (o : outcome) : string =
  match o with Ok -> "ok" | Failed e -> err_class e | OutOfFuel -> "hang"

let ints (s : string) : int list =
  if s = "-" || s = "" then [] else List.map int_of_string (String.split_on_char ',' s)

let render (r : result) : string =
  let l = List.map int_of_nat (ids r.delivered) in
  Printf.sprintf "%d %s %s %s" (List.length l)
    (if l = [] then "-" else String.concat "," (List.map string_of_int l))
    (if r.closed then "closed" else "blocked") (out_class r.out)

let runclass_of (s : string) : runclass =
  match s with "ok" -> ROk | "canceled" -> RCanceled | "hang" -> RHang | "err:noammo" -> RNoAmmo
             | "construct" -> RRefused | _ -> RErr

(* a sequence item x<idx> (content differs from the file) becomes an id no entry has *)
let obs_ids (s : string) : int list =
  if s = "-" then []
  else List.map (fun t -> if String.length t > 0 && t.[0] = 'x' then 1000000 else int_of_string t)
      (String.split_on_char ',' s)

let predict (c : string) (obs : string) : string * string * bool =
  match split_blank c with
  | "pair" :: kind :: lim :: pas :: tags :: chosen :: cancel :: _eof ->   (* the EOF layout does not change the entries *)
      let lim = int_of_string lim and pas = int_of_string pas in
      let es = List.mapi (fun i t -> { e_tag = nat_of_int t; e_id = nat_of_int i }) (ints tags) in
      let ch = List.map nat_of_int (ints chosen) in
      let cf = { limit = nat_of_int lim; passes = nat_of_int pas; chosen = ch } in
      let k = dkind_of kind in
      let n = List.length es in
      let (sc, ss, sa, sr, pc, ps, pa, pr) =
        (match split_blank obs with
         | ["S"; a; b; c; d; "P"; e; f; g; h] -> (int_of_string a, b, c, d, int_of_string e, f, g, h)
         | _ -> (0, "-", "?", "?", 0, "-", "?", "?")) in
      let cancel_m = if cancel = "-" then None else Some (int_of_string cancel) in
      let src_len = List.length (chosen_entries ch es) in
      let bnd = (match bound cf.limit cf.passes (nat_of_int src_len) with Some b -> Some (int_of_nat b) | None -> None) in
      let fuel cnt = nat_of_int (60 * ((max cnt (match bnd with Some b -> b | None -> 0)) + 1) * (n + 2)) in
      let one preload ocount oline =
        if constructor_refuses (KHttp (k, preload)) es then "0 - closed construct" else
        (match cancel_m with
         | None -> render (deliver k preload cf es None (fuel ocount))
         | Some _ ->
             let p_c = render (deliver k preload cf es (Some (nat_of_int ocount)) (fuel ocount)) in
             if bnd = None && src_len > 0 then p_c   (* an unbounded run over a matching filter never ends by itself *)
             else begin
               let p_none = render (deliver k preload cf es None (fuel ocount)) in
               if p_none = oline then p_none else p_c
             end) in
      let sline = Printf.sprintf "%d %s %s %s" sc ss sa sr and pline = Printf.sprintf "%d %s %s %s" pc ps pa pr in
      let pred = "S " ^ one false sc sline ^ " P " ^ one true pc pline in
      let ok = spec14_b cf.limit cf.passes es ch
          (match cancel_m with None -> None | Some m -> Some (nat_of_int m))
          (List.map nat_of_int (obs_ids ss)) (List.map nat_of_int (obs_ids ps))
          (sa = "closed") (pa = "closed") (runclass_of sr) (runclass_of pr) in
      let why =
        if sline <> pline then "preload on and off differ"
        else if src_len = 0 then "nothing matches: want nothing delivered, sink closed, Run returns"
        else (match bnd with
            | Some b -> Printf.sprintf "want the %d chosen entries replayed cyclically, %d delivered, closed, run ok" src_len b
            | None -> "want the chosen entries replayed cyclically until cancelled") in
      (pred, verdict ok why, ch <> [] || lim > 0 || pas > 0)
  | _ -> ("unknown-case", "BAD:unknown-case", false)

let () = run_cases predict
