(* Driver of the extracted C19 model (module Model = coq/extracted/C19_model).
   prediction = what the model computes for the case; verdict = executable specification on the IMPLEMENTATION's
   observation: no call / shot ends in a panic, the run succeeds, one sample per attempted request carrying the
   received status (clean exchange) or the failure. *)
open Model
open Conv

let hx = hex_of_bytes
let bytes_of_string (s : string) : n list = List.init (String.length s) (fun i -> n_of_int (Char.code s.[i]))
let string_of_bytes (l : n list) : string =
  let b = Buffer.create 64 in List.iter (fun c -> Buffer.add_char b (Char.chr (int_of_n c))) l; Buffer.contents b

let toks = ref []
let next () = match !toks with [] -> failwith "short line" | t :: r -> toks := r; t
let num () = int_of_string (next ())
let strn () = bytes_of_hex (next ())

let show_out (f : 'a -> string) (o : 'a outcome) : string =
  match o with Done a -> f a | Failed -> "err" | Panicked -> "panic"
let okerr o = show_out (fun _ -> "ok") o

(* a modifier written as text (str.ParseStringFunc: name, '(' args separated by ',' ')'), blanks trimmed *)
let spec_of_text (t : string) : mod_spec =
  let t = String.trim t in
  match String.index_opt t '(' with
  | None -> (match t with "lower" -> SLower | "upper" -> SUpper | "substr" -> SSubstr [] | "replace" -> SReplace [] | _ -> SUnknown)
  | Some i ->
      let name = String.trim (String.sub t 0 i) in
      let rest = String.trim (String.sub t (i + 1) (String.length t - i - 1)) in
      if rest = "" || rest.[String.length rest - 1] <> ')' || String.index rest ')' <> String.length rest - 1 then SUnknown
      else begin
        let inner = String.trim (String.sub rest 0 (String.length rest - 1)) in
        let args = List.map (fun a -> bytes_of_string (String.trim a)) (String.split_on_char ',' inner) in
        match name with
        | "lower" -> SLower | "upper" -> SUpper
        | "substr" -> SSubstr args | "replace" -> SReplace args
        | _ -> SUnknown
      end

let chain_of_text (t : string) : mod_spec list =
  if t = "" then [] else
  match String.split_on_char '|' t with
  | [] -> []
  | l -> List.map spec_of_text l

let parse_mod () : mod_spec =
  match next () with
  | "L" -> SLower | "U" -> SUpper
  | "S" -> let n = num () in SSubstr (List.init n (fun _ -> strn ()))
  | "R" -> let n = num () in SReplace (List.init n (fun _ -> strn ()))
  | "X" -> spec_of_text (string_of_bytes (strn ()))
  | s -> failwith ("mod " ^ s)

let conn_of = function
  | "ok" -> ConnOk | "refused" -> ConnRefused | "reset" -> ConnReset | "timeout" -> ConnTimeout | "eof" -> ConnEof | _ -> ConnProto

let expand_body (f : string) : n list =
  if String.length f > 0 && f.[0] = '@' then (let x = n_of_int 120 in List.init (int_of_string (String.sub f 1 (String.length f - 1))) (fun _ -> x))
  else bytes_of_hex f

let size_op_of = function
  | "eq" | "=" -> OpEq | "lt" | "<" -> OpLt | "gt" | ">" -> OpGt | _ -> OpOther

let has_sub (s : string) (sub : string) : bool =
  let n = String.length s and m = String.length sub in
  let rec go i = i + m <= n && (String.sub s i m = sub || go (i + 1)) in go 0

let predict (c : string) (obs : string) : string * string * bool =
  toks := split_blank c;
  match next () with
  | "vh" ->
      let _hdr = next () in
      let nm = num () in
      let chain = List.init nm (fun _ -> parse_mod ()) in
      let nv = num () in
      let vals = List.init nv (fun _ -> strn ()) in
      let outs = List.map (fun v -> show_out (function None -> "unset" | Some b -> "ok:" ^ hx b) (var_header_one chain v)) vals in
      let p = String.concat " " outs in
      (p, verdict (not (has_sub obs "panic")) "postprocessor-panic", List.exists (function SSubstr _ -> true | _ -> false) chain && List.exists (fun v -> v <> []) vals)
  | "as" ->
      let status = z_of_int (num ()) in
      let nh = num () in
      let hs = List.init nh (fun _ -> let k = strn () in let v = strn () in (k, v)) in
      let body = strn () in
      let nb = num () in
      let pats = List.init nb (fun _ -> strn ()) in
      let nc = num () in
      let ch = List.init nc (fun _ -> let k = strn () in let v = strn () in (k, v)) in
      let cst = z_of_int (num ()) in
      let size = (match next () with
        | "-" -> None
        | s -> (match String.split_on_char ':' s with
                | [v; op] -> Some (z_of_int (int_of_string v), size_op_of (string_of_bytes (bytes_of_hex op)))
                | _ -> failwith "size")) in
      let cfg = { as_body = pats; as_headers = ch; as_status = cst; as_size = size } in
      let get k = (match List.assoc_opt k hs with Some v -> v | None -> []) in
      let p = okerr (assert_process cfg { rv_status = status; rv_header = get; rv_body = body }) in
      (p, verdict (obs <> "panic") "postprocessor-panic", nb + nc > 0 || size <> None)
  | "ga" ->
      let code = z_of_int (num ()) in
      let has = bool_of_field (next ()) in
      let text = string_of_bytes (strn ()) in
      let cst = z_of_int (num ()) in
      let np = num () in
      let pats = List.init np (fun _ -> strn ()) in
      (* rendering of the message (prototext of a StringValue) is the library's; only its relation to the patterns matters *)
      let out = if has then Some (bytes_of_string (if text = "" then "" else "value:\"" ^ text ^ "\"")) else None in
      let p = okerr (grpc_assert cst pats code out) in
      (p, verdict (obs <> "panic") "postprocessor-panic", np > 0)
  | "xp" ->
      (* the kind of value the expression evaluates to is the xpath library's answer, taken from the observation *)
      let kind = (match split_blank obs with k :: _ -> k | [] -> "?") in
      let o = (match kind with
        | "nocompile" -> xpath_values false XNodeSet
        | "nodeset" -> xpath_values true XNodeSet
        | "number" -> xpath_values true XNumber
        | "string" -> xpath_values true XString
        | "bool" -> xpath_values true XBool
        | _ -> Failed) in
      (kind ^ " " ^ okerr o, verdict (not (has_sub obs "panic")) "postprocessor-panic", kind <> "nodeset")
  | "jp" ->
      (* json / jsonpath library outcomes are inputs of the model: taken from the observation *)
      let o = (match obs with "ok" -> var_jsonpath_process true [true] | "err" -> var_jsonpath_process false [] | _ -> Done ()) in
      (okerr o, verdict (obs = "ok" || obs = "err") "postprocessor-panic", true)
  | "eng" ->
      let gun = next () in
      let _ka = next () in
      let _inst = num () in
      let mode = next () in
      let refused = (mode = "1") in
      let h2gun = (gun = "http2" || gun = "scenario2") in
      let gun = if gun = "scenario2" then "scenario" else gun in (* the scenario gun over the http2 client *)
      let target_h2 = h2gun && mode <> "2" in
      let opts_s = next () in
      (* r<0|1> in front: the gun option `redirect` *)
      let opts_s = (* o<0|1> in front: the samples are read back from the phout aggregator's file (the same samples are expected) *)
        if String.length opts_s > 2 && opts_s.[0] = 'o' then String.sub opts_s 2 (String.length opts_s - 2) else opts_s in
      let opts_s = (* p<0|1> in front: POST ammo with a body (the same samples are expected) *)
        if String.length opts_s > 2 && opts_s.[0] = 'p' then String.sub opts_s 2 (String.length opts_s - 2) else opts_s in
      let (redirect, opts_s) =
        if String.length opts_s > 2 && opts_s.[0] = 'r' then (opts_s.[1] = '1', String.sub opts_s 2 (String.length opts_s - 2)) else (false, opts_s) in
      let opts = { go_dump = (opts_s.[1] = '1'); go_trace = (opts_s.[3] = '1'); go_debug = (opts_s.[5] = '1');
                   go_answlog = (match String.sub opts_s 7 (String.length opts_s - 7) with
                                 | "-" -> None | "all" -> Some AnswAll | "warning" -> Some AnswWarning | "error" -> Some AnswError | _ -> Some AnswOther) } in
      let iters = num () in
      let n = num () in
      (* the steps as written: what the URI of step i answers (one hop of the target graph of Model/RobustRedirect.v) *)
      let raw = Array.of_list (List.init n (fun i ->
        let beh = next () in
        let conn = conn_of (next ()) in
        let status = z_of_int (num ()) in
        let bodyok_claimed = bool_of_field (next ()) in
        let body_f = next () in
        (* announced sizes: the wire of Model/RobustWire.v; whether the read succeeds is the MODEL's answer (body_complete) *)
        let body_len = if body_f = "-" then 0 else if body_f.[0] = '@' then int_of_string (String.sub body_f 1 (String.length body_f - 1)) else String.length body_f / 2 in
        let wire = (match String.split_on_char ':' beh with
          | ["lielen"; v] | ["h2lie"; v] -> Some { bw_announced = Some (z_of_string v); bw_arrives = z_of_int body_len; bw_clean_end = false }
          | ["chunksz"; _] -> Some { bw_announced = None; bw_arrives = z_of_int body_len; bw_clean_end = false }
          | _ -> None) in
        let bodyok = (match wire with Some w -> body_complete w | None -> bodyok_claimed) in
        let tok = strn () in
        let pp = next () in
        let tmpl = next () in
        let pre = next () in
        let resp = { rs_conn = (if refused then ConnRefused else conn); rs_status = status; rs_body_ok = bodyok; rs_h2 = target_h2 } in
        let (lc, counted) = (match String.split_on_char ':' beh with
          | ["redir"; _; k] when k <> "" ->
              (match k.[0] with
               | 's' | 'a' -> (LocStep (nat_of_int (int_of_string (String.sub k 1 (String.length k - 1)))), true)
               | 'p' -> (LocStep (nat_of_int i), false)
               | 'b' -> (LocBad, false) | 'd' -> (LocDead, false) | _ -> (LocNone, false))
          | _ -> (LocNone, false)) in
        (beh, resp, wire, body_f, tok, (pp, tmpl, pre), lc, counted))) in
      let dflt_hop = { hp_resp = { rs_conn = (if refused then ConnRefused else ConnOk); rs_status = z_of_int 200; rs_body_ok = true; rs_h2 = target_h2 }; hp_loc = LocNone } in
      let tgt (j : nat) : hop =
        let j = int_of_nat j in
        if j < n then (let (_, resp, _, _, _, _, lc, _) = raw.(j) in { hp_resp = resp; hp_loc = lc }) else dflt_hop in
      let never_back = ref false in
      let pp_codes = ref [] in
      let wires = ref [] in
      let dos = ref [] in
      let steps = List.init n (fun i ->
        let (_, own_resp, _, _, _, (pp, tmpl, pre), _, _) = raw.(i) in
        (* Client.Do at the URI of step i: one round trip, or net/http's redirect loop with the default policy *)
        let d = (match client_do redirect tgt (nat_of_int i) with
          | Some d -> d
          | None -> never_back := true; { dr_present = false; dr_resp = own_resp; dr_trace = [nat_of_int i] }) in
        dos := !dos @ [d];
        let resp = d.dr_resp in
        (* the step whose response the gun finally holds (its body, X-Token and wire are what the postprocessors see) *)
        let fin = if d.dr_present && resp.rs_conn = ConnOk then int_of_nat (last_step d (nat_of_int i)) else i in
        let (wire, body_f, tok) = if fin < n then (let (_, _, w, b, t, _, _, _) = raw.(fin) in (w, b, t)) else (None, "6f6b", []) in
        let wire = if d.dr_present && resp.rs_conn = ConnOk then wire else None in
        wires := !wires @ [wire];
        let status = resp.rs_status in
        (* the body bytes matter to the model only for assert/response *)
        let body = if pp.[0] = 'a' then expand_body body_f else [] in
        pp_codes := !pp_codes @ [pp];
        let pps = (match String.split_on_char ':' pp with
          | ["-"] -> []
          | ["h"; ch] -> [ (match var_header_one (chain_of_text (string_of_bytes (bytes_of_hex ch))) tok with Done _ -> Done () | Failed -> Failed | Panicked -> Panicked) ]
          | ["j"; b] | ["J"; b] ->
              (* the generator's claim is about the step's own body; after a redirect the body is another step's *)
              let b = if fin <> i then (if body_f = hx (bytes_of_string "{\"a\":{\"b\":\"v\"},\"items\":[1,2]}") then "1" else "0") else b in
              [ var_jsonpath_process true [b = "1"] ]
          | ["x"; k] -> [ xpath_values true (if k = "number" then XNumber else XNodeSet) ]
          | ["a"; st; pat] -> [ assert_process { as_body = [bytes_of_hex pat]; as_headers = []; as_status = z_of_int (int_of_string st); as_size = None }
                                  { rv_status = status; rv_header = (fun _ -> []); rv_body = body } ]
          | _ -> failwith "pp") in
        let pre_o = (match String.split_on_char ':' pre with
          | ["i"; ix; len] ->
              let ix = (match ix with "next" -> INext | "rand" -> IRand | "last" -> ILast
                        | s -> (match int_of_string_opt s with Some i -> INum (z_of_int i) | None -> IBad)) in
              (* which element [next]/[rand] pick is the iterator's business; only error / element / panic matters here *)
              extract_elem ix (z_of_int (int_of_string len)) (z_of_int 0) (z_of_int 0)
          | _ -> Done ()) in
        { si_opts = opts; si_pre = pre_o; si_tmpl_ok = (tmpl <> "e"); si_prep_ok = (tmpl <> "u0"); si_resp = resp; si_pps = pps }) in
      (* the wire-level step / shot with the memory this machine certainly has (1 GiB): by C19_step_wire_refines it is the
         abstract step with rs_body_ok = body_complete; anything else would be a panic / death the model predicts *)
      let mem = z_of_string "1073741824" in
      let base_c = { bc_bound = true; bc_connect = None; bc_http2 = h2gun; bc_opts = opts } in
      let wire_bad = List.exists2 (fun s w -> match w with
        | None -> false
        | Some w ->
            if gun = "scenario" then (match shoot_step_wire mem s w with WStep o -> o <> shoot_step s | WStepCrash -> true)
            else (match base_shoot_wire mem base_c false s.si_resp w with WShot o -> o <> base_shoot base_c false s.si_resp | WCrash -> true)) steps !wires in
      (* the Do-level step / shot ("response present" and "error" separate): by C19_redirect_gun_refines /
         C19_redirect_step_refines it is the abstract one on dr_resp; anything else would be a panic the model predicts *)
      let do_bad = List.exists2 (fun s d ->
        if gun = "scenario" then shoot_step_do s d <> shoot_step s
        else base_shoot_do base_c false d <> base_shoot base_c false s.si_resp) steps !dos in
      let shots =
        if wire_bad || do_bad then [ShotPanic []] else
        if gun = "http" || gun = "connect" || gun = "http2" then
          List.map (fun s -> base_shoot { bc_bound = true; bc_connect = None; bc_http2 = h2gun; bc_opts = opts } false s.si_resp) steps
        else List.init iters (fun _ -> scenario_shoot true steps) in
      let (samples, failed) = instance_run shots in
      (* redirects followed to the target with a hop counter (every kind but the unchanged-URI one), largest chain among
         the shots that are made: every step for the http guns, the executed ones of a scenario *)
      let nexec = if gun = "scenario" then int_of_nat (executed steps) else n in
      let counted_follows (d : do_result) =
        let rec go = function
          | a :: (_ :: _ as r) -> (let a = int_of_nat a in (if a < n && (let (_, _, _, _, _, _, _, c) = raw.(a) in c) then 1 else 0)) + go r
          | _ -> 0 in go d.dr_trace in
      let hops = if refused || (failed && h2gun) then 0 else
        List.fold_left max 0 (List.mapi (fun i d -> if i < nexec then counted_follows d else 0) !dos) in
      let show_s (s : sample) = Printf.sprintf "%d:%s" (int_of_z s.sm_code) (field_of_bool s.sm_err) in
      let ss = List.sort compare (List.map show_s samples) in
      let p = if !never_back then "run=hang timely=1 hops=runaway n=0" else
        Printf.sprintf "run=%s timely=1 hops=%d n=%d%s" (if failed then "panic" else "ok") hops (List.length ss) (String.concat "" (List.map (fun x -> " " ^ x) ss)) in
      (* specification: run ok; one sample per attempted request; clean exchange -> S<status>, anything else -> F *)
      let cls (s : string) = (match String.split_on_char ':' s with [code; "0"] -> "S" ^ code | _ -> "F") in
      let want = List.sort compare (List.map cls ss) in
      let v =
        (match split_blank obs with
         | run :: timely :: hops_o :: cnt :: rest ->
             (* the documented fatal condition: http2 gun and a target that does not negotiate HTTP/2 (and is reachable) *)
             if failed && h2gun && not target_h2 then (if run = "run=panic" then "ok" else "BAD:documented-fatal-condition-not-fatal")
             else if run = "run=crashed" then "BAD:process-crashed"
             else if run = "run=panic" then begin
               (* name the postprocessor of the first step that the model sees panicking *)
               let culprit = List.fold_left (fun acc (pp, st) ->
                 if acc <> "" then acc
                 else if List.exists (function Panicked -> true | _ -> false) st.si_pps then
                   (match pp.[0] with 'h' -> "var/header" | 'J' -> "var/jsonpath" | 'x' -> "var/xpath" | 'j' -> "var/jsonpath" | 'a' -> "assert/response" | _ -> "?")
                 else "") "" (List.combine !pp_codes steps) in
               "BAD:run-aborted-by-panic:" ^ (if culprit = "" then "unexplained" else culprit)
             end
             (* a chain of redirects the target never ends: the shot must come back all the same *)
             else if hops_o = "hops=runaway" then "BAD:redirect-chain-followed-without-end"
             else if run <> "run=ok" then "BAD:run-" ^ (String.sub run 4 (String.length run - 4))
             else if failed then "ok" (* the model predicts a panic the implementation did not have *)
             else if timely <> "timely=1" then
               (* a silent target was not given up: a stalled response past the configured response-header-timeout, or a
                  rejected CONNECT whose unfinished body the gun has no use for *)
               (if Array.exists (fun (beh, _, _, _, _, _, _, _) -> String.length beh >= 6 && String.sub beh 0 6 = "tunrej") raw
                then "BAD:rejected-connect-not-given-up" else "BAD:configured-timeout-not-honoured")
             else if cnt <> Printf.sprintf "n=%d" (List.length ss) then "BAD:sample-count"
             else if List.sort compare (List.map cls rest) <> want then "BAD:sample-content"
             else "ok"
         | _ -> "BAD:unparsable-observation") in
      (p, v, n > 1 || gun = "scenario")
  | "grpc" ->
      let _later = num () in
      let n = num () in
      let _downat = next () in
      let _answ = next () in
      (* every call ends with some status (200 while the target is there, 503 once it refuses): one sample per ammo *)
      let shots = List.init n (fun _ -> grpc_shoot (GrpcStatus (z_of_int 200))) in
      let (samples, failed) = instance_run shots in
      let p = Printf.sprintf "run=%s n=%d" (if failed || not (grpc_bind true false) then "err" else "ok") (List.length samples) in
      let v = (match split_blank obs with
        | run :: cnt :: _ ->
            if run = "run=panic" then "BAD:run-aborted-by-panic"
            else if run <> "run=ok" then "BAD:run-" ^ (String.sub run 4 (String.length run - 4))
            else if cnt <> Printf.sprintf "n=%d" n then "BAD:sample-count"
            else "ok"
        | _ -> "BAD:unparsable-observation") in
      (p, v, true)
  | "gscn" ->
      let iters = num () in
      let _answ = next () in
      let n = num () in
      let raw = Array.of_list (List.init n (fun _ -> let call = next () in let payload = next () in let srv = next () in let pp = next () in (call, payload, srv, pp))) in
      (* the target goes away for good when a `down` call reaches it; calls that never leave the gun do not reach it *)
      let down = ref false in
      let shots = ref [] in
      let any_pp = ref false in
      for _ = 1 to iters do
        let steps = ref [] in
        let going = ref true in
        for i = 0 to n - 1 do
          let (call, payload, srv, pp) = raw.(i) in
          let reaches = !going && call = "h" && payload = "ok" in
          if reaches && srv = "down" then down := true;
          let code = if !down then z_of_int 503 else
            (match int_of_string_opt srv with Some c -> z_of_zt (zt_of_n (grpc_code (n_of_int c))) | None -> z_of_int 503) in
          let out = if code = z_of_int 200 then Some (bytes_of_string (Printf.sprintf "hello:\"Hello s%d!\"" i)) else None in
          let asserts = (match String.split_on_char ':' pp with
            | ["a"; st; pat] -> any_pp := true; [ (z_of_int (int_of_string st), [bytes_of_hex pat]) ]
            | _ -> []) in
          let st = mk_gstep (payload <> "tmpl") (call = "h") (payload <> "bad") code out asserts in
          (match grpc_scn_step st with GStepOk _ -> () | _ -> going := false);
          steps := !steps @ [st]
        done;
        shots := !shots @ [grpc_scn_shoot !steps]
      done;
      let (samples, failed) = instance_run !shots in
      let show_s (s : sample) = Printf.sprintf "%d:%s" (int_of_z s.sm_code) (field_of_bool s.sm_err) in
      let ss = List.sort compare (List.map show_s samples) in
      let p = Printf.sprintf "run=%s n=%d%s" (if failed then "panic" else "ok") (List.length ss) (String.concat "" (List.map (fun x -> " " ^ x) ss)) in
      (* specification: run ok; one sample per executed call carrying the mapped status *)
      let v = (match split_blank obs with
        | run :: cnt :: rest ->
            if run = "run=panic" then "BAD:run-aborted-by-panic"
            else if run <> "run=ok" then "BAD:run-" ^ (String.sub run 4 (String.length run - 4))
            else if cnt <> Printf.sprintf "n=%d" (List.length ss) then "BAD:sample-count"
            else if rest <> ss then "BAD:sample-content"
            else "ok"
        | _ -> "BAD:unparsable-observation") in
      (p, v, n > 1 || !any_pp)
  | "gcall" ->
      let gun = next () in
      let inst = num () in
      let tmo = num () in
      let _answ = next () in
      let n = num () in
      let conv c = z_of_zt (zt_of_n (grpc_code c)) in
      let silent = ref 0 in
      let calls = List.init n (fun _ ->
        let call = next () in let payload = next () in let srv = next () in
        if call <> "h" then GcNoMethod else if payload <> "ok" then GcBadPayload
        else GcCall (match String.split_on_char ':' srv with
          | ["never"] -> incr silent; GbNever
          | ["late"; ms] -> incr silent; GbAnswer (n_of_int (tmo + int_of_string ms), n_of_int 0)
          | ["slow"; ms; c] -> GbAnswer (n_of_int (int_of_string ms), n_of_int (int_of_string c))
          | [c] -> GbAnswer (n_of_int 0, n_of_int (int_of_string c))
          | _ -> failwith "gcall srv")) in
      (* the samples of instances working side by side are, as a multiset, those of one instance taking every ammo *)
      (* scenario gun: the calls are the steps of one scenario, run `inst` times *)
      let rep l = List.concat (List.init inst (fun _ -> l)) in
      let ((samples, _elapsed), stuck) =
        if gun = "s" then (let ((ss, el), st) = scenario_timed conv code_ctx (n_of_int tmo) calls in ((rep ss, el), st))
        else instance_timed conv code_ctx (n_of_int tmo) calls in
      let show_s (s : sample) = Printf.sprintf "%d:%s" (int_of_z s.sm_code) (field_of_bool s.sm_err) in
      let ss = List.sort compare (List.map show_s samples) in
      let p = Printf.sprintf "run=%s n=%d timely=1%s" (if stuck then "hang" else "ok") (List.length ss) (String.concat "" (List.map (fun x -> " " ^ x) ss)) in
      (* specification: run ok; one sample per ammo; a call met with silence is given up within the configured timeout
         (+ slack) and reported with the DeadlineExceeded status, an answered one with the mapped status of the answer *)
      let want = List.sort compare (List.map show_s (
        if gun = "s" then
          (match grpc_scn_shoot (List.map (gstep_of conv (n_of_int tmo)) calls) with Returned ss -> rep ss | _ -> failwith "grpc_scn_shoot")
        else List.map (fun c -> match grpc_shoot (result_of conv (n_of_int tmo) c) with Returned [s] -> s | _ -> failwith "grpc_shoot") calls)) in
      let v = (match split_blank obs with
        | run :: cnt :: timely :: rest ->
            if run = "run=panic" then "BAD:run-aborted-by-panic"
            else if run <> "run=ok" then "BAD:run-" ^ (String.sub run 4 (String.length run - 4))
            else if cnt <> Printf.sprintf "n=%d" (List.length want) then "BAD:sample-count"
            else if timely <> "timely=1" then "BAD:silent-call-not-given-up-within-timeout"
            else if rest <> want then "BAD:sample-content"
            else "ok"
        | _ -> "BAD:unparsable-observation") in
      (p, v, n > 1 || !silent > 0)
  | _ -> ("unknown-case", "BAD:unknown-case", false)

let () = run_cases predict
