open Model
open Conv

(* observed log -> oevent list *)
let parse_ev (t : string) : oevent =
  if t = "E" then OEnd
  else begin
    let k = t.[0] in
    let rest = String.sub t 1 (String.length t - 1) in
    let num s = nat_of_int (int_of_string s) in
    match k with
    | 'G' -> OSpawn (num rest)
    | 'L' -> let n = String.length rest in
             OLeft (num (String.sub rest 0 (n - 1)), rest.[n - 1] = 'z')
    | 'N' -> let n = String.length rest in
             ONext (num (String.sub rest 0 (n - 1)), rest.[n - 1] = '+')
    | 'D' -> ODisc (num rest)
    | 'A' ->
        if rest.[String.length rest - 1] = '-' then OAcq (num (String.sub rest 0 (String.length rest - 1)), None)
        else (match String.split_on_char '=' rest with
              | [i; a] -> OAcq (num i, Some (num a))
              | _ -> failwith "bad A")
    | 'S' -> (match String.split_on_char '=' rest with [i; a] -> OShoot (num i, num a) | _ -> failwith "bad S")
    | 'R' -> (match String.split_on_char '=' rest with [i; a] -> ORel (num i, num a) | _ -> failwith "bad R")
    | _ -> failwith ("bad event " ^ t)
  end

(* the same log with what the await loop received: P Q T<n>n|c I<i>n|o *)
let parse_qev (t : string) : qevent =
  let num s = nat_of_int (int_of_string s) in
  let n = String.length t in
  if t = "P" then QProv
  else if t = "Q" then QAggr
  else if n >= 3 && t.[0] = 'T' then QStart (num (String.sub t 1 (n - 2)), t.[n - 1] = 'c')
  else if n >= 3 && t.[0] = 'I' && (t.[n - 1] = 'n' || t.[n - 1] = 'o') then QRun (num (String.sub t 1 (n - 2)), t.[n - 1] = 'o')
  else if n >= 1 && (t.[0] = 'P' || t.[0] = 'Q' || t.[0] = 'T' || t.[0] = 'I') then failwith ("unexpected result " ^ t)
  else QOp (parse_ev t)

let ops_only (l : qevent list) : oevent list =
  List.concat (List.map (fun e -> match e with QOp o -> [o] | _ -> []) l)

(* pairing_b n l (Coq, proved equivalent to the per-item statement by C03_pairing_checker) is
   quadratic; for long logs the events are grouped by item here (order preserved) and the
   extracted per-item checker item_complete_b is applied to each group: every item id < n
   has a complete history, no event mentions an item >= n. *)
let pairing_grouped (n : int) (l : event list) : bool =
  let groups = Array.make (max n 1) [] in
  let ok = ref true in
  List.iter (fun e -> let a = int_of_nat e.ev_item in
                      if a >= n then ok := false else groups.(a) <- e :: groups.(a)) l;
  !ok && (let r = ref true in
          for a = 0 to n - 1 do
            if not (item_complete_b (List.rev groups.(a))) then r := false
          done; !r)

let rec sum_own = function [] -> 0 | x :: r -> int_of_nat x.own + sum_own r

let predict (c : string) (obs : string) : string * string * bool =
  match split_blank c with
  | ["pool"; per; disc; t; a; _; _; _; _; sn; _prov] ->
      let per = bool_of_field per and disc = bool_of_field disc in
      let tn = int_of_string t and an = int_of_string a and sn = int_of_string sn in
      let cfg = { per_inst = per; discard_overflow = disc; prof = nat_of_int tn; ammo0 = nat_of_int an } in
      let (counters, logtxt) =
        match String.index_opt obs '|' with
        | Some p -> (String.trim (String.sub obs 0 p), String.trim (String.sub obs (p + 1) (String.length obs - p - 1)))
        | None -> (obs, "") in
      let toks = if logtxt = "" then [] else String.split_on_char ',' logtxt in
      let qevs = try List.map parse_qev toks with _ -> [QRun (nat_of_int 1000000, false)] in
      let evs = ops_only qevs in
      (* the pool model (Model/InstancePool.v): instance sections + start loop over S startup tokens +
         the await loop of Model/Pool.v fed with the observed results, in the observed order *)
      let ((pl, k), accepted) = preplay cfg qevs (pinit cfg (nat_of_int sn)) O in
      let st = pl.core in
      let sh = st.sh in
      let n = List.length st.insts in
      let started = n in
      let tokens = int_of_nat (tokens cfg st) in
      let left = if per then sum_own st.insts else int_of_nat sh.stoks in
      let term = terminal_b st in
      let i = int_of_nat in
      let pred_counters =
        Printf.sprintf "ok %d %d %d %d %d %d %d %d %d 0" (i sh.acquired) (i sh.released) (i sh.fired) (i sh.discarded)
          (i sh.request) (i sh.response) started started (tokens - left) in
      let pred_log =
        if accepted && term && pool_ended pl then logtxt
        else if accepted && term then "model-pool-not-ended"
        else if accepted then "model-not-terminal"
        else Printf.sprintf "model-rejects-event-%d:%s" (i k) (try List.nth toks (i k) with _ -> "?") in
      let pred = pred_counters ^ " | " ^ pred_log in
      (* the specification evaluated on the implementation's own counters and log *)
      let v =
        match split_blank counters with
        | [outcome; acq; rel; shots; dis; req; resp; istart; ifin; drawn; badsamples] ->
            let acq = int_of_string acq and rel = int_of_string rel and shots = int_of_string shots
            and dis = int_of_string dis and req = int_of_string req and resp = int_of_string resp
            and istart = int_of_string istart and ifin = int_of_string ifin in
            let drawn = int_of_string drawn in
            if outcome <> "ok" then "BAD:run-outcome-" ^ outcome
            (* C03_started: one instance per startup token, fewer only when the ammo or the shared profile ran out *)
            else if not (started_ok_b cfg (nat_of_int sn) (nat_of_int istart) (nat_of_int acq) (nat_of_int drawn)) then
              Printf.sprintf "BAD:instances-started started=%d startup-tokens=%d acquired=%d/%d drawn=%d/%d" istart sn acq an drawn tn
            else if istart = 0 then "ok" (* startup schedule without tokens: outside the statement *)
            else if shots + dis <> min (int_of_nat (cfg_tokens cfg (nat_of_int sn))) an then
              (* C03_conservation_pool: min(tokens, ammo) from the configuration alone *)
              Printf.sprintf "BAD:conservation-configured fired+discarded=%d min(tokens=%d,ammo=%d)" (shots + dis)
                (int_of_nat (cfg_tokens cfg (nat_of_int sn))) an
            else begin
              let tokens = if per then istart * tn else tn in
              (* discards carry no item in the observation: attach each to the item its instance holds *)
              (* item histories from the OBSERVED log (independent of the replay's acceptance) *)
              let oev_with_disc =
                let held = Hashtbl.create 16 in
                List.concat (List.map (fun e -> match e with
                  | OAcq (i, Some a) -> Hashtbl.replace held (int_of_nat i) a; [{ ev_inst = i; ev_kind = EAcq; ev_item = a }]
                  | OShoot (i, a) -> [{ ev_inst = i; ev_kind = EShoot; ev_item = a }]
                  | ODisc i -> (match Hashtbl.find_opt held (int_of_nat i) with
                                | Some a -> [{ ev_inst = i; ev_kind = EDisc; ev_item = a }]
                                | None -> [{ ev_inst = i; ev_kind = EDisc; ev_item = nat_of_int (acq + 1) }])
                  | ORel (i, a) -> Hashtbl.remove held (int_of_nat i); [{ ev_inst = i; ev_kind = ERel; ev_item = a }]
                  | _ -> []) evs) in
              if shots + dis <> min tokens an then
                Printf.sprintf "BAD:conservation fired+discarded=%d min(tokens=%d,ammo=%d)" (shots + dis) tokens an
              else if acq <> rel then "BAD:acquired<>released"
              else if not (pairing_grouped acq oev_with_disc) then "BAD:acquire-release-pairing"
              else if acq <= 150 && not (pairing_b (nat_of_int acq) oev_with_disc) then "BAD:pairing-checkers-disagree"
              else if badsamples <> "0" then "BAD:unexpected-sample-or-release"
              else if per && acq <> shots + dis then "BAD:unfired-with-per-instance-profiles"
              else if (not per) && acq - (shots + dis) > istart - 1 then "BAD:unfired-bound"
              else if req <> shots || resp <> shots then "BAD:request-response-counters"
              else if (not disc) && dis <> 0 then "BAD:discard-without-discard_overflow"
              else if istart <> ifin then "BAD:instance-start-finish-counters"
              else "ok"
            end
        | [o] -> "BAD:run-outcome-" ^ o
        | _ -> "BAD:unparsable-observation" in
      let nontrivial = n >= 2 && min tokens an >= 2 in
      (pred, v, nontrivial)
  | ("burst" | "cfgpool") :: per :: t :: a :: ninst :: _spec :: ([] | [_]) ->
      (* no log: the totals C03_conservation / C03_counters / C03_unfired determine *)
      let per = bool_of_field per and tn = int_of_string t and an = int_of_string a in
      (match split_blank obs with
       | [outcome; started; total; dreq; dresp; dacq; unf; dfin] ->
           let started = int_of_string started in
           let tokens = if per then started * tn else tn in
           let want = min tokens an in
           let pred = Printf.sprintf "ok %d %d 0 0 0 1 0" started (if started = 0 then 0 else want) in
           let v =
             if outcome <> "ok" then "BAD:run-outcome-" ^ outcome
             (* C03_started: a startup schedule with tokens starts at least one instance (fewer than all of them only
                with the ammo / the shared profile exhausted, and then the conservation below is what C03_conservation_pool gives) *)
             else if started = 0 && int_of_string ninst >= 1 then
               Printf.sprintf "BAD:instances-started started=0 startup-tokens=%s" ninst
             else if started = 0 then "ok"
             else if int_of_string total <> want then
               Printf.sprintf "BAD:conservation fired+discarded=%s min(tokens=%d,ammo=%d)" total tokens an
             else if dreq <> "0" || dresp <> "0" then
               Printf.sprintf "BAD:request-response-counters (Request-fired=%s Response-fired=%s)" dreq dresp
             else if dacq <> "0" then "BAD:acquired<>released"
             else if unf <> "1" then (if per then "BAD:unfired-with-per-instance-profiles" else "BAD:unfired-bound")
             else if dfin <> "0" then "BAD:instance-start-finish-counters"
             else "ok" in
           (pred, v, started >= 2 && want >= 2)
       | [o] -> ("?", "BAD:run-outcome-" ^ o, false)
       | _ -> ("?", "BAD:unparsable-observation", false))
  | _ -> ("unknown-case", "BAD:unknown-case", false)

let () = run_cases predict
