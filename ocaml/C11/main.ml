(* Driver of the extracted C11 model (GunOwner + ScenarioHeap + ScenarioAlias + the gRPC scenario
   model of C20).  Case / observation formats: harness/cmd/hC11/main.go. *)
open Model
open Conv

let split c s = if s = "" then [] else String.split_on_char c s
let bytes_of_field s = bytes_of_hex s
let str_of_bytes (b : n list) = String.concat "" (List.map (fun x -> String.make 1 (Char.chr (int_of_n x))) b)

(* ---------- own ---------- *)

let parse_ev (s : string) : oev =
  let body = String.sub s 1 (String.length s - 1) in
  let two () = match String.split_on_char '.' body with
    | [a; b] -> (nat_of_int (int_of_string a), nat_of_int (int_of_string b))
    | _ -> failwith "event" in
  match s.[0] with
  | 'm' -> OMake (nat_of_int (int_of_string body))
  | 'b' -> let (i, g) = two () in OBind (i, g)
  | 's' -> let (r, g) = two () in OStart (r, g)
  | 'e' -> let (r, g) = two () in OEnd (r, g)
  | _ -> failwith "event kind"

(* ---------- shared rendering (gRPC part identical to the C20 driver) ---------- *)

let render_msg (m : msg_c) : string =
  if m = [] then "-"
  else String.concat "," (List.map (fun (name, v) ->
      match v with
      | MStr s -> str_of_bytes name ^ ":s:" ^ hex_of_bytes s
      | MInt z -> str_of_bytes name ^ ":i:" ^ string_of_z z) m)

let canon_pairs (m : gmeta) : string =
  let items = List.map (fun (k, v) -> hex_of_bytes k ^ "=" ^ hex_of_bytes v) m in
  if items = [] then "-" else String.concat "," (List.sort compare items)

let render_md (m : gmeta) : string = canon_pairs (wire_meta m)

let timeout_s (t : z) : string =
  ZT.to_string (ZT.div (ZT.add (zt_of_z t) (ZT.of_int 500000000)) (ZT.of_string "1000000000"))

let call_key (s : msg_c sent) : string =
  hex_of_bytes s.s_method ^ "/" ^ render_msg s.s_message ^ "/" ^ render_md s.s_meta

let observed_calls (items : string list) : (string * string) list =
  List.filter_map (fun c ->
      match String.split_on_char '/' c with
      | [m; msg; md; _; st] -> Some (m ^ "/" ^ msg ^ "/" ^ md, st)
      | _ -> None) items

let respond_of calls (s : msg_c sent) : n =
  match List.assoc_opt (call_key s) calls with Some st -> n_of_string st | None -> n_of_int 2

let render_call respond (s : msg_c sent) : string =
  call_key s ^ "/" ^ timeout_s s.s_timeout ^ "/" ^ string_of_n (respond s)

let render_outcome respond (code : n) (o : msg_c outcome) : string =
  string_of_n code ^ ";" ^ (match o with Sent s -> render_call respond s | _ -> "-")

let parse_meta (s : string) : gmeta =
  if s = "-" then []
  else List.map (fun kv -> match String.split_on_char '=' kv with
      | [k; v] -> (bytes_of_field k, bytes_of_field v)
      | _ -> failwith "meta") (split ',' s)

let ns_of_ms (ms : string) : z = z_of_zt (ZT.mul (ZT.of_string ms) (ZT.of_int 1000000))

let parse_users s = List.map (fun u -> match String.split_on_char ':' u with
    | [t; i] -> (bytes_of_field t, bytes_of_field i) | _ -> failwith "user") (split ',' s)
let parse_order s = List.map (fun x -> nat_of_int (int_of_string x)) (split ',' s)
let parse_scens s = List.map (fun x -> match String.split_on_char ':' x with
    | [name; idx] -> (bytes_of_field name, List.map (fun i -> nat_of_int (int_of_string i)) (split '.' idx))
    | _ -> failwith "scen") (split '|' s)

let rec first_shot_diff i w g = match w, g with
  | [], [] -> "same"
  | x :: w', y :: g' -> if x = y then first_shot_diff (i + 1) w' g' else Printf.sprintf "shot%d" i
  | _ -> "shot-count"

(* post-state: one more clone per scenario, in provider order after the shots *)
let post_order nshots scens =
  let ns = List.length scens in
  List.init ns (fun k -> List.nth scens ((nshots + k) mod ns))

let split_post (obs : string) : string * string =
  match Str.bounded_split (Str.regexp_string " post ") obs 2 with
  | [a; b] -> (a, b)
  | _ -> (obs, "?")


(* ---------- hshare: requests held by several instances of one http provider (Model/AmmoShare.v) ---------- *)

let hex_decode (h : string) : string = if h = "-" then "" else String.init (String.length h / 2) (fun i -> Char.chr (int_of_string ("0x" ^ String.sub h (2 * i) 2)))
let hex_encode (s : string) : string = if s = "" then "-" else String.concat "" (List.map (fun c -> Printf.sprintf "%02x" (Char.code c)) (List.of_seq (String.to_seq s)))

let parse_kvs (s : string) : (string * string) list =
  if s = "-" then [] else List.map (fun kv -> match String.split_on_char '=' kv with
      | [k; v] -> (hex_decode k, "l" ^ v) | _ -> failwith "kv") (split ',' s)

(* http.Header.Add in config order: one entry per key, values in order *)
let group_cfg (cfg : (string * string) list) : (string * string list) list =
  List.fold_left (fun acc (k, v) ->
      if List.mem_assoc k acc then List.map (fun (k', vs) -> if k' = k then (k', vs @ [v]) else (k', vs)) acc
      else acc @ [(k, [v])]) [] cfg

(* capacity append([]string(nil), vv...) leaves: the allocator's size class for n 16-byte strings *)
let append_slack (n : int) : int =
  let classes = [16; 32; 48; 64; 80; 96; 112; 128; 144; 160; 176; 192; 208; 224; 240; 256; 288; 320; 352; 384; 416; 448; 480; 512;
                 576; 640; 704; 768; 896; 1024; 1152; 1280; 1408; 1536; 1792; 2048] in
  match List.find_opt (fun c -> c >= 16 * n) classes with Some c -> c / 16 - n | None -> 0

let share_predict (dec : string) (preload : string) (mws : string) (cfg : string) (file : string) (nammo : string)
    (ops : string) (obs : string) : string * string * bool =
  let cfg = group_cfg (parse_kvs cfg) and file = parse_kvs file in
  let file1 = List.map (fun (k, v) -> ((k, [v]), O)) file in
  let own = if dec = "raw" then file1 else [] in
  let stored =
    match dec with
    | "uri" | "uripost" ->     (* commonHeader.Clone(), then config keys the file lacks, copied by append *)
        file1 @ List.filter_map (fun (k, vs) -> if List.mem_assoc k file then None
                                  else Some ((k, vs), nat_of_int (append_slack (List.length vs)))) cfg
    | "raw" -> List.map (fun (k, vs) -> ((k, vs), O)) cfg                      (* decodedConfigHeaders.Clone() *)
    | _ -> List.map (fun (k, vs) -> ((k, vs), O)) cfg @ file1 in              (* Clone(), then Set per entry header *)
  (* the middleware body and the clipping of shared slices are what the translator read from the source (Gen/HeaderShareGen.v) *)
  let mwl = List.concat_map (fun m -> match String.split_on_char '.' m with
      | k :: _ -> gen_headerdate_mw (if k = "-" then "Date" else hex_decode k) | _ -> failwith "mw") (split ',' mws) in
  let c = { p_clip = gen_enrich_clip; p_gc = (fun n -> n); p_mws = mwl; p_own = (fun _ -> own); p_stored = (fun _ -> stored) } in
  let case_ops = split ',' ops and items = split ' ' obs in
  if List.length case_ops <> List.length items then ("run", "BAD:hshare:" ^ (if String.length obs > 40 then String.sub obs 0 40 else obs), false)
  else begin
    let inst o = nat_of_int (int_of_string (String.sub o 1 (String.length o - 1))) in
    let plan = List.concat (List.map2 (fun o it ->
        match o.[0] with
        | 'a' -> (match String.split_on_char ':' it with
            | _ :: t :: _ -> [PAcq (inst o, "@" ^ t)] | _ -> [PAcq (inst o, "@?")])
        | 'r' -> [PShoot (inst o)]
        | _ -> []) case_ops items) in
    let n = nat_of_int (int_of_string nammo) in
    let fresh = (preload = "0" && dec <> "jsonarr") in
    let pops = (if fresh then [] else decode_all n) @ ops_of_plan fresh n O plan in
    let hdr (l : (string * string list) list) : string =
      if l = [] then "-" else
        String.concat ";" (List.map (fun (k, vs) -> hex_encode k ^ "=" ^ String.concat "|" vs)
                             (List.sort (fun (a, _) (b, _) -> compare a b) l)) in
    let render (outs : (string * string list) list option list) : string =
      let rec go pops outs acc = match pops, outs with
        | ODecode _ :: pt, _ :: ot -> go pt ot acc
        | OAcq (i, _, v) :: pt, o :: ot ->
            go pt ot ((Printf.sprintf "a%d:%s:%s" (int_of_nat i) (String.sub v 1 (String.length v - 1))
                         (match o with Some l -> hdr l | None -> "none")) :: acc)
        | OShoot i :: pt, o :: ot ->
            go pt ot ((Printf.sprintf "r%d:%s" (int_of_nat i) (match o with Some l -> hdr l | None -> "none")) :: acc)
        | _ -> List.rev acc in
      let rs = ref (go pops outs []) in
      String.concat " " (List.map (fun o -> if o = "w" then "w" else (match !rs with x :: t -> rs := t; x | [] -> "?")) case_ops) in
    let keqb (a : string) (b : string) = (a = b) in
    let pred = render (prun keqb c pinit pops) in
    let want = render (spec_run keqb c (fun _ -> false) (fun _ -> None) pops) in
    (* judged on the observation alone: (1) what an instance finds in its request when it shoots is what it acquired;
       (2) every delivery of the same stored ammo carries the same literal values (only middleware values differ).
       Agreement of the acquired request with spec_request beyond that is correspondence (prediction), not C11. *)
    let hdr_of it = match String.split_on_char ':' it with
      | [_; _; h] -> h | [_; h] -> h | _ -> it in
    let lits_of h = String.concat ";" (List.map (fun kv -> match String.split_on_char '=' kv with
        | [k; vs] -> k ^ "=" ^ String.concat "|" (List.filter (fun v -> v <> "" && v.[0] <> '@') (String.split_on_char '|' vs))
        | _ -> kv) (split ';' h)) in
    let held = Hashtbl.create 8 and first_lits = Hashtbl.create 8 in
    let iso_ok = ref true and stable_ok = ref true and j = ref 0 in
    let nam = int_of_string nammo in
    List.iter2 (fun o it ->
        match o.[0] with
        | 'a' ->
            Hashtbl.replace held (String.sub o 1 (String.length o - 1)) (hdr_of it);
            let a = !j mod nam in incr j;
            (match Hashtbl.find_opt first_lits a with
             | None -> Hashtbl.replace first_lits a (lits_of (hdr_of it))
             | Some l -> if l <> lits_of (hdr_of it) then stable_ok := false)
        | 'r' ->
            (match Hashtbl.find_opt held (String.sub o 1 (String.length o - 1)) with
             | Some h -> if h <> hdr_of it then iso_ok := false
             | None -> iso_ok := false)
        | _ -> ()) case_ops items;
    let ok = !iso_ok && !stable_ok in
    let why =
      if not !iso_ok then "hshare:request-held-by-an-instance-altered-by-another-acquire:" ^ dec
      else "hshare:stored-ammo-altered-between-deliveries:" ^ dec in
    (* C11_share_isolated: the pointer-level model and the value-level specification agree *)
    let pred = if pred = want then want else "model-differs-from-spec" in
    let nacq = List.length (List.filter (fun o -> o.[0] = 'a') case_ops) in
    (pred, verdict ok why, nacq >= 2 && List.mem "w" case_ops)
  end

let predict (c : string) (obs : string) : string * string * bool =
  match split_blank c with
  | ["hshare"; dec; preload; mws; cfg; file; nammo; ops] ->
      if obs = "inconclusive-clock" then (obs, "ok", false)
      else share_predict dec preload mws cfg file nammo ops obs
  | ["own"; ninst; _nammo; _] ->
      if obs = "hang" then ("run", "BAD:own:engine-hang", false)
      else begin
        let evs = if obs = "-" then [] else List.map parse_ev (split ',' obs) in
        let spec_ok = exclusive_b evs in
        match orun oinit evs with
        | Some _ -> (obs, verdict spec_ok "own:gun-not-exclusive", int_of_string ninst > 1 && List.length evs > 6)
        | None ->
            let k = (match orun_stuck oinit evs O with Some k -> int_of_nat k | None -> -1) in
            (Printf.sprintf "model-rejects-event-%d" k, verdict spec_ok "own:gun-not-exclusive", false)
      end
  | ["agrpc"; ninst; tmo; order; users; defs; scens] ->
      let order = parse_order order and users = parse_users users and scens = parse_scens scens in
      let defs = List.map (fun d -> match String.split_on_char ';' d with
        | [name; tag; call; meta; payload; pp] ->
            { cd_name = bytes_of_field name; cd_tag = bytes_of_field tag; cd_call = bytes_of_field call;
              cd_meta = parse_meta meta; cd_payload = bytes_of_field payload; cd_pp = (pp = "1") }
        | _ -> failwith "def") (split '|' defs) in
      let timeout = ns_of_ms tmo in
      let (shots_s, post_s) = split_post obs in
      let shots = split '#' shots_s in
      let items = List.concat_map (split '|') shots in
      let calls = observed_calls (List.filter_map (fun it -> match String.split_on_char ';' it with [_; cs] -> Some cs | _ -> None) items) in
      let respond = respond_of calls in
      let render (res : outs list) : string list =
        List.map (fun os -> if os = [] then "none" else String.concat "|" (List.map (fun o -> render_outcome respond (out_code grpc_code respond o) o) os)) res in
      let h0 = heap_of defs in
      let (h1, m) = scen_model users defs scens h0 (sguns_of (nat_of_int (int_of_string ninst)) timeout) O O order in
      let sp = scen_spec users defs scens timeout h0 O O order in
      let post_of (heap : gmeta list) =
        String.concat "#" (List.map (fun (sname, idx) ->
          hex_of_bytes sname ^ ":" ^ String.concat "|" (List.map (fun i ->
            let i = int_of_nat i in
            let d = List.nth defs i in
            hex_of_bytes d.cd_name ^ ";" ^ hex_of_bytes d.cd_call ^ ";" ^ canon_pairs (List.nth heap i) ^ ";" ^ hex_of_bytes d.cd_payload) idx))
          (post_order (List.length order) scens)) in
      let want = String.concat "#" (render sp) ^ " post " ^ post_of h0 in
      let pred = String.concat "#" (render m) ^ " post " ^ post_of h1 in
      let ok = (want = obs) in
      let why =
        if ok then ""
        else if post_s <> post_of h0 then "agrpc:shared-definition-altered"
        else "agrpc:rendered:" ^ first_shot_diff 0 (render sp) shots in
      (pred, verdict ok why, List.length order > 1 && List.exists (fun d -> d.cd_meta <> []) defs)
  | ["ahttp"; _ninst; order; users; defs; scens] ->
      let order = parse_order order and users = parse_users users and scens = parse_scens scens in
      let defs = List.map (fun d -> match String.split_on_char ';' d with
        | [name; meth; uri; hdrs; body; pp; asrt] ->
            { h_name = bytes_of_field name; h_method = bytes_of_field meth; h_uri = bytes_of_field uri;
              h_headers = parse_meta hdrs; h_body = (if body = "-" then None else Some (bytes_of_field body)); h_pp = (pp = "1");
              h_assert = (asrt = "1") }
        | _ -> failwith "hdef") (split '|' defs) in
      let (shots_s, post_s) = split_post obs in
      let shots = split '#' shots_s in
      let sp = http_spec users defs scens O O order in
      let parts p =
        hex_of_bytes p.p_method ^ "/" ^ hex_of_bytes p.p_url ^ "/" ^ canon_pairs p.p_headers ^ "/" ^
        (match p.p_body with None -> "-" | Some b -> hex_of_bytes b) in
      (* one sample per executed step: 200 + the request; 0 + the request when a postprocessor
         rejected the delivered answer; 0 and no request when the templates failed *)
      let render_step (o : hout) = match o with
        | HTmplErr -> "0;-"
        | HPostFail p -> "0;" ^ parts p
        | HOk p -> "200;" ^ parts p in
      let want_shots = List.map (fun os -> if os = [] then "none" else String.concat "|" (List.map render_step os)) sp in
      let post =
        String.concat "#" (List.map (fun (sname, idx) ->
          hex_of_bytes sname ^ ":" ^ String.concat "|" (List.map (fun i ->
            let d = List.nth defs (int_of_nat i) in
            hex_of_bytes d.h_name ^ ";" ^ hex_of_bytes d.h_method ^ ";" ^ hex_of_bytes d.h_uri ^ ";" ^ canon_pairs d.h_headers ^ ";" ^
            (match d.h_body with None -> "-" | Some [] -> "00empty" | Some b -> hex_of_bytes b)) idx))
          (post_order (List.length order) scens)) in
      let want = String.concat "#" want_shots ^ " post " ^ post in
      let ok = (want = obs) in
      let why =
        if ok then ""
        else if post_s <> post then "ahttp:shared-definition-altered"
        else "ahttp:rendered:" ^ first_shot_diff 0 want_shots shots in
      (want, verdict ok why, List.length order > 1 && List.exists (fun d -> d.h_headers <> []) defs)
  | "ammo" :: ninst :: _ ->
      if obs = "hang" then ("run", "BAD:ammo:engine-hang", false)
      else begin
        let parse s =
          let body = String.sub s 1 (String.length s - 1) in
          match String.split_on_char '.' body with
          | [r; a] ->
              let r = nat_of_int (int_of_string r) and a = nat_of_int (int_of_string a) in
              if s.[0] = 'q' then AAcq (r, a) else ARel (r, a)
          | _ -> failwith "ammo event" in
        let evs = if obs = "-" then [] else List.map parse (split ',' obs) in
        let spec_ok = ammo_exclusive_b evs in
        match arun [] evs with
        | Some _ -> (obs, verdict spec_ok "ammo:object-not-exclusive", int_of_string ninst > 1 && List.length evs > 8)
        | None ->
            let k = (match arun_stuck [] evs O with Some k -> int_of_nat k | None -> -1) in
            (Printf.sprintf "model-rejects-event-%d" k, verdict spec_ok "ammo:object-not-exclusive", false)
      end
  | ["cfg"; _; _; ninst; mda; mdb] ->
      (* the effective reflect_metadata of each pool's guns is that pool's own section *)
      let want = "A=" ^ render_md (parse_meta mda) ^ ";B=" ^ render_md (parse_meta mdb) in
      let pre p = String.length obs >= String.length p && String.sub obs 0 (String.length p) = p in
      let why =
        if obs = want then ""
        else if pre "race:" || pre "fatal:" then obs
        else if pre "A=" then "cfg:gun-option-of-one-pool-seen-in-another"
        else "cfg:" ^ (if String.length obs > 60 then String.sub obs 0 60 else obs) in
      (want, verdict (obs = want) why, int_of_string ninst >= 1)
  | ["shs"; spec; _mode; trials; _take] ->
      (* one schedule shared by the instances, started by whichever calls Next first: nobody is told
         "finished" before it ended (Model/SharedSched.v, Properties/C11_sched.v) *)
      let fields = List.filter_map (fun kv -> match String.split_on_char '=' kv with
          | [k; v] -> (try Some (k, int_of_string v) with _ -> None) | _ -> None) (split ' ' obs) in
      let get k = List.assoc_opt k fields in
      (match get "total", get "taken", get "prem", get "cb", get "nextbad", get "endbad", get "within" with
       | Some total, Some taken, Some prem, Some cb, Some nextbad, Some endbad, Some within ->
           let has_unl = List.exists (fun p -> String.length p >= 4 && String.sub p 0 4 = "unl:") (split '+' spec) in
           let fin_seen = prem > 0 || cb > 0 and next_false = nextbad > 0 in
           let ok, why =
             if has_unl && total <> -1 then (false, "shs:unstarted-schedule-with-an-unlimited-part-does-not-report-unknown-left")
             else if total < 0 then
               (if not has_unl then (false, "shs:finite-schedule-reports-unknown-left")
                else if shared_seen_ok_b (within = 1) fin_seen next_false then (true, "")
                else if fin_seen then (false, "shs:instance-told-finished-before-the-shared-schedule-ended")
                else (false, "shs:next-refused-before-the-shared-schedule-ended"))
             else if not (shared_fin_ok_b (nat_of_int total) (nat_of_int taken) fin_seen next_false) then
               (if fin_seen then (false, "shs:instance-told-finished-while-tokens-were-left")
                else (false, "shs:next-refused-while-tokens-were-left"))
             else if endbad > 0 then (false, "shs:drained-schedule-not-reported-finished-exactly-once")
             else (true, "") in
           let want = Printf.sprintf "total=%d taken=%d prem=0 cb=0 nextbad=0 endbad=0 within=%d" total taken within in
           ((if ok then obs else want), verdict ok why, int_of_string trials >= 2)
       | _ -> ("total=.. taken=.. prem=0 cb=0 nextbad=0 endbad=0 within=1", "BAD:shs:" ^ obs, false))
  | ["shse"; ninst; runs; _k; _dur] ->
      let want = Printf.sprintf "runs=%s short=0 cancel=0 err=0" runs in
      let fields = List.filter_map (fun kv -> match String.split_on_char '=' kv with
          | [k; v] -> (try Some (k, int_of_string v) with _ -> None) | _ -> None) (split ' ' obs) in
      let get k = match List.assoc_opt k fields with Some v -> v | None -> 1 in
      (* the run is far shorter than the schedule's duration: no instance may leave on "finished", the start is not cancelled *)
      let ok = shared_seen_ok_b true (get "short" > 0 || get "cancel" > 0) false && get "err" = 0 && obs = want in
      let why = if get "short" > 0 || get "cancel" > 0 then "shse:instance-left-or-start-cancelled-on-unfinished-shared-schedule"
        else "shse:engine-run-failed" in
      (want, verdict ok why, int_of_string ninst > 1)
  | ["sched"; ninst; _; _] ->
      (* running a pool over a shared built-in schedule ends without a runtime fault *)
      let why = if obs = "hang" then "sched:engine-hang"
        else if String.length obs > 4 && String.sub obs 0 4 = "err:" then
          "sched:" ^ (if String.length obs > 80 then String.sub obs 4 76 else String.sub obs 4 (String.length obs - 4))
        else "sched:" ^ obs in
      ("ok", verdict (obs = "ok") why, int_of_string ninst > 1)
  | ["race"; pool; ninst; _; variant] ->
      let ok = (obs = "clean") in
      let why = if ok then "" else
        (let pre p = String.length obs >= String.length p && String.sub obs 0 (String.length p) = p in
         if pre "race:" || pre "fatal:" then obs
         else if pre "counts:" then "pool-run:" ^ pool ^ ":samples-do-not-match-exchanges"
         else if pre "enginerr:" then "pool-run:" ^ pool ^ ":" ^ (if String.length obs > 90 then String.sub obs 0 90 else obs) else "race-run:" ^ pool ^ ":" ^ variant ^ ":" ^ (if String.length obs > 60 then String.sub obs 0 60 else obs)) in
      ("clean", verdict ok why, int_of_string ninst > 1)
  | _ -> ("unknown-case", "BAD:unknown-case", false)

let () = run_cases predict
