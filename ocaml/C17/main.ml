(* Driver of the extracted C17 model (config decoding). See harness/cmd/hC17/main.go for the case format. *)
open Model
open Conv

let str_of_string (s : string) : n list = List.init (String.length s) (fun i -> n_of_int (Char.code s.[i]))
let string_of_str (l : n list) : string =
  let b = Buffer.create 16 in
  List.iter (fun c -> Buffer.add_char b (Char.chr (int_of_n c land 255))) l;
  Buffer.contents b
let str_of_hex = bytes_of_hex
let hex_of_str = hex_of_bytes

let q_of_string (s : string) : q =
  match String.split_on_char '/' s with
  | [a; b] -> { qnum = z_of_string a; qden = pos_of_zt (ZT.of_string b) }
  | [a] -> { qnum = z_of_string a; qden = XH }
  | _ -> failwith "bad rational"

(* ---- tree tokens *)
let parse_tree (s : string) : value =
  let i = ref 0 in
  let len = String.length s in
  let until stop =
    let j = ref !i in
    while !j < len && not (String.contains stop s.[!j]) do incr j done;
    let r = String.sub s !i (!j - !i) in
    i := !j; r in
  let rec value () : value =
    let c = s.[!i] in
    incr i;
    match c with
    | 'n' -> VNull
    | 't' -> VBool true
    | 'f' -> VBool false
    | 'i' -> VInt (z_of_string (until ",)"))
    | 'r' -> VFloat (q_of_string (until ",)"))
    | 's' -> VStr (str_of_hex (until ",)"))
    | 'l' ->
        incr i;
        let acc = ref [] in
        while s.[!i] <> ')' do
          acc := value () :: !acc;
          if s.[!i] = ',' then incr i
        done;
        incr i;
        VList (List.rev !acc)
    | 'm' ->
        incr i;
        let acc = ref [] in
        while s.[!i] <> ')' do
          let k = str_of_hex (until ":") in
          incr i;
          let v = value () in
          acc := (k, v) :: !acc;
          if s.[!i] = ',' then incr i
        done;
        incr i;
        VMap (List.rev !acc)
    | _ -> failwith "bad tree token"
  in
  value ()

let parse_path (s : string) : step list =
  if s = "-" then []
  else
    List.map (fun t ->
      if t.[0] = 'i' then SIdx (nat_of_int (int_of_string (String.sub t 1 (String.length t - 1))))
      else SKey (str_of_hex (String.sub t 1 (String.length t - 1))))
      (String.split_on_char '/' s)

let parse_table (s : string) : (string, string) Hashtbl.t =
  let h = Hashtbl.create 64 in
  if s <> "-" && s <> "" then
    List.iter (fun e ->
      match String.rindex_opt e '=' with
      | Some i -> Hashtbl.replace h (String.sub e 0 i) (String.sub e (i + 1) (String.length e - i - 1))
      | None -> ()) (String.split_on_char ',' s);
  h

(* ---- cval dumps (same syntax as harness/internal/a16schema/dump.go) *)
let rec dump (c : cval) : string =
  match c with
  | CNil -> "N"
  | CBool b -> if b then "b1" else "b0"
  | CInt z -> "i" ^ string_of_z z
  | CFloat q -> "r" ^ string_of_z q.qnum ^ "/" ^ ZT.to_string (zt_of_pos q.qden)
  | CStr s -> "s" ^ hex_of_str s
  | CStruct l -> "{" ^ String.concat ";" (List.map dump l) ^ "}"
  | CSlice l -> "[" ^ String.concat ";" (List.map dump l) ^ "]"
  | CMap kvs ->
      let l = List.map (fun (k, v) -> (string_of_str k, hex_of_str k ^ "=" ^ dump v)) kvs in
      let l = List.sort (fun (a, _) (b, _) -> compare a b) l in
      "<" ^ String.concat ";" (List.map snd l) ^ ">"
  | CAny v -> (match v with VNull -> "N" | _ -> "A")
  | CPlugin (_, _, _) -> "P"

let parse_dump (s : string) : cval =
  let i = ref 0 in
  let len = String.length s in
  let until stop =
    let j = ref !i in
    while !j < len && not (String.contains stop s.[!j]) do incr j done;
    let r = String.sub s !i (!j - !i) in
    i := !j; r in
  let rec value () : cval =
    let c = s.[!i] in
    incr i;
    match c with
    | 'N' -> CNil
    | 'P' -> CPlugin ([], false, CNil)
    | 'A' -> CAny VNull
    | 'b' -> let r = CBool (s.[!i] = '1') in incr i; r
    | 'i' -> CInt (z_of_string (until ";}]>"))
    | 'r' -> CFloat (q_of_string (until ";}]>"))
    | 's' -> CStr (str_of_hex (until ";}]>"))
    | '{' -> CStruct (seq '}')
    | '[' -> CSlice (seq ']')
    | '<' ->
        let acc = ref [] in
        while s.[!i] <> '>' do
          let k = str_of_hex (until "=") in
          incr i;
          let v = value () in
          acc := (k, v) :: !acc;
          if s.[!i] = ';' then incr i
        done;
        incr i;
        CMap (List.rev !acc)
    | _ -> failwith "bad dump"
  and seq close =
    let acc = ref [] in
    while s.[!i] <> close do
      acc := value () :: !acc;
      if s.[!i] = ';' then incr i
    done;
    incr i;
    List.rev !acc
  in
  value ()

(* ---- oracles from the tables of the case line *)
let oracle_miss = ref false
(* round 8: strconv.ParseInt(s, 0, bits) is no longer an oracle of the driver: the decoder runs with the modelled literal
   reader (Model/ConfigIntLiteral.v parse_int); the answers of the real strconv in the oracle table are compared with it
   on every text the decoder asks about *)
let literal_disagree = ref false
let text_of_arg (a : string) : n list = if a = "-" || a = "" then [] else str_of_hex a

let mk_oracles (orc_tok : string) (env_tok : string) (prop_tok : string) =
  let t = parse_table orc_tok and e = parse_table env_tok and p = parse_table prop_tok in
  let known s = if not (Hashtbl.mem t ("s:" ^ hex_of_str s)) then oracle_miss := true in
  let look kind s = known s; Hashtbl.find_opt t (kind ^ ":" ^ hex_of_str s) in
  let orc (k : okind) (s : n list) : z option =
    let kind = match k with
      | ODur -> "d" | OSize -> "z" | OText -> "x" | OEndpoint -> "e" | OUrlPath -> "u"
      | OInt bits -> "I" ^ string_of_n bits
      | OUint bits -> "U" ^ string_of_n bits in
    let o = (match look kind s with Some r -> Some (z_of_string r) | None -> None) in
    match k with
    | OInt bits ->
        let m = parse_int bits s in
        if m <> o then literal_disagree := true;
        m
    | OUint bits ->
        let m = parse_uint bits s in
        if m <> o then literal_disagree := true;
        m
    | _ -> o in
  let orcq (s : n list) : q option = match look "F" s with Some r -> Some (q_of_string r) | None -> None in
  (* the environment of the case as a list of NAME=value entries; the model looks the name up itself *)
  let envl = Hashtbl.fold (fun k h acc -> (str_of_string k, str_of_hex h) :: acc) e [] in
  let env = env_of_list envl in
  (* the property files of the case, verbatim; the model reads them itself *)
  let files (file : n list) : n list option =
    match Hashtbl.find_opt p (string_of_str file) with Some h -> Some (str_of_hex h) | None -> None in
  let prop = prop_of_files files in
  (env, prop, orc, orcq)

let no_env (_ : n list) : n list option = None
let no_prop (_ : n list) (_ : n list) : n list option = None

let show (r : cval res) : string =
  match r with Ok c -> "ok " ^ dump c | Err _ -> "err" | Fuel -> "fuel"

(* whole configurations: the harness also calls the gun and rps factories of every pool twice *)
let show_full (r : cval res) : string =
  match r with
  | Ok (CStruct (CSlice pools :: _) as c) -> "ok " ^ dump c ^ " f=" ^ String.make (4 * List.length pools) '1'
  | Ok c -> "ok " ^ dump c ^ " f="
  | _ -> show r

let split_factories (obs : string) : string * string =
  let n = String.length obs in
  let rec find i =
    if i < 0 then None
    else if i + 3 <= n && String.sub obs i 3 = " f=" then Some i
    else find (i - 1) in
  match find (n - 3) with
  | Some i -> (String.sub obs 0 i, String.sub obs (i + 3) (n - i - 3))
  | None -> (obs, "")

(* navigation in written trees *)
let rec value_at (p : step list) (v : value) : value option =
  match p, v with
  | [], _ -> Some v
  | SKey k :: r, VMap kvs ->
      (match List.find_opt (fun (k', _) -> k' = k) kvs with Some (_, x) -> value_at r x | None -> None)
  | SIdx i :: r, VList l -> (match List.nth_opt l (int_of_nat i) with Some x -> value_at r x | None -> None)
  | _, _ -> None

let fields_key_index (s : schema) (key : string) : int option =
  let rec go i = function
    | [] -> None
    | f :: r -> if String.lowercase_ascii (string_of_str (f_key f)) = key then Some i else go (i + 1) r in
  go 0 (flat_fields s)

let s_discard = "discard_overflow"

(* the pool struct schema inside the root schema *)
let pool_schema () : schema option =
  match List.find_opt (fun f -> string_of_str (f_key f) = "pools") (flat_fields gen_root_schema) with
  | Some f -> (match f_schema f with SSlice e -> Some e | _ -> None)
  | None -> None

let expected_discard (tree : value) : bool list =
  match tree with
  | VMap kvs ->
      (match List.find_opt (fun (k, _) -> string_of_str k = "pools") kvs with
       | Some (_, VList pools) ->
           List.map (fun p -> match p with
             | VMap pk -> (match List.find_opt (fun (k, _) -> string_of_str k = s_discard) pk with
                           | Some (_, VBool b) -> b | Some _ -> true | None -> true)
             | _ -> true) pools
       | _ -> [])
  | _ -> []

let observed_discard (c : cval) : bool list option =
  match pool_schema (), fields_key_index gen_root_schema "pools" with
  | Some ps, Some pi ->
      (match c, fields_key_index ps s_discard with
       | CStruct top, Some di ->
           (match List.nth_opt top pi with
            | Some (CSlice pools) ->
                Some (List.map (fun p -> match p with
                  | CStruct fs -> (match List.nth_opt fs di with Some (CBool b) -> b | _ -> false)
                  | _ -> false) pools)
            | _ -> None)
       | _, _ -> None)
  | _, _ -> None

let starts_with_s (p : string) (s : string) = String.length s >= String.length p && String.sub s 0 (String.length p) = p
let starts_with (p : string) (s : string) = String.length s >= String.length p && String.sub s 0 (String.length p) = p

(* ---- direct cases: header lists and property files *)
let herr_name (e : herr) : string = match e with HFormat -> "format" | HEmptyKey -> "emptykey"

let predict_hdr (f : string array) (obs : string) : string * string * bool =
  let n = int_of_string f.(1) in
  let lines = if n = 0 then [] else List.map str_of_hex (String.split_on_char ',' f.(2)) in
  let per = List.map (fun l -> match hdr_line l with
    | Inl (k, v) -> "L:" ^ hex_of_str k ^ ":" ^ hex_of_str v
    | Inr e -> "E:" ^ herr_name e) lines in
  let (kvs, err) = hdr_decode lines in
  let res = (match err with None -> "R:ok:" ^ string_of_int (List.length kvs) | Some e -> "R:err:" ^ herr_name e) in
  let pred = (if per = [] then "-" else String.concat ";" per) ^ " " ^ res in
  (* the specification, evaluated on the implementation's answer: the list is an error exactly when one of its lines
     is, and an accepted list yields one header value per line *)
  let verdict =
    (match String.split_on_char ' ' obs with
     | [po; ro] ->
         let pl = if po = "-" then [] else String.split_on_char ';' po in
         let any_bad = List.exists (fun x -> starts_with_s "E:" x) pl in
         if starts_with_s "R:err" ro then (if any_bad then "ok" else "BAD:well-formed-header-list-refused")
         else if starts_with_s "R:ok:" ro then
           (if any_bad then "BAD:malformed-header-line-dropped"
            else if ro = "R:ok:" ^ string_of_int (List.length pl) then "ok" else "BAD:header-line-lost")
         else "BAD:bad-observation"
     | _ -> "BAD:bad-observation") in
  (pred, verdict, true)

let predict_prop (f : string array) (obs : string) : string * string * bool =
  let content = str_of_hex f.(1) and key = str_of_hex f.(2) in
  let files (_ : n list) : n list option = Some content in
  let pred = (match prop_of_files files [] key with Some d -> "ok " ^ hex_of_str d | None -> "err") in
  (* prop_of_files is proved to be the specification of well-formed files (C17_property_file): compared directly *)
  let verdict =
    if obs = pred then "ok"
    else if pred = "err" then "BAD:missing-property-resolved"
    else if obs = "err" then "BAD:property-not-found"
    else "BAD:property-data-wrong" in
  (pred, verdict, true)

let predict_env (f : string array) (obs : string) : string * string * bool =
  let e = parse_table f.(1) and name = str_of_hex f.(2) in
  let envl = Hashtbl.fold (fun k h acc -> (str_of_string k, str_of_hex h) :: acc) e [] in
  let pred = (match env_of_list envl name with Some v -> "ok " ^ hex_of_str v | None -> "err") in
  (* env_of_list is the specification (C17_environment: the first entry named exactly so, else unset): compared directly *)
  let verdict =
    if obs = pred then "ok"
    else if pred = "err" then "BAD:unset-variable-resolved"
    else if obs = "err" then "BAD:variable-not-found"
    else "BAD:variable-value-wrong" in
  (pred, verdict, true)

(* ---- schema tokens of the case kind typed (grammar in harness/cmd/hC17/typed.go) *)
let parse_schema (s : string) : schema =
  let i = ref 0 in
  let len = String.length s in
  let until stop =
    let j = ref !i in
    while !j < len && not (String.contains stop s.[!j]) do incr j done;
    let r = String.sub s !i (!j - !i) in
    i := !j; r in
  let tag (t : string) : vtag =
    let arg () = z_of_string (String.sub t 1 (String.length t - 1)) in
    match t.[0] with
    | 'R' -> TRequired | 'm' -> TMin (arg ()) | 'M' -> TMax (arg ())
    | 't' -> TMinTime (arg ()) | 'T' -> TMaxTime (arg ()) | 'z' -> TMinSize (arg ()) | 'Z' -> TMaxSize (arg ())
    | 'E' -> TEndpoint | 'P' -> TUrlPath
    | _ -> failwith "bad tag" in
  let rec typ () : schema =
    match s.[!i] with
    | '{' -> SStruct (false, fields ())
    | '*' -> incr i; SStruct (true, fields ())
    | '[' -> incr i; let e = typ () in incr i; SSlice e
    | '<' -> incr i; let e = typ () in incr i; SMap e
    | _ ->
        let nm = until ";}]>" in
        let bits b = n_of_int (if b = "N" then 64 else int_of_string b) in
        (match nm with
         | "b" -> SScalar KBool | "f" -> SScalar KFloat | "s" -> SScalar KString
         | "d" -> SScalar KDuration | "z" -> SScalar KSize | "x" -> SScalar (KText (n_of_int 8))
         | "U" | "I" -> SScalar KOpaque
         | _ when nm.[0] = 'i' -> SScalar (KInt (bits (String.sub nm 1 (String.length nm - 1))))
         | _ when nm.[0] = 'u' -> SScalar (KUint (bits (String.sub nm 1 (String.length nm - 1))))
         | _ -> failwith "bad schema token")
  and fields () =
    incr i;
    let acc = ref [] in
    while s.[!i] <> '}' do
      let key = str_of_hex (until ":") in
      incr i;
      let tags = until ":" in
      incr i;
      let t = typ () in
      let tl = if tags = "-" || tags = "" then [] else List.map tag (String.split_on_char ',' tags) in
      acc := (((key, false), tl), t) :: !acc;
      if s.[!i] = ';' then incr i
    done;
    incr i;
    List.rev !acc
  in
  typ ()

(* ---- the option applied to the component (case kind app) *)
let path_string (p : n list list) : string = String.concat "." (List.map string_of_str p)

(* "hexlabel{v;v},hexlabel{...}" -> (label, values) list; values are compared as text *)
let parse_groups (s : string) : (string * string list) list =
  if s = "-" || s = "" then [] else
  let groups = ref [] and i = ref 0 and n = String.length s in
  while !i < n do
    let j = (try String.index_from s !i '{' with Not_found -> n) in
    if j >= n then begin groups := (String.sub s !i (n - !i), ["?"]) :: !groups; i := n end
    else begin
      let label = String.sub s !i (j - !i) in
      (* values may nest braces / brackets *)
      let depth = ref 0 and k = ref j and vals = ref [] and start = ref (j + 1) and fin = ref false in
      while not !fin && !k < n do
        (match s.[!k] with
         | '{' | '[' | '<' -> incr depth
         | '}' | ']' | '>' ->
             decr depth;
             if !depth = 0 then begin
               if !k > !start || !vals <> [] then vals := String.sub s !start (!k - !start) :: !vals;
               fin := true
             end
         | ';' -> if !depth = 1 then begin vals := String.sub s !start (!k - !start) :: !vals; start := !k + 1 end
         | _ -> ());
        incr k
      done;
      groups := (label, List.rev !vals) :: !groups;
      i := !k;
      if !i < n && s.[!i] = ',' then incr i
    end
  done;
  List.rev !groups

let predict_app (f : string array) (obs : string) : string * string * bool =
  let iface = str_of_hex f.(1) and name = str_of_hex f.(2) in
  let mut = f.(3) in
  let (env, prop, orc, orcq) = mk_oracles f.(5) f.(6) f.(7) in
  let tree = parse_tree f.(8) in
  match lookup_entry gen_registry iface name with
  | None -> ("nocomp", "BAD:unknown-component", false)
  | Some e ->
    (match e.e_conf with
     | None -> ("nocomp", "BAD:unknown-component", false)
     | Some (cs, d) ->
       let show_groups gs =
         if gs = [] then "-" else
         String.concat "," (List.map (fun (label, vals) ->
           hex_of_str label ^ "{" ^ String.concat ";" (List.map (fun (_, v) ->
             match v with Some c -> dump c | None -> "?") vals) ^ "}") gs) in
       let pred =
         (match decode env prop orc orcq gen_registry model_factory_lazy (fuel_for tree) (SPlugin (iface, N0)) CNil tree with
          | Ok (CPlugin (_, _, c)) -> "ok a=" ^ show_groups (applied_of gen_applied iface name cs c)
          | Ok _ -> "ok ?"
          | Err _ -> "err"
          | Fuel -> "fuel") in
       (* the specification on the implementation's answer: what has to arrive at every destination is computed from
          the written section and the registered default alone (expected_opt), not from the model's decoding of the
          whole config *)
       let sec = (match tree with VMap kvs -> VMap (List.filter (fun kv -> not (is_type_key kv)) kvs) | v -> v) in
       let held = lookup_applied gen_applied iface name in
       if not (starts_with "ok a=" obs) then
         ((pred, (if mut = "base" then "BAD:valid-config-rejected" else "ok"), mut = "base"))
       else begin
         let og = parse_groups (String.sub obs 5 (String.length obs - 5)) in
         let bad = ref None and judged = ref 0 in
         List.iter (fun (label, rules) ->
           match List.assoc_opt (hex_of_str label) og with
           | None -> if !bad = None then bad := Some ("held-configuration-missing " ^ string_of_str label)
           | Some vals ->
               let exp = expected_group env prop orc orcq gen_registry model_factory_lazy cs d sec rules in
               if List.length exp <> List.length vals then
                 (if !bad = None then bad := Some ("held-configuration-shape " ^ string_of_str label))
               else
                 List.iter2 (fun (dst, e) o ->
                   match e with
                   | Some (Ok c) ->
                       incr judged;
                       if dump c <> o && !bad = None then
                         bad := Some (Printf.sprintf "option-not-applied %s.%s holds %s, the section and the registered default give %s"
                                        (string_of_str label) (path_string dst)
                                        (if String.length o > 40 then String.sub o 0 40 else o)
                                        (let w = dump c in if String.length w > 40 then String.sub w 0 40 else w))
                   | _ -> ()) exp vals) held;
         let v = (match !bad with Some b -> "BAD:" ^ b | None -> "ok") in
         let v = if !oracle_miss && v = "ok" then "BAD:oracle-miss" else v in
         (pred, v, !judged > 0 || v <> "ok")
       end)

(* ---- a whole-value placeholder at an integer option of every width (case kind cast): the modelled literal reader is
   the specification (C17_integer_placeholder: a text it refuses is an error, a text it takes is that value) *)
let predict_cast (f : string array) (obs : string) : string * string * bool =
  let ty = f.(1) and text = text_of_arg f.(2) in
  let (_, _, orc, _) = mk_oracles f.(3) "-" "-" in
  List.iter (fun b -> ignore (orc (OInt (n_of_int b)) text); ignore (orc (OUint (n_of_int b)) text)) [8; 16; 32; 64];
  let w = String.sub ty 1 (String.length ty - 1) in
  let bits = n_of_int (if w = "N" then 64 else int_of_string w) in
  let r = if ty.[0] = 'i' then parse_int bits text else parse_uint bits text in
  let pred = (match r with Some z -> "ok " ^ string_of_z z | None -> "err") in
  let verdict =
    if obs = pred then "ok"
    else if pred = "err" then "BAD:non-integer-placeholder-value-accepted"
    else if obs = "err" then "BAD:integer-placeholder-value-refused"
    else "BAD:integer-placeholder-value-wrong" in
  (pred, verdict, true)

let predict0 (c : string) (obs : string) : string * string * bool =
  let f = Array.of_list (split_blank c) in
  let kind = f.(0) in
  if kind = "cast" && Array.length f = 4 then predict_cast f obs else
  if kind = "hdr" && Array.length f = 3 then predict_hdr f obs else
  if kind = "prop" && Array.length f = 3 then predict_prop f obs else
  if kind = "env" && Array.length f = 3 then predict_env f obs else
  if kind = "app" && Array.length f = 9 then predict_app f obs else
  let off = if kind = "comp" then 3 else if kind = "typed" then 2 else 1 in
  if Array.length f <> off + 6 then ("bad-case", "BAD:bad-case", false) else
  let mut = f.(off) and path = parse_path f.(off + 1) in
  let (env, prop, orc, orcq) = mk_oracles f.(off + 2) f.(off + 3) f.(off + 4) in
  let tree0 = parse_tree f.(off + 5) in
  let tree = if kind = "cli" then cli_prepass tree0 else tree0 in
  let target =
    if kind = "comp" then
      (match lookup_entry gen_registry (str_of_hex f.(1)) (str_of_hex f.(2)) with
       | Some e -> (match e.e_conf with Some (s, d) -> Some (s, d) | None -> None)
       | None -> None)
    else if kind = "typed" then (let sc = parse_schema f.(1) in Some (sc, zero_of sc))
    else Some (gen_root_schema, gen_root_default) in
  match target with
  | None -> ("nocomp", "BAD:unknown-component", false)
  | Some (schema, dflt) ->
      let dec env prop t = decode_and_validate env prop orc orcq gen_registry model_factory_lazy (fuel_for t) schema dflt t in
      let shw = if kind = "full" then show_full else show in
      let pred = shw (dec env prop tree) in
      let (obs_d, obs_f) = split_factories obs in
      let is_ok = starts_with "ok " obs in
      let mutk = (match String.index_opt mut ':' with Some i -> String.sub mut 0 i | None -> mut) in
      let mutarg = (match String.index_opt mut ':' with Some i -> String.sub mut (i + 1) (String.length mut - i - 1) | None -> "") in
      let (v, nt) =
        match mutk with
        | "base" ->
            if not is_ok then ("BAD:valid-config-rejected", true)
            else begin
              let oc = parse_dump (String.sub obs_d 3 (String.length obs_d - 3)) in
              if not (defaults_kept_b (nat_of_int 40) schema dflt oc tree) then ("BAD:default-not-kept", true)
              else if kind = "cli" then
                (match observed_discard oc with
                 | Some l -> if l = expected_discard tree0 then ("ok", true) else ("BAD:discard_overflow-default", true)
                 | None -> ("BAD:no-pools-in-dump", true))
              else ("ok", true)
            end
        | "unk" ->
            let k = str_of_hex mutarg in
            (match classify gen_registry false false path schema dflt tree with
             | PStrict acc ->
                 if accepted_b k acc then ("ok", false)
                 else if obs = "err" then ("ok", true) else ("BAD:unknown-key-accepted", true)
             | PFree -> ("ok", false)
             | PBad -> ("BAD:bad-path", false))
        | "typ" ->
            (match schema_at gen_registry false false path schema dflt tree, value_at path tree with
             | Some ((s', _), _), Some x ->
                 let wrong = wrong_type_b s' x || (match x with VStr t -> wrong_type_str_b s' t | _ -> false) in
                 if not wrong then ("ok", false)
                 else if obs = "err" then ("ok", true) else ("BAD:wrongly-typed-value-accepted", true)
             | _, _ -> ("BAD:bad-path", false))
        | "rng" ->
            (match schema_at gen_registry false false path schema dflt tree, value_at path tree with
             | Some ((s', tags), d'), Some x ->
                 (* constraints enforced by constructors count where the constructor runs: a component decoded in
                    its slot of a whole configuration (comp cases fill the bare config struct) *)
                 let violates =
                   (match decode env prop orc orcq gen_registry model_factory_lazy (nat_of_int 3) s' d' x with
                    | Ok c' -> not (check_field orc s' c' tags) || (kind <> "comp" && not (ctor_field_ok tags c'))
                    | _ -> true) in
                 if not violates then ("ok", false)
                 else if obs = "err" then ("ok", true) else ("BAD:out-of-range-value-accepted", true)
             | _, _ -> ("BAD:bad-path", false))
        | "req" ->
            (* the key named in the mutation was removed from the map at path *)
            let k = str_of_hex mutarg in
            let probe = (match value_at path tree with
              | Some (VMap kvs) -> replace_at path (VMap (kvs @ [(k, VInt Z0)])) tree
              | _ -> None) in
            (match probe with
             | Some t' ->
                 (match schema_at gen_registry false false (path @ [SKey k]) schema dflt t' with
                  | Some ((s', tags), d') ->
                      if check_field orc s' d' tags then ("ok", false)
                      else if obs = "err" then ("ok", true) else ("BAD:missing-required-value-accepted", true)
                  | None -> ("BAD:bad-path", false))
             | None -> ("BAD:bad-path", false))
        | "ph" ->
            let lit = parse_tree mutarg in
            (match replace_at path lit tree with
             | Some t' ->
                 let want = show (dec no_env no_prop t') in
                 if obs_d = want then ("ok", true) else ("BAD:placeholder-not-substituted expected " ^ (if String.length want > 60 then String.sub want 0 60 else want), true)
             | None -> ("BAD:bad-path", false))
        | "bare" ->
            (match reach gen_registry false false path [] schema dflt tree with
             | Some (((SPlugin (iface, _), _), _), VMap kvs) ->
                 (match plugin_entry gen_registry iface kvs with
                  | Some e ->
                      (match e.e_conf with
                       | Some (cs, d) ->
                           if validate orc d cs then ("ok", false)
                           else if obs = "err" then ("ok", true) else ("BAD:invalid-defaults-accepted", true)
                       | None -> ("ok", false))
                  | None -> ("BAD:bad-path", false))
             | _ -> ("BAD:bad-path", false))
        | "rel" ->
            (* relations between options enforced by the constructor: evaluated on the model's decoding of the written
               section onto the registered default *)
            (match reach gen_registry false false path [] schema dflt tree with
             | Some (((SPlugin (iface, _), _), _), VMap kvs) ->
                 (match plugin_entry gen_registry iface kvs with
                  | Some e ->
                      (match e.e_conf with
                       | Some (cs, d) ->
                           let sec = VMap (List.filter (fun kv -> not (is_type_key kv)) kvs) in
                           (match decode env prop orc orcq gen_registry model_factory_lazy (fuel_for sec) cs d sec with
                            | Ok (CStruct rs) ->
                                if ctor_rels (flat_fields cs) rs then ("ok", false)
                                else if obs = "err" then ("ok", true) else ("BAD:conflicting-options-accepted", true)
                            | _ -> ("ok", false))
                       | None -> ("ok", false))
                  | None -> ("BAD:bad-path", false))
             | _ -> ("BAD:bad-path", false))
        | "phc" ->
            (* the variable holds a text; where neither the literal reader of the option's width nor the text hook of
               the option's kind takes it, the configuration is in error (C17_integer_placeholder) *)
            let text = text_of_arg mutarg in
            (match schema_at gen_registry false false path schema dflt tree with
             | Some ((s', _), _) ->
                 let none = function None -> true | Some _ -> false in
                 let refused =
                   (match s' with
                    | SScalar (KInt b) -> Some (none (parse_int b text))
                    | SScalar (KUint b) -> Some (none (parse_uint b text))
                    | SScalar KDuration -> Some (none (parse_int (n_of_int 64) text) && none (orc ODur text))
                    | SScalar KSize -> Some (none (parse_uint (n_of_int 64) text) && none (orc OSize text))
                    | SScalar (KText b) -> Some (none (parse_int b text) && none (orc OText text))
                    | _ -> None) in
                 (match refused with
                  | Some true -> if obs = "err" then ("ok", true) else ("BAD:non-integer-placeholder-value-accepted", true)
                  | Some false -> ("ok", false)
                  | None -> ("ok", false))
             | None -> ("BAD:bad-path", false))
        | "pht" -> if obs = "err" then ("ok", true) else ("BAD:placeholder-at-non-scalar-position-accepted", true)
        | "ptype" -> if obs = "err" then ("ok", true) else ("BAD:malformed-component-type-accepted", true)
        | "phe" -> if obs = "err" then ("ok", true) else ("BAD:unresolved-placeholder-accepted", true)
        | "case" | "free" -> ("ok", false)
        | _ -> ("BAD:unknown-mutation", false)
      in
      let v = if v = "ok" && is_ok && (String.contains obs_f '0' || String.contains obs_f 'p')
              then "BAD:factory-call-failed-after-accepted-config" else v in
      let nt = nt || v <> "ok" in
      let v = if !oracle_miss && v = "ok" then "BAD:oracle-miss" else v in
      (pred, v, nt)

let predict (c : string) (obs : string) : string * string * bool =
  oracle_miss := false;
  literal_disagree := false;
  let (pred, v, nt) = predict0 c obs in
  if !literal_disagree then (pred, "BAD:integer-literal-reader-disagrees-with-strconv", true) else (pred, v, nt)

let () = run_cases predict
