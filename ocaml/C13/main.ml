open Model
open Conv
open A07lib

let k_acq = 24

let string_of_hexs (h : string) : string =
  if h = "-" then "" else String.init (String.length h / 2) (fun i -> Char.chr (int_of_string ("0x" ^ String.sub h (2 * i) 2)))

(* strings.TrimSpace on ASCII text *)
let go_trim (s : string) : string =
  let is_sp c = c = ' ' || (c >= '\t' && c <= '\r') in
  let n = String.length s in
  let i = ref 0 and j = ref n in
  while !i < n && is_sp s.[!i] do incr i done;
  while !j > !i && is_sp s.[!j - 1] do decr j done;
  String.sub s !i (!j - !i)

let status_of_first (obs : string) : string = match split_blank obs with s :: _ -> s | [] -> ""

let status_of (obs : string) : string =
  match List.rev (split_blank obs) with s :: _ -> s | [] -> ""

(* C13: the outcome must not be a crash, a hang or memory exhaustion *)
let bad_status s = List.mem s ["panic"; "hang"; "oom"; "crash"; "outoffuel"]

(* bytes above which the harness' subprocess (ulimit -v 3000000) cannot allocate *)
let oom_threshold = ZT.of_string "4294967296"
let too_big (allocs : (n * n) option list) =
  List.exists (function Some (a, _) -> ZT.geq (zt_of_n a) oom_threshold | None -> false) allocs

let unmarshal (l : n list) : (n list * n list) option =
  match ask "gj" l with
  | Some a -> (match split_blank a with ["1"; t; c] -> Some (bytes_of_hex t, bytes_of_hex c) | _ -> None)
  | None -> None

(* model prediction for an ammo file given as bytes; also the allocations made *)
let decode_bytes (fmt : string) (fileb : n list) : string * bool =
  let k = k_acq in
  match fmt with
  | "uri" -> (print_run bld_entry k (uri_decode url_parse max_token cfg0 (nat_of_int k) fileb), false)
  | "uripost" ->
      let rs = up_run url_parse (nat_of_int k) cfg0 (up_init fileb) in
      (print_run bld_entry k (List.map fst rs), too_big (List.map snd rs))
  | "raw" ->
      let rs = raw_run (nat_of_int k) cfg0 (raw_init fileb) in
      (print_run bld_raw k (List.map fst rs), too_big (List.map snd rs))
  | "json" ->
      ((match json_file fileb with
        | JMiss -> "oracle-miss"
        | JTokErr -> "newerr"
        | JArr (false, _) -> "newerr"
        | JArr (true, toks) ->
            (match json_array_decode url_parse cfg0 (nat_of_int k) (List.map parse_entity toks) with
             | None -> "newerr"
             | Some rs -> print_run bld_entry k rs)
        | JStream (eof, toks) ->
            print_run bld_entry k (json_stream_decode url_parse cfg0 (nat_of_int k) (List.map parse_entity toks)
                                     (if eof then JEof else JErr))), false)
  | _ -> ("unknown-format", false)

let known (name : n list) : bool =
  List.mem (hex_of_bytes name) ["61"; "62"; "63"; "736c65657079"]

let merge_rle (steps : step list) : string =
  let rec go acc = function
    | [] -> List.rev acc
    | s :: r ->
        (match acc with
         | (n, sl, c) :: t when n = s.st_name && sl = s.st_sleep -> go ((n, sl, ZT.add c (zt_of_z s.st_count)) :: t) r
         | _ -> go ((s.st_name, s.st_sleep, zt_of_z s.st_count) :: acc) r) in
  match go [] steps with
  | [] -> "-"
  | l -> String.concat "," (List.map (fun (n, sl, c) -> Printf.sprintf "%s*%s@%s" (hex_of_bytes n) (ZT.to_string c) (string_of_z sl)) l)

let prop_lines = List.map (fun s -> bytes_of_hex s)
  ["6b313d7631"; "6b323d763d32"; "6e6f76616c7565"; "3d656d707479"; "6b313d7365636f6e64"; "207370203d207820"]

(* why a case of this kind can go wrong (names the call site in the finding key) *)
let site_of (c : string) : string =
  match split_blank c with
  | "cfghdr" :: _ -> "config-headers-DecodeHeader"
  | "cfghdrs" :: _ -> "config-headers-list-DecodeHTTPConfigHeaders"
  | "wfile" :: _ -> "scenario-file-weights"
  | "cfile" :: _ -> "scenario-file-request-list"
  | "sfile" :: _ -> "scenario-file-ReadAmmoConfig"
  | "tfunc" :: _ -> "templater-function-arguments"
  | "vsrc" :: _ :: _ :: k :: _ -> "variable-source-" ^ k ^ "-Init"
  | "sdesc" :: _ -> "scenario-ReadAmmoConfig"
  | "rerr" :: ptype :: _ -> "provider-read-error-" ^ String.map (fun ch -> if ch = '/' then '-' else ch) ptype
  | "popt" :: ptype :: _ -> "provider-options-" ^ String.map (fun ch -> if ch = '/' then '-' else ch) ptype
  | "ctag" :: typ :: _ -> "config-value-ResolveCustomTags-" ^ typ
  | ["indext"; _; _; len; _] -> if len = "0" then "extractFromSlice-empty-list" else "extractFromSlice"
  | "jbad" :: pre :: _ -> if pre = "1" then "provider-json-preload" else "provider-json-fullscan"
  | "nosrc" :: fmt :: pre :: ps :: _ -> "provider-" ^ fmt ^ (if pre = "1" then "-preload" else "-fullscan") ^ (if ps = "0" then "" else "-passes")
  | ("ammo" | "pfx" | "trunc" | "badhdr") :: fmt :: file :: _ ->
      (match fmt with
       | "uripost" | "raw" -> "size-field-used-as-allocation-length"
       | "json" -> "jsonline-decoder"
       | _ -> "uri-decoder")
  | "shoot" :: _ -> "ParseShootName"
  | "conv" :: _ -> "convertScenarioToAmmo-sleep-or-count"
  | "weights" :: _ -> "SpreadNames-capacity-from-weights"
  | ["index"; _; len; _] -> if len = "0" then "calcIndex-empty-slice" else "calcIndex"
  | "prop" :: _ -> "propertyTokenResolver-split-without-key"
  | ["rands"; n] -> if String.length n > 0 && n.[0] = '-' then "RandStringRunes-negative-length" else "RandStringRunes-length"
  | ["mpread"; len; _; _; _] -> if len = "0" then "MultiPassReader-empty-source" else "MultiPassReader"
  | ["grpcjson"; _; file] -> if file = "-" then "grpcjson-empty-file" else "grpcjson-start-loop"
  | "cfg" :: _ -> "scenario-config-DecodeMap"
  | "clicfg" :: _ -> "cli-readConfig"
  | _ -> "unknown"

(* ---- round 8: config value trees (case kind clicfg) ---- *)
let rawhex (l : n list) : string = String.concat "" (List.map (fun b -> Printf.sprintf "%02x" (int_of_n b)) l)

let parse_cval (s : string) : cval option =
  let n = String.length s in
  let p = ref 0 in
  let exception Bad in
  let word stops =
    let st = !p in
    while !p < n && not (String.contains stops s.[!p]) do incr p done;
    String.sub s st (!p - st) in
  let rec value () =
    if !p >= n then raise Bad;
    let c = s.[!p] in
    incr p;
    match c with
    | 'n' -> CNull
    | 'T' -> CBool true
    | 'F' -> CBool false
    | 'i' -> (try CInt (z_of_string (word ",)=")) with _ -> raise Bad)
    | 's' -> CStr (bytes_of_hex (word ",)="))
    | 'L' | 'M' ->
        if !p >= n || s.[!p] <> '(' then raise Bad;
        incr p;
        let items = ref [] and first = ref true and fin = ref false in
        while not !fin do
          if !p >= n then raise Bad;
          if s.[!p] = ')' then (incr p; fin := true)
          else begin
            if not !first then (if s.[!p] <> ',' then raise Bad; incr p);
            first := false;
            if c = 'M' then begin
              let k = bytes_of_hex (word "=") in
              if !p >= n then raise Bad;
              incr p;
              let v = value () in
              items := (k, v) :: !items
            end else begin
              let v = value () in
              items := ([], v) :: !items
            end
          end
        done;
        let l = List.rev !items in
        if c = 'M' then CMap l else CList (List.map snd l)
    | _ -> raise Bad in
  try let v = value () in if !p = n then Some v else None with Bad -> None

let rec token_of (v : cval) : string =
  match v with
  | CNull -> "n"
  | CBool true -> "T"
  | CBool false -> "F"
  | CInt z -> "i" ^ string_of_z z
  | CStr b -> "s" ^ rawhex b
  | CList l -> "L(" ^ String.concat "," (List.map token_of l) ^ ")"
  | CMap m -> "M(" ^ String.concat "," (List.map (fun (k, v) -> rawhex k ^ "=" ^ token_of v) m) ^ ")"

(* config.DecodeAndValidate on a settings tree: mapstructure + validator + the plugin registry are an oracle *)
let cli_decode (s : (n list * cval) list) : string rres =
  let tok = token_of (CMap s) in
  match ask "clidec" (List.init (String.length tok) (fun i -> n_of_int (Char.code tok.[i]))) with
  | None -> VErr
  | Some "err" -> VErr
  | Some "panic" -> VPanic
  | Some a -> VOk a

(* the type assertions of the pre-pass in cli.readConfig: checked (comma-ok form) in the code the model follows *)
let cli_checked = true

(* config.ReadAmmoConfig: the lower-cased file name's suffix selects the parser *)
let sfmt_of (ext : string) : sfmt =
  match String.lowercase_ascii ext with
  | "hcl" -> FHcl | "yaml" -> FYaml | "yml" -> FYml | _ -> FOther

(* scenario template function texts (templater.ParseFunc + ExecTemplateFunc): what the call yields *)
type tclass = TNofunc | TErr | TPanic | TInt of ZT.t * ZT.t | TLen of ZT.t
let tfunc_class (text : string) : tclass =
  let (name, args) =
    (match String.index_opt text '(' with
     | None -> (text, [])
     | Some i ->
         let rest = String.sub text (i + 1) (String.length text - i - 1) in
         let rest = if String.length rest > 0 && rest.[String.length rest - 1] = ')' then String.sub rest 0 (String.length rest - 1) else rest in
         if rest = "" then (String.sub text 0 i, [])
         else (String.sub text 0 i, List.map go_trim (String.split_on_char ',' rest))) in
  let parse_int (a : string) : ZT.t option =
    let ok = String.length a > 0 &&
      (let b = if a.[0] = '-' || a.[0] = '+' then String.sub a 1 (String.length a - 1) else a in
       String.length b > 0 && String.for_all (fun c -> c >= '0' && c <= '9') b) in
    if not ok then None
    else begin
      let z = ZT.of_string (if a.[0] = '+' then String.sub a 1 (String.length a - 1) else a) in
      if ZT.fits_int64 z then Some z else None
    end in
  match name with
  | "randInt" ->
      let range f t =
        (match rand_int_range (z_of_zt f) (z_of_zt t) with
         | VPanic -> TPanic | VErr -> TErr
         | VOk (lo, w) -> TInt (zt_of_z lo, zt_of_z w)) in
      (match List.map parse_int args with
       | [] -> range ZT.zero ZT.zero
       | [Some f] -> range f ZT.zero
       | [Some f; Some t] -> range f t
       | _ -> TErr)
  | "randString" ->
      (match args with
       | [] | [_] | [_; _] ->
           (match (match args with [] -> Some ZT.zero | a :: _ -> parse_int a) with
            | None -> TErr
            | Some n ->
                let n = if ZT.sign n = 0 then ZT.one else n in
                (match rand_string_alloc (z_of_zt n) with
                 | VOk m -> TLen (zt_of_z m) | VErr -> TErr | VPanic -> TPanic))
       | _ -> TErr)
  | "uuid" -> TLen (ZT.of_int 36)
  | _ -> TNofunc

let utf8_len (s : string) : int =
  let n = ref 0 in String.iter (fun c -> if Char.code c land 0xC0 <> 0x80 then incr n) s; !n

let rec predict_inner (c : string) (obs : string) : string * string * bool =
  let safe p = (p, verdict (not (bad_status (status_of obs))) (site_of c ^ " outcome " ^ status_of obs), true) in
  match split_blank c with
  | ["ammo"; fmt; file] ->
      let (p, _) = decode_bytes fmt (bytes_of_hex file) in
      safe p
  | ["tfunc"; t] ->
      let text = string_of_hexs t in
      (* templater.parseStr: name and comma separated, trimmed arguments *)
      let (name, args) =
        (match String.index_opt text '(' with
         | None -> (text, [])
         | Some i ->
             let rest = String.sub text (i + 1) (String.length text - i - 1) in
             let rest = if String.length rest > 0 && rest.[String.length rest - 1] = ')' then String.sub rest 0 (String.length rest - 1) else rest in
             if rest = "" then (String.sub text 0 i, [])
             else (String.sub text 0 i, List.map go_trim (String.split_on_char ',' rest))) in
      let parse_int (a : string) : ZT.t option =
        (* strconv.ParseInt(s, 10, 64) *)
        let ok = String.length a > 0 &&
          (let b = if a.[0] = '-' || a.[0] = '+' then String.sub a 1 (String.length a - 1) else a in
           String.length b > 0 && String.for_all (fun c -> c >= '0' && c <= '9') b) in
        if not ok then None
        else begin
          let z = ZT.of_string (if a.[0] = '+' then String.sub a 1 (String.length a - 1) else a) in
          if ZT.fits_int64 z then Some z else None
        end in
      let st = status_of_first obs in
      let p =
        (match name with
         | "randInt" ->
             let range f t =
               (match rand_int_range (z_of_zt f) (z_of_zt t) with
                | VPanic -> "panic"
                | VErr -> "err"
                | VOk (lo, w) ->
                    (* the value is random: it must lie in the modelled range *)
                    (match split_blank obs with
                     | ["ok"; "int"; v] ->
                         let r = ZT.sub (ZT.of_string v) (zt_of_z lo) in
                         if ZT.sign r >= 0 && ZT.lt r (zt_of_z w) then obs
                         else Printf.sprintf "ok int in [%s, +%s)" (string_of_z lo) (string_of_z w)
                     | _ -> Printf.sprintf "ok int in [%s, +%s)" (string_of_z lo) (string_of_z w))) in
             (match List.map parse_int args with
              | [] -> range ZT.zero ZT.zero
              | [Some f] -> range f ZT.zero
              | [Some f; Some t] -> range f t
              | _ -> "err")
         | "randString" ->
             (match args with
              | [] | [_] | [_; _] ->
                  (match (match args with [] -> Some ZT.zero | a :: _ -> parse_int a) with
                   | None -> "err"
                   | Some n ->
                       let n = if ZT.sign n = 0 then ZT.one else n in
                       (match rand_string_alloc (z_of_zt n) with
                        | VOk m -> "ok len " ^ string_of_z m
                        | VErr -> "err"
                        | VPanic -> "panic"))
              | _ -> "err")
         | "uuid" -> "ok len 36"
         | _ -> "nofunc") in
      ignore st;
      safe p
  | "vsrc" :: ext :: _ :: "csv" :: ign :: delim :: file :: fields ->
      (* the file/csv variable source behind the real scenario provider constructor; encoding/csv is an oracle *)
      let fields = List.map bytes_of_hex fields in
      let exists = file <> "!" in
      let d = bytes_of_hex delim in
      let q = (match d with [] -> [n_of_int 0; n_of_int 0] | c :: _ -> [n_of_int 1; c]) @ (if exists then bytes_of_hex file else []) in
      let p =
        (match sfmt_of ext with
         | FOther -> "newerr"
         | _ ->
           (match (if exists then ask "csv" q else Some "0 -") with
            | None -> "oracle-miss"
            | Some a ->
                (match split_blank a with
                 | [e; recs] ->
                     let recs = if recs = "-" then [] else
                       List.map (fun r -> List.map bytes_of_hex (String.split_on_char ',' r)) (String.split_on_char ';' recs) in
                     (match csv_source exists fields (ign = "1") recs (e = "1") with
                      | VPanic -> "panic"
                      | VErr -> "newerr"
                      | VOk rows ->
                          (* the model's rows must be those of the specification (theorem C13_csv_source_is_spec) *)
                          if rows <> rows_spec fields (ign = "1") recs then "model-differs-from-rows_spec"
                          else if rows = [] then "ok -"
                          else "ok " ^ String.concat "|" (List.map (fun row ->
                            if row = [] then "{}" else
                            String.concat ";" (List.map (fun (k, v) -> hex_of_bytes k ^ "=" ^ hex_of_bytes v)
                              (List.sort (fun (a, _) (b, _) -> cmp_bytes a b) row))) rows))
                 | _ -> "bad-oracle-answer"))) in
      safe p
  | "vsrc" :: ext :: _ :: "json" :: file :: [] ->
      let p =
        (match sfmt_of ext with
         | FOther -> "newerr"
         | _ ->
           if file = "!" then "newerr" else
           (match ask "jany" (bytes_of_hex file) with
            | None -> "oracle-miss"
            | Some a -> (match split_blank a with ["1"; j] -> "ok " ^ j | _ -> "newerr"))) in
      safe p
  | "vsrc" :: ext :: _ :: "vars" :: kvs ->
      (* the `variables` source: every string value that names a template function is replaced by its result
         at construction; an error of any function is the constructor's error *)
      let kvs = List.map (fun kv -> match String.split_on_char '=' kv with
        | [k; v] -> (k, string_of_hexs v) | _ -> failwith "bad key=value") kvs in
      let kvs = List.sort (fun (a, _) (b, _) -> compare (string_of_hexs a) (string_of_hexs b)) kvs in
      let classes = List.map (fun (k, v) -> (k, v, tfunc_class v)) kvs in
      let obs_kv = (match split_blank obs with
        | ["ok"; l] when l <> "-" -> List.filter_map (fun kv -> match String.split_on_char '=' kv with
            | [k; v] -> Some (k, string_of_hexs v) | _ -> None) (String.split_on_char ';' l)
        | _ -> []) in
      let p =
        (match sfmt_of ext with
         | FOther -> "newerr"
         | _ ->
           if List.exists (fun (_, _, c) -> c = TPanic) classes then "panic"
           else if List.exists (fun (_, _, c) -> c = TErr) classes then "newerr"
           else if classes = [] then "ok -"
           else "ok " ^ String.concat ";" (List.map (fun (k, v, c) ->
             let o = List.assoc_opt k obs_kv in
             let hexs (x : string) = if x = "" then "-" else String.concat "" (List.map (fun ch -> Printf.sprintf "%02x" (Char.code ch)) (List.init (String.length x) (String.get x))) in
             k ^ "=" ^
             (match c with
              | TNofunc -> hexs v
              | TInt (lo, w) ->
                  (match o with
                   | Some ov when (try let r = ZT.sub (ZT.of_string ov) lo in ZT.sign r >= 0 && ZT.lt r w with _ -> false) -> hexs ov
                   | _ -> Printf.sprintf "int-in[%s,+%s)" (ZT.to_string lo) (ZT.to_string w))
              | TLen n ->
                  (match o with
                   | Some ov when ZT.equal (ZT.of_int (utf8_len ov)) n -> hexs ov
                   | _ -> "len-" ^ ZT.to_string n)
              | _ -> "?")) classes)) in
      safe p
  | "ctag" :: typ :: parts ->
      (* a configuration value with placeholders through config.Decode (VariableInjectHook -> ResolveCustomTags).
         Specification: a placeholder of a registered kind that cannot be resolved (property without #key, unknown
         key, missing file, unset environment variable) is an error; a negative number for an unsigned field is an
         error.  Prediction of the value only for string fields (the casts are strconv's). *)
      let hexs (x : string) = if x = "" then "-" else String.concat "" (List.map (fun ch -> Printf.sprintf "%02x" (Char.code ch)) (List.init (String.length x) (String.get x))) in
      let env = [("C13_S", "v13"); ("C13_N", "42"); ("C13_T", "true"); ("C13_NEG", "-1"); ("C13_BIG", "300"); ("C13_F", "1.5"); ("C13_E", ""); ("C13_HUGE", "18446744073709551615")] in
      let plines = List.map (fun l -> bytes_of_hex (hexs l)) ["k1=v1"; "n=42"; "b=true"; "neg=-1"; "big=300"; "f=1.5"; "empty="] in
      let str_of_bytes (b : n list) = String.concat "" (List.map (fun x -> String.make 1 (Char.chr (int_of_byte x))) b) in
      (* per part: (is_token, literal text it stands for when not resolved, resolution) *)
      let part (p : string) : bool * string * string option =
        let arg = String.sub p 1 (String.length p - 1) in
        (match p.[0] with
         | 'L' -> (false, string_of_hexs arg, Some (string_of_hexs arg))
         | 'P' ->
             let exists = arg.[0] = 'f' in
             let suffix = string_of_hexs (String.sub arg 1 (String.length arg - 1)) in
             let var = go_trim ("P" ^ suffix) in
             let fl (name : n list) = if hex_of_bytes name = "50" && exists then Some plines else None in
             (true, "", (match property_resolve fl (bytes_of_hex (hexs var)) with VOk v -> Some (str_of_bytes v) | _ -> None))
         | 'E' | 'B' -> (true, "", List.assoc_opt arg env)
         | 'U' -> (true, "${" ^ string_of_hexs arg ^ ":x}", Some ("${" ^ string_of_hexs arg ^ ":x}"))
         | _ -> failwith "bad part") in
      let ps = List.map part (List.filter (fun x -> x <> "") parts) in
      let clean = List.for_all (fun (tok, lit, _) -> tok || not (String.exists (fun ch -> ch = '$' || ch = '{' || ch = '}') lit)) ps in
      let st = status_of_first obs in
      if not clean then safe obs
      else begin
        let unres = List.exists (fun (_, _, r) -> r = None) ps in
        let text = String.concat "" (List.map (fun (_, _, r) -> match r with Some v -> v | None -> "") ps) in
        let ntok = List.length (List.filter (fun (t, _, _) -> t) ps) in
        let single = ntok = 1 && List.for_all (fun (t, lit, _) -> t || go_trim lit = "") ps in
        let value = String.concat "" (List.filter_map (fun (t, _, r) -> if t then r else None) ps) in
        let neg_unsigned = (typ = "u8" || typ = "u64") && single && not unres &&
          String.length value > 1 && value.[0] = '-' && String.for_all (fun ch -> ch >= '0' && ch <= '9') (String.sub value 1 (String.length value - 1))
          && List.for_all (fun (t, lit, _) -> t || lit = "") ps in
        let is_dec (x : string) =
          let b = if String.length x > 0 && x.[0] = '-' then String.sub x 1 (String.length x - 1) else x in
          String.length b > 0 && String.for_all (fun ch -> ch >= '0' && ch <= '9') b && (b = "0" || b.[0] <> '0') in
        let int_field = (match typ with
          | "int" | "dur" -> Some (false, 64) | "i8" -> Some (false, 8) | "u8" -> Some (true, 8) | "u64" -> Some (true, 64) | _ -> None) in
        let p =
          if unres then "err"
          else if typ = "str" then "ok " ^ hexs text
          else (match int_field with
            | Some (uns, bits) ->
                (* the cast applies only to a value that is exactly one placeholder; its text must be a number of
                   the field's range (model cast_int); anything else reaches the decoder as a string: an error *)
                if single && is_dec text then
                  (match cast_int uns (z_of_int bits) (z_of_string text) with
                   | Some z -> "ok " ^ hexs (string_of_z z)
                   | None -> "err")
                else if ntok >= 1 || typ <> "dur" then "err" else obs
            | None -> if neg_unsigned then "err" else obs) in
        let v =
          if bad_status (status_of obs) then "BAD:" ^ site_of c ^ " outcome " ^ status_of obs
          else if unres && st <> "err" then "BAD:" ^ site_of c ^ " unresolved-placeholder-not-rejected outcome " ^ st
          else if neg_unsigned && st <> "err" then "BAD:" ^ site_of c ^ " negative-value-for-unsigned-field-not-rejected outcome " ^ st
          else "ok" in
        (p, v, true)
      end
  | ["sdesc"; _; mode] ->
      (* a description file that is not named, does not exist or has no content: specification = an error,
         of the constructor or (a directory reads as an empty file in the in-memory file system) of Run *)
      let st = status_of obs in
      ((if mode = "dir" then "noammo" else "newerr"), (if bad_status st then "BAD:" ^ site_of c ^ " outcome " ^ st
                  else if st <> "newerr" && st <> "noammo" then "BAD:" ^ site_of c ^ " unreadable-description-not-rejected outcome " ^ st else "ok"), true)
  | ["indext"; typ; idx; len; pre] ->
      let idxb = bytes_of_hex idx in
      let p =
        (match typ with
         | "nilmap" -> "ok nil"
         | "scalar" | "uints" -> "err"
         | _ ->
           (match extract_index idxb (z_of_string len) (z_of_string pre) (z_of_int 0) with
            | VOk i -> if hex_of_bytes idxb = "72616e64" then "ok inrange" else "ok " ^ string_of_z i
            | VErr -> "err"
            | VPanic -> "panic")) in
      safe p
  | ["jbad"; pre; ps; lim; file] ->
      (* http/json provider as a whole; the specification: a file with an entity that is not an entry
         (entity_okb, proved equivalent to what Setup accepts) delivers the entries in front of it and then
         fails; array form and preload: fails, nothing delivered *)
      let pre = pre = "1" in
      let k = k_acq in
      let nn s = n_of_int (int_of_string s) in
      (match json_file (bytes_of_hex file) with
       | JMiss -> safe "oracle-miss"
       | JTokErr | JArr (false, _) -> safe "newerr"
       | (JArr (true, toks) | JStream (_, toks)) as jf ->
           let form = (match jf with
             | JStream (eof, _) -> JFStream (if eof then JEof else JErr)
             | _ -> JFArray) in
           let ents = List.map parse_entity toks in
           let p = (match json_provider url_parse pre (nn lim) (nn ps) (nat_of_int k) form ents with
             | None -> "newerr"
             | Some rs -> print_run bld_entry k rs) in
           let good = good_prefix url_parse ents in
           let ng = List.length good in
           let limit = int_of_string lim in
           if ng = List.length ents then safe p
           else if form <> JFArray && not pre && ((limit <> 0 && limit <= ng) || ng >= k) then safe p
           else begin
             let want = if form = JFArray || pre then [] else
               List.filter_map bld_entry
                 (List.filter_map (fun d -> match entity_entry url_parse d with Inl e -> Some e | Inr _ -> None) good) in
             let got = List.filter (fun s -> String.length s > 1 && s.[0] = 'D') (split_blank obs) in
             let st = status_of obs in
             let v =
               if bad_status st then "BAD:" ^ site_of c ^ " outcome " ^ st
               else if not (got = want && (st = "err" || st = "newerr")) then
                 "BAD:" ^ site_of c ^ " malformed-entity-not-rejected outcome " ^ st ^ " after " ^ string_of_int (List.length got)
                 ^ " deliveries (expected " ^ string_of_int (List.length want) ^ " then an error)"
               else "ok" in
             (p, v, true)
           end)
  | ["nosrc"; fmt; pre; ps; _; file] ->
      (* passes / limit are enforced around the decoder: a run that ends at a bound without a
         single delivery is "no ammo" (provider.runFullScan / runPreloaded) *)
      let cfg = { c_limit = n_of_int 0; c_passes = n_of_int (if pre = "1" then 1 else int_of_string ps) } in
      let fileb = bytes_of_hex file in
      let k = k_acq in
      let raw_pred =
        (match fmt with
         | "uri" -> print_run bld_entry k (uri_decode url_parse max_token cfg (nat_of_int k) fileb)
         | "uripost" -> print_run bld_entry k (uripost_decode url_parse cfg (nat_of_int k) fileb)
         | "raw" -> print_run bld_raw k (raw_decode cfg (nat_of_int k) fileb)
         | _ ->
             (match json_file fileb with
              | JMiss -> "oracle-miss"
              | JTokErr | JArr (false, _) -> "newerr"
              | JArr (true, toks) ->
                  (match json_array_decode url_parse cfg (nat_of_int k) (List.map parse_entity toks) with
                   | None -> "newerr" | Some rs -> print_run bld_entry k rs)
              | JStream (eof, toks) ->
                  print_run bld_entry k (json_stream_decode url_parse cfg (nat_of_int k) (List.map parse_entity toks)
                                           (if eof then JEof else JErr)))) in
      let p = if raw_pred = "ok" then "noammo" else raw_pred in
      (* specification: a source without entries is rejected with an error, whatever the mode *)
      let st = status_of obs in
      let v =
        if bad_status st then "BAD:" ^ site_of c ^ " outcome " ^ st
        else if not (List.mem obs ["noammo"; "err"; "newerr"]) then "BAD:empty-source-not-rejected outcome " ^ st
        else "ok" in
      (p, v, true)
  | ["cfghdr"; h] ->
      let hb = bytes_of_hex h in
      let p = (match decode_header hb with
        | Inr _ -> "newerr"
        | Inl (k, v) ->
            let e = { e_method = gET; e_url = [n_of_int 47; n_of_int 97]; e_body = []; e_tag = [];
                      e_headers = header_set k v [] } in
            print_run bld_entry 2 [SDeliver e; SDeliver e]) in
      (* specification, independent of decode_header: "[<only white space>:...]" has no key *)
      let blank_key =
        (match hb with
         | c :: r when int_of_byte c = 91 ->
             let ((k, _), found) = cut (n_of_int 58) r in
             found && trim k = []
         | _ -> false) in
      let st = status_of obs in
      let v =
        if bad_status st then "BAD:" ^ site_of c ^ " outcome " ^ st
        else if blank_key && st <> "newerr" then "BAD:blank-header-key-not-rejected outcome " ^ st
        else "ok" in
      (p, v, true)
  | "cfghdrs" :: _ :: hs ->
      (* the `headers` list of the provider config: model = util.DecodeHTTPConfigHeaders + how the decoded
         list reaches a request without header lines of its own *)
      let entries = List.map bytes_of_hex hs in
      let print_m (m : (n list * n list list) list) =
        let m = List.sort (fun (a, _) (b, _) -> cmp_bytes a b) m in
        if m = [] then "-"
        else String.concat ";" (List.map (fun (k, vs) -> hex_of_bytes k ^ "=" ^ String.concat "," (List.map hex_of_bytes vs)) m) in
      let p = (match provider_new_headers [] entries with
        | NewErr -> "newerr"
        | NewOk (host, m) -> "ok " ^ hex_of_bytes host ^ " " ^ print_m m) in
      (* specification (proved equal to the model's verdict: C13_config_headers_accepted_iff_all_wellformed):
         a list with a malformed entry at ANY position is rejected with an error *)
      let st = status_of_first obs in
      let v =
        if bad_status (status_of obs) then "BAD:" ^ site_of c ^ " outcome " ^ status_of obs
        else if not (header_list_okb entries) && st <> "newerr" then
          "BAD:malformed-header-entry-not-rejected outcome " ^ st
        else "ok" in
      (p, v, true)
  | "wfile" :: ext :: _ :: ws ->
      let zs = List.map (fun w -> if w = "_" then z_of_int 0 else z_of_string w) ws in
      let p = (match scenario_weights (sfmt_of ext) zs with
        | VOk cs -> if List.exists (fun c -> ZT.sign (zt_of_z c) > 0) cs then "ok" else "noammo"
        | VErr -> "newerr"
        | VPanic -> "panic") in
      (* specification: a description with a negative weight is rejected with an error in every format *)
      let neg = List.exists (fun w -> String.length w > 0 && w.[0] = '-') ws in
      let st = status_of obs in
      let v =
        if bad_status st then "BAD:" ^ site_of c ^ " outcome " ^ st
        else if neg && not (List.mem st ["newerr"; "err"; "noammo"]) then "BAD:negative-weight-not-rejected outcome " ^ st
        else "ok" in
      (p, v, true)
  | "cfile" :: ext :: _ :: shoots ->
      let p = (match scenario_requests (sfmt_of ext) known (List.map bytes_of_hex shoots) with
        | VOk (steps, _) -> "ok " ^ merge_rle steps
        | VErr -> "newerr"
        | VPanic -> "panic") in
      safe p
  | ["sfile"; ext; _; text] ->
      (* the syntax stage of config.ReadAmmoConfig.  The parser libraries are oracles: `hcl` = hclparse.ParseHCL
         reports error diagnostics, `yaml` = yaml.Unmarshal into a map fails.  Specification: a text that is not
         HCL / YAML at all is rejected with an error of the constructor, whatever the parser recovered from it
         (theorem C13_syntax_error_rejected); what follows the syntax stage (gohcl, mapstructure) is fuzzed only *)
      let fmt = sfmt_of ext in
      let textb = bytes_of_hex text in
      let valid =
        (match fmt with
         | FOther -> Some false
         | FHcl -> (match ask "hcl" textb with Some "1" -> Some true | Some "0" -> Some false | _ -> None)
         | _ -> (match ask "yaml" textb with Some "1" -> Some true | Some "0" -> Some false | _ -> None)) in
      (match valid with
       | None -> safe "oracle-miss"
       | Some v ->
           let stage = read_description true fmt
               (fun _ -> { hp_errors = not v; hp_file = Some () }) (fun _ -> if v then Some () else None)
               (fun () -> VOk []) textb in
           (match stage with
            | VErr ->
                let st = status_of obs in
                ("newerr",
                 (if bad_status st then "BAD:" ^ site_of c ^ " outcome " ^ st
                  else if st <> "newerr" then "BAD:" ^ site_of c ^ " syntax-error-not-rejected outcome " ^ st
                  else "ok"), true)
            | VPanic -> safe "panic"
            | VOk _ -> safe obs))
  | "popt" :: ptype :: file :: opts ->
      (* an ammo provider built from the `ammo` section of a pool config through its plugin factory, with
         numeric options at the extremes.  What the config decoder (viper + mapstructure) makes of a YAML scalar
         for a Go int / uint / bool field is an oracle (`optv`); the model decides from the numbers. *)
      let fileb = bytes_of_hex file in
      let opts = List.map (fun o -> match String.index_opt o '=' with
        | Some i -> (String.lowercase_ascii (String.sub o 0 i) (* viper lower-cases keys *), string_of_hexs (String.sub o (i + 1) (String.length o - i - 1)))
        | None -> (o, "")) opts in
      let http = List.mem ptype ["http/json"; "uri"; "uripost"; "raw"] in
      let scen = List.mem ptype ["http/scenario"; "grpc/scenario"] in
      let hexs (x : string) = String.concat "" (List.map (fun ch -> Printf.sprintf "%02x" (Char.code ch)) (List.init (String.length x) (String.get x))) in
      let optv (kind : char) (text : string) : [`Miss | `Rej | `Panic | `Val of string] =
        (match ask "optv" (bytes_of_hex (hexs (String.make 1 kind ^ text))) with
         | None -> `Miss
         | Some a -> (match split_blank a with ["1"; v] -> `Val v | ["P"] -> `Panic | _ -> `Rej)) in
      let known_key k =
        List.mem k ["limit"; "passes"; "maxammosize"; "continueonerror"] || (http && k = "preload") in
      let num_kind k = if k = "maxammosize" || ptype = "grpc/json" then 'i' else 'u' in
      let vals = List.map (fun (k, v) ->
        if not (known_key k) then (k, `Rej)
        else if k = "preload" || k = "continueonerror" then (k, optv 'b' v)
        else (k, optv (num_kind k) v)) opts in
      let get k = (match List.assoc_opt k vals with Some (`Val v) -> z_of_string v | _ -> z_of_int 0) in
      let getb k = (match List.assoc_opt k vals with Some (`Val v) -> v = "1" | _ -> false) in
      let k = k_acq in
      let zn z = n_of_zt (zt_of_z z) in
      let pr_grpc rs =
        let rec pr n = function
          | [] -> [if n >= k then "more" else "truncated"]
          | PDeliver (t, cl) :: r -> Printf.sprintf "G:%s:%s" (hex_of_bytes t) (hex_of_bytes cl) :: pr (n + 1) r
          | PInvalid :: r -> "GI" :: pr (n + 1) r
          | PErr0 :: _ -> ["err"]
          | PDone :: _ -> ["ok"] in
        String.concat " " (pr 0 rs) in
      (* SPECIFICATION for a grpc/json file with an entry the line scanner refuses (longer than maxammosize / 64 KiB):
         refused_spec — no pass loop, no Passes: the accepted lines in front of it are delivered (up to the limit) and
         then the run FAILS; C13_grpcjson_refused_entry_* tie it to the model *)
      let refused =
        if ptype = "grpc/json" && List.for_all (fun (_, v) -> match v with `Val _ -> true | _ -> false) vals then
          (match grpc_refused_expected unmarshal (getb "continueonerror") (get "limit") (get "passes") (get "maxammosize") (nat_of_int k) fileb with
           | Some rs -> Some (pr_grpc rs)
           | None -> None)
        else None in
      let p =
        if List.exists (fun (_, v) -> v = `Miss) vals then "oracle-miss"
        else if List.exists (fun (_, v) -> v = `Panic) vals then "panic"
        else if List.exists (fun (_, v) -> v = `Rej) vals then "newerr"
        else if http then
          (match http_provider_opts false (get "limit") (get "passes") (get "maxammosize") with
           | VErr -> "newerr"
           | VPanic -> "panic"
           | VOk _ ->
               let cfg = { c_limit = zn (get "limit"); c_passes = zn (get "passes") } in
               (match ptype with
                | "uri" -> print_run bld_entry k (uri_decode url_parse max_token cfg (nat_of_int k) fileb)
                | "uripost" -> print_run bld_entry k (uripost_decode url_parse cfg (nat_of_int k) fileb)
                | "raw" -> print_run bld_raw k (raw_decode cfg (nat_of_int k) fileb)
                | _ ->
                    (match json_file fileb with
                     | JMiss -> "oracle-miss"
                     | JTokErr | JArr (false, _) -> "newerr"
                     | (JArr (true, toks) | JStream (_, toks)) as jf ->
                         let form = (match jf with JStream (eof, _) -> JFStream (if eof then JEof else JErr) | _ -> JFArray) in
                         (* fullscan counts the limit down in unary: a limit beyond the k deliveries looked at acts as k + 1 *)
                         let lim = (let l = zt_of_z (get "limit") in if ZT.gt l (ZT.of_int (k + 1)) then n_of_int (k + 1) else n_of_zt l) in
                         (match json_provider url_parse (getb "preload") lim (zn (get "passes")) (nat_of_int k) form
                                  (List.map parse_entity toks) with
                          | None -> "newerr"
                          | Some rs -> print_run bld_entry k rs))))
        else if ptype = "grpc/json" then
          (match grpc_provider unmarshal (getb "continueonerror") (get "limit") (get "passes") (get "maxammosize") (nat_of_int k) fileb with
           | None -> "newerr"
           | Some rs -> pr_grpc rs)
        else if scen then
          (match opt_accept OUint (get "limit"), opt_accept OUint (get "passes"), opt_accept OInt (get "maxammosize") with
           | Some l, Some ps, Some _ ->
               (* one scenario of weight 1: every pass delivers one ammo *)
               let l = zt_of_z l and ps = zt_of_z ps in
               let kk = ZT.of_int 3 in
               let bound = List.fold_left (fun b x -> if ZT.sign x > 0 && ZT.lt x b then x else b) (ZT.of_int 1000) [l; ps] in
               if ZT.lt bound kk then String.concat " " (List.init (ZT.to_int bound) (fun _ -> "S") @ ["ok"])
               else "S S S more"
           | _ -> "newerr")
        else "unknown-provider" in
      (* specification, independent of the model: a negative number written for limit / passes is rejected *)
      let neg_dec (v : string) = String.length v > 1 && v.[0] = '-' &&
        String.for_all (fun ch -> ch >= '0' && ch <= '9') (String.sub v 1 (String.length v - 1)) &&
        String.exists (fun ch -> ch <> '0' && ch <> '-') v in
      let neg = List.exists (fun (k, v) -> (k = "limit" || k = "passes") && neg_dec v) opts in
      let st = status_of obs in
      let v =
        if bad_status st then "BAD:" ^ site_of c ^ " outcome " ^ st
        else if neg && st <> "newerr" then "BAD:" ^ site_of c ^ " negative-limit-or-passes-not-rejected outcome " ^ st
        else (match refused with
              | Some e when status_of e = "err" && st <> "err" ->
                  "BAD:" ^ site_of c ^ " refused-entry-not-rejected outcome " ^ st ^ " (an entry too long for the scanner must end the run with an error)"
              | Some e when e <> obs && st <> "oracle-miss" ->
                  "BAD:" ^ site_of c ^ " refused-entry-deliveries expected " ^ e
              | _ -> "ok") in
      (p, v, true)
  | "rerr" :: ptype :: nread :: file :: opts ->
      (* a provider on a source whose Read fails with an I/O error after [nread] bytes, in every pass.  The options
         are plain decimals / booleans.  SPECIFICATION: once the reader has met the error the run ends with it: the
         entries behind that byte were never read, a successful end would hide them.  grpc/json: the whole
         observation is predicted (rerr_spec: complete lines, the unterminated rest as a last token, then the
         error; theorems C13_grpcjson_read_error_...); http providers: the outcome class only *)
      let fileb = bytes_of_hex file in
      let n = int_of_string nread in
      let opts = List.map (fun o -> match String.index_opt o '=' with
        | Some i -> (String.sub o 0 i, string_of_hexs (String.sub o (i + 1) (String.length o - i - 1)))
        | None -> (o, "")) opts in
      let num k = (match List.assoc_opt k opts with Some v -> z_of_string v | None -> z_of_int 0) in
      let st = status_of obs in
      let short = n < List.length fileb in
      if ptype = "grpc/json" then
        (match grpc_read_error_expected unmarshal (List.assoc_opt "continueonerror" opts = Some "true")
                 (num "limit") (num "passes") (num "maxammosize") (nat_of_int k_acq) fileb (nat_of_int n) with
         | None -> ("newerr", (if bad_status st then "BAD:" ^ site_of c ^ " outcome " ^ st else "ok"), true)
         | Some rs ->
             let rec pr i = function
               | [] -> [if i >= k_acq then "more" else "truncated"]
               | PDeliver (t, cl) :: r -> Printf.sprintf "G:%s:%s" (hex_of_bytes t) (hex_of_bytes cl) :: pr (i + 1) r
               | PInvalid :: r -> "GI" :: pr (i + 1) r
               | PErr0 :: _ -> ["err"]
               | PDone :: _ -> ["ok"] in
             let e = String.concat " " (pr 0 rs) in
             (e,
              (if bad_status st then "BAD:" ^ site_of c ^ " outcome " ^ st
               else if status_of e = "err" && st <> "err" then
                 "BAD:" ^ site_of c ^ " read-error-not-reported outcome " ^ st ^ " (the source failed while it was read: the run must end with an error)"
               else "ok"), true))
      else
        (obs,
         (if bad_status st then "BAD:" ^ site_of c ^ " outcome " ^ st
          else if short && not (List.mem_assoc "limit" opts) && st <> "err" && st <> "newerr" then
            "BAD:" ^ site_of c ^ " read-error-not-reported outcome " ^ st ^ " (the source failed while it was read: the run must end with an error)"
          else "ok"), true)
  | (("pfx" | "trunc" | "badhdr") as kind) :: fmt :: file :: ngood :: toks ->
      let toks = List.filter (fun t -> t <> "") toks in
      let fileb = bytes_of_hex file in
      let (p, _) = decode_bytes fmt fileb in
      let ng = int_of_string ngood in
      let good = List.filteri (fun i _ -> i < ng) fileb in
      (* the specification of the well-formed prefix, computed from the items only *)
      let (rendered, want) =
        (match fmt with
         | "uri" ->
             let items = List.map (function
               | TH (k, v, l, (kl, kt, vl, vt)) -> (UHeader (kl, k, kt, vl, v, vt), lay_of l)
               | TR (u, t, l, _) -> (UReq (u, t), lay_of l)
               | TB l -> (UBlank, lay_of l)) (List.map parse_tok toks) in
             (render_uri items true, List.filter_map bld_entry (uri_entries (List.map fst items) []))
         | "uripost" ->
             let items = List.map (function
               | TH (k, v, l, (kl, kt, vl, vt)) -> (PHeader (kl, k, kt, vl, v, vt), lay_of l)
               | TR (u, t, l, b) -> (PReq (u, t, b), lay_of l)
               | TB l -> (PBlank, lay_of l)) (List.map parse_tok toks) in
             (render_uripost items true, List.filter_map bld_entry (uripost_entries (List.map fst items) []))
         | "raw" ->
             let items = List.map (function
               | TR (_, t, l, b) -> (RReq (t, b), lay_of l)
               | TB l -> (RBlank, lay_of l)
               | TH _ -> failwith "header line in raw case") (List.map parse_tok toks) in
             (render_raw items true, List.filter_map bld_raw (raw_entries (List.map fst items)))
         | _ ->
             (* json, one object per line: the text of the good part is the oracle's business *)
             let ents = List.map parse_entity toks in
             let es = List.filter_map (fun d -> match entity_entry url_parse d with Inl e -> Some e | Inr _ -> None) ents in
             (good, List.filter_map bld_entry es)) in
      if rendered <> good then ("render-mismatch", "BAD:render-mismatch", false)
      else begin
        let want = List.filteri (fun i _ -> i < k_acq) want in
        let got = List.filter (fun s -> String.length s > 1 && s.[0] = 'D') (split_blank obs) in
        let rec is_prefix a b = match a, b with
          | [], _ -> true
          | x :: a', y :: b' -> x = y && is_prefix a' b'
          | _ -> false in
        let st = status_of obs in
        let v =
          if bad_status st then "BAD:" ^ site_of c ^ " outcome " ^ st
          else if not (is_prefix want got) then "BAD:prefix-altered expected " ^ String.concat " " want
          else if kind <> "pfx" && not (got = want && (st = "err" || st = "newerr")) then
            (* a truncated entry / a header line without a key must be rejected with an error, after
               the entries before it *)
            "BAD:" ^ (if kind = "trunc" then "truncated-entry" else "blank-header-key") ^ "-not-rejected outcome " ^ st ^ " after " ^ string_of_int (List.length got)
            ^ " deliveries (expected " ^ string_of_int (List.length want) ^ " then an error)"
          else "ok" in
        (p, v, true)
      end
  | ["shoot"; s] ->
      let p = (match parse_shoot_name (bytes_of_hex s) with
        | VOk ((name, cnt), sleep) -> Printf.sprintf "ok %s %s %s" (hex_of_bytes name) (string_of_z cnt) (string_of_z sleep)
        | VErr -> "err"
        | VPanic -> "panic") in
      safe p
  | "conv" :: _ :: shoots ->
      let p = (match convert known (List.map bytes_of_hex shoots) [] [] with
        | VOk (steps, _) -> "ok " ^ merge_rle steps
        | VErr -> "newerr"
        | VPanic -> "panic") in
      safe p
  | "weights" :: ws ->
      let p = (match spread_counts (List.map z_of_string ws) with
        | VOk cs -> if List.exists (fun c -> ZT.sign (zt_of_z c) > 0) cs then "ok" else "noammo"
        | VErr -> "newerr"
        | VPanic -> "panic") in
      safe p
  | ["index"; idx; len; pre] ->
      let idxb = bytes_of_hex idx in
      let p = (match extract_index idxb (z_of_string len) (z_of_string pre) (z_of_int 0) with
        | VOk i -> if hex_of_bytes idxb = "72616e64" then "ok inrange" else "ok " ^ string_of_z i
        | VErr -> "err"
        | VPanic -> "panic") in
      safe p
  | ["prop"; kind; suffix] ->
      let fl (name : n list) = if hex_of_bytes name = "50" && kind = "file" then Some prop_lines else None in
      let p = (match property_resolve fl (n_of_int 80 :: bytes_of_hex suffix) with
        | VOk v -> "ok " ^ hex_of_bytes v
        | VErr -> "err"
        | VPanic -> "panic") in
      safe p
  | ["rands"; n] ->
      let one z = (match rand_string_alloc z with VOk m -> "ok " ^ string_of_z m | VErr -> "err" | VPanic -> "panic") in
      let z = z_of_string n in
      let z' = if n = "0" then z_of_int 1 else z in
      safe (one z ^ " | " ^ one z')
  | ["mpread"; len; limit; m; k] ->
      let rs = mp_reads (nat_of_int (int_of_string k)) (z_of_string len) (z_of_string limit) (z_of_string m)
                 { mp_pos = z_of_int 0; mp_passes = z_of_int 0; mp_read_in_pass = false } in
      let p = String.concat "," (List.map (fun (n, e) -> string_of_z n ^ "/" ^ (if e then "1" else "0")) rs) in
      (* a reader must not return (0, nil) for ever: two such reads in a row mean no progress *)
      let obs_l = String.split_on_char ',' obs in
      let rec stutter = function a :: (b :: _ as r) -> (a = "0/0" && b = "0/0") || stutter r | _ -> false in
      (p, verdict (not (bad_status obs) && not (stutter obs_l)) (site_of c ^ " no-progress: Read returns (0, nil) repeatedly, consumers spin"), true)
  | ["grpcjson"; cont; file] ->
      let rs = grpc_decode unmarshal (cont = "1") max_token (nat_of_int k_acq) (bytes_of_hex file) in
      let rec pr n = function
        | [] -> [if n >= k_acq then "more" else "truncated"]
        | GDeliver (t, c) :: r -> Printf.sprintf "G:%s:%s" (hex_of_bytes t) (hex_of_bytes c) :: pr (n + 1) r
        | GInvalid :: r -> "GI" :: pr (n + 1) r
        | GErr :: _ -> ["err"]
        | GSpin :: _ -> ["hang"] in
      safe (String.concat " " (pr 0 rs))
  | ["clicfg"; _; tree] ->
      (* the top-level config file through the real CLI reader (child process).  Prediction: the reader model
         (read, discard_overflow pre-pass with its type assertions, decoder = oracle).  Verdict by the SPECIFICATION
         cli_expected: a document that is no mapping, has no `pools` list of mappings, or an ill-typed log /
         monitoring section must be rejected with an error; otherwise the answer is the decoder's on the tree with
         discard_overflow: true written into the pools that do not set it (C13_cli_reader_meets_spec) *)
      (match parse_cval tree with
       | None -> ("unparsable", "ok", false)
       | Some top ->
           let show = (function VOk a -> a | VErr -> "err" | VPanic -> "panic") in
           let p = show (cli_read cli_checked cli_decode top) in
           let e = show (cli_expected cli_decode top) in
           let st = status_of_first obs in
           (p,
            (if bad_status st then "BAD:" ^ site_of c ^ " outcome " ^ st
             else if e = "err" && obs <> "err" then "BAD:" ^ site_of c ^ " malformed-config-not-rejected outcome " ^ st
             else if e <> obs then "BAD:" ^ site_of c ^ " wellformed-config-answer expected " ^ e
             else "ok"), true))
  | ["cfg"; _] ->
      (* third-party YAML + mapstructure: fuzzed for real, not modelled *)
      safe obs
  | _ -> ("unknown-case", "BAD:unknown-case", false)

let predict (c : string) (obs : string) : string * string * bool =
  match split_blank c with
  | "hostile" :: inner ->
      let ic = String.concat " " inner in
      let (p, v, nt) = predict_inner ic obs in
      (* under the memory limit an allocation of 4 GiB or more kills the process *)
      let big = (match inner with
        | ("ammo" | "pfx") :: fmt :: file :: _ -> snd (decode_bytes fmt (bytes_of_hex file))
        | _ -> false) in
      ((if big then "oom" else p), v, nt)
  | _ -> predict_inner c obs

let () = run_cases_oracle predict
