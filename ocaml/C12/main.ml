open Model
open Conv

let rle (l : z list) : string =
  let rec go acc cur cnt = function
    | [] -> List.rev (if cnt > 0 then (cnt, cur) :: acc else acc)
    | x :: r -> let x = int_of_z x in
                if cnt > 0 && x = cur then go acc cur (cnt + 1) r
                else go (if cnt > 0 then (cnt, cur) :: acc else acc) x 1 r in
  let parts = go [] 0 0 l in
  if parts = [] then "-" else String.concat "," (List.map (fun (c, o) -> Printf.sprintf "%d@%d" c o) parts)

let rec seqi a n = if n <= 0 then [] else a :: seqi (a + 1) (n - 1)

let ids_string (l : int list) = if l = [] then "-" else String.concat "," (List.map string_of_int l)

(* a rate written as a decimal -> (num, den) *)
let dec_ops (x : string) : int * int =
  match String.index_opt x '.' with
  | None -> (int_of_string x, 1)
  | Some i ->
      let fr = String.sub x (i + 1) (String.length x - i - 1) in
      let den = int_of_float (10. ** float_of_int (String.length fr)) in
      (int_of_string (String.sub x 0 i ^ fr), den)

(* rep:K:p1,p2,... = K repetitions of the comma separated parts *)
let expand_spec (spec : string) : string list =
  List.concat (List.map (fun p ->
    if String.length p > 4 && String.sub p 0 4 = "rep:" then
      (match String.split_on_char ':' p with
       | _ :: k :: rest ->
           let body = String.split_on_char ',' (String.concat ":" rest) in
           List.concat (List.init (int_of_string k) (fun _ -> body))
       | _ -> failwith ("bad spec " ^ p))
    else [p]) (String.split_on_char '+' spec))

(* configured profile spec -> parts of the Coq model; a const part is given by its RATE: how many tokens it
   releases is the model's business (Model/StartProfile.v const_count) *)
let parts_of_spec (spec : string) : ppart list =
  List.concat (List.map (fun p ->
    match String.split_on_char ':' p with
    | ["once"; n] -> [PP (POnce (z_of_int (int_of_string n)))]
    | ["const"; ops; ms] ->
        let (num, den) = dec_ops ops in
        [PRate (z_of_int num, z_of_int den, z_of_int (int_of_string ms * 1000000))]
    | ["istep"; f; t; st; ms] ->
        let t_ = int_of_string t in
        (match new_instance_step (nat_of_int (t_ + 1)) (z_of_int (int_of_string f)) (z_of_int t_)
                 (z_of_int (int_of_string st)) (z_of_int (int_of_string ms * 1000000)) with
         | Some ps -> List.map (fun q -> PP q) ps
         | None -> failwith "model-out-of-fuel")
    | _ -> failwith ("bad spec " ^ p)) (expand_spec spec))

let flat_spec (spec : string) : z list = pflatten Z0 (parts_of_spec spec)

let has_unl (spec : string) : bool =
  List.exists (fun p -> String.length p >= 4 && String.sub p 0 4 = "unl:") (expand_spec spec)

(* parts of a composite as the model of compositeSchedule.Left sees them: a known number of tokens (counted by
   the model of the configured profile) or unlimited *)
let cparts_of_spec (spec : string) : cpart list =
  List.map (fun p ->
    if String.length p >= 4 && String.sub p 0 4 = "unl:" then CUnl false
    else CKnown (nat_of_int (List.length (pflatten Z0 (parts_of_spec p))))) (expand_spec spec)

let zlist_string (l : z list) : string =
  Printf.sprintf "%d %s" (List.length l) (String.concat "," (List.map (fun x -> string_of_int (int_of_z x)) l))
let count_spec (spec : string) : int = int_of_z (profile_count (parts_of_spec spec))

let predict (c : string) (obs : string) : string * string * bool =
  match split_blank c with
  | ["drain"; spec] ->
      let m = flat_spec spec in
      let mi = List.map int_of_z m in
      let rel = (match mi with [] -> [] | x :: _ -> List.map (fun y -> z_of_int (y - x)) mi) in
      let want = Printf.sprintf "%d %s 1 %s" (List.length m) (rle rel) (rle m) in
      (want, verdict (obs = want) ("self-started profile must release its tokens at the configured offsets, expected " ^ want),
       List.length m >= 2)
  | ["count"; spec] ->
      let m = flat_spec spec in
      let want = Printf.sprintf "%d 1 1" (List.length m) in
      let pred = Printf.sprintf "%d 1 1" (count_spec spec) in
      (pred, verdict (obs = want) ("a const part releases one token per WHOLE period that fits into its duration; expected " ^ want),
       List.length m >= 1)
  | ["cfg"; per; _rform; rps; _sform; st; _shoot] ->
      let k = List.length (flat_spec st) and t = List.length (flat_spec rps) in
      (* per instance profiles: every factory call builds new schedule objects (Model/StartPerInst.v Fresh) *)
      let shots =
        if per = "1" then
          (let fin = pidrive Fresh (nat_of_int t) (nat_of_int k) in
           if k = 0 then "-" else String.concat "," (List.map (fun i -> string_of_int (int_of_nat (shots_of (nat_of_int i) fin))) (seqi 0 k)))
        else string_of_int (if k = 0 then 0 else t) in
      let want = Printf.sprintf "ok %d %d %s 1 1 1 exhausted %s" k k (ids_string (seqi 0 k)) shots in
      let why =
        (match split_blank obs with
         | [outcome; started; _fin; ids; _d; notahead; onprofile; _e; oshots] ->
             let started = int_of_string started in
             if outcome <> "ok" then "pool-built-from-config:run-" ^ outcome
             else if started > k then "more-instances-than-the-configured-profile-releases"
             else if started < k then "tokens-without-instances-and-no-listed-cause"
             else if ids <> ids_string (seqi 0 k) then "ids-not-consecutive-from-0"
             else if notahead <> "1" || onprofile <> "1" then "instance-created-before-its-startup-token"
             else if oshots <> shots then "instance-did-not-fire-its-own-rps-profile"
             else "observation-differs"
         | _ -> "run-outcome-" ^ obs) in
      (want, verdict (obs = want) (why ^ "; expected " ^ want), k >= 2)
  | ["wait"; spec; works] ->
      let toks = flat_spec spec in
      let ws = if works = "-" then [] else List.map (fun x -> z_of_int (int_of_string x * 1000000)) (String.split_on_char ',' works) in
      let k = List.length toks in
      (* the code's Waiter (release rule waitFor <= 0) with its overdue bookkeeping, canonical run *)
      let (fin, _ov) = wldrive false (nat_of_int (10 * k + 2 * List.length ws + 40)) ws (wlinit toks Z0) in
      let ended = (match fin.spc with LEnd EExhausted -> true | _ -> false) in
      let pred = if not ended then "model-not-ended"
        else Printf.sprintf "%d %s 1" (List.length (creations fin)) (field_of_bool (not_ahead_b toks fin)) in
      let want = Printf.sprintf "%d 1 1" k in
      (pred, verdict (obs = want) ("every token of the profile is handed out, none before its instant, however late earlier ones were; expected " ^ want),
       k >= 2 && ws <> [])
  | ["istep"; from; to_; step; dur_ms] ->
      let dur = int_of_string dur_ms * 1000000 in
      let zf = z_of_int (int_of_string from) and zt = z_of_int (int_of_string to_)
      and zs = z_of_int (int_of_string step) and zd = z_of_int dur in
      let show l = Printf.sprintf "%d %s" (List.length l) (rle l) in
      let pred = (match istep_tokens zf zt zs zd with Some l -> show l | None -> "model-out-of-fuel") in
      let want = show (istep_spec zf zt zs zd) in
      (pred, verdict (obs = want) ("instance_step tokens, expected " ^ want), int_of_string to_ > int_of_string from)
  | ["cleft"; spec; draws] ->
      let ps = cparts_of_spec spec and d = nat_of_int (int_of_string draws) in
      let pred = zlist_string (cleft_trace Sticky d ps) in
      let want = zlist_string (cleft_spec_trace d ps) in
      (pred, verdict (obs = want) ("Left() of a composite is unknown (-1) while an unlimited part is ahead, else the sum of its parts; expected " ^ want),
       List.length ps >= 2)
  | ["fincb"; spec; _g; reps] ->
      let unl = has_unl spec in
      let want = Printf.sprintf "0 %s 0" (if unl then "0" else reps) in
      (want, verdict (obs = want) ("finish callback must fire exactly once, and only when the schedule has ended; expected " ^ want), true)
  | "start" :: per :: _t :: _rps :: _a :: kf :: st :: _shoot :: _cancel :: failgun :: _provrun :: (([] | [_] | [_; _]) as opt) ->
      (* tokens of the configured startup profile: from the model, not from the case line *)
      let k = List.length (flat_spec st) in
      if k <> int_of_string kf then ("?", "BAD:case-line-K-differs-from-the-model-count-of-the-startup-profile", false) else
      (match split_blank obs with
       | [outcome; started; finished; ids; distinct; notahead; ammo_out; rps_fin; ext; fail; endclass; conserved; late; onprofile; attempts] ->
           let started = int_of_string started and finished = int_of_string finished in
           let attempts = int_of_string attempts in
           let idl = if ids = "-" then [] else List.map int_of_string (String.split_on_char ',' ids) in
           let b = bool_of_field in
           let cause =
             if b fail then Some InstanceFailed else if b ext then Some RunCancelled
             else if b ammo_out then Some OutOfAmmo else if rps_fin = "1" then Some RpsFinished else None in
           let toks = List.map (fun i -> z_of_int (i * 1000)) (seqi 0 k) in
           (* ids handed out by the start loop; the creations that failed are the ids without an instance *)
           let launched = max attempts (List.fold_left (fun m i -> max m (i + 1)) 0 idl) in
           let holes = List.filter (fun i -> not (List.mem i idl)) (seqi 0 launched) in
           let fail0 = b fail && idl = [] && launched = 1 in
           let async_fail = b fail && not fail0 && holes <> [] in
           (* a failure injected before any creation is attempted: warm-up gun, shared rps schedule factory *)
           let pre_fail = failgun = "1" || (per = "0" && String.length failgun > 0 && failgun.[0] = 's') in
           let c = if endclass = "exhausted" || async_fail then None else cause in
           let fin = adrive (nat_of_int (40 * k + 80)) (nat_of_int launched) c fail0 (endclass = "exhausted")
               (List.map nat_of_int (if fail0 then [] else holes)) (ainit toks Z0) in
           let m_ids = List.sort compare (List.map int_of_nat (live_ids fin)) in
           let m_end = (match fin.base.spc with LEnd EExhausted -> "exhausted" | LEnd _ -> "cut" | _ -> "model-not-ended") in
           let m_end = if quiescent fin then m_end else "model-not-quiescent" in
           (* per-instant inequality of the model's own run, at every creation instant *)
           let m_notahead = List.for_all (fun (_, ci) ->
               int_of_nat (started_by ci fin.base) <= int_of_nat (released_by ci toks)) (creations fin.base) in
           let p_started = List.length m_ids in
           (* discard_overflow on and a first instance that takes d0 to create: the code's loop (NeverSkip) over the
              configured profile makes every token an instance however late *)
           let over_ok =
             (match opt with
              | [slow; "1"] when String.length slow > 1 && c = None && not (b fail) ->
                  let d0 = int_of_string (String.sub slow 1 (String.length slow - 1)) * 1000000 in
                  let fin = odrive NeverSkip true (nat_of_int (40 * k + 80)) (z_of_int d0) (sinit (flat_spec st) Z0) in
                  (match fin.spc with LEnd EExhausted -> List.length fin.started = p_started | _ -> false)
              | _ -> true) in
           let pred = if not over_ok then "model-run-with-discard-overflow-differs" else Printf.sprintf "%s %d %d %s 1 %s %s %s %s %s %s %s 0" outcome p_started p_started (ids_string m_ids)
               (field_of_bool m_notahead) ammo_out rps_fin ext fail m_end (if conserved = "-" then "-" else "1") ^ " 1 "
               ^ string_of_int (if fail0 then 1 else List.length (creations fin.base)) in
           let want_holes = if b fail && not pre_fail then 1 else 0 in
           let v =
             if outcome = "hang" then "BAD:hang"
             else if rps_fin = "2" then "BAD:shared-rps-profile-reported-finished-before-its-end"
             else if distinct <> "1" then "BAD:ids-not-distinct"
             else if (not (b fail)) && idl <> seqi 0 started then "BAD:ids-not-consecutive-from-0"
             else if notahead <> "1" then "BAD:instance-created-before-its-startup-token"
             else if List.exists (fun i -> i >= attempts || i < 0) idl || attempts - List.length idl <> want_holes
               then "BAD:ids-of-instances-and-failed-creations-are-not-0..launched-1"
             else if onprofile <> "1" then "BAD:instance-created-before-the-configured-profile-released-its-token"
             else if finished <> started then "BAD:instance-start-finish-counters"
             else if started > k || attempts > k then "BAD:more-instances-than-tokens"
             else if started < k && cause = None then "BAD:tokens-without-instances-and-no-listed-cause"
             else if endclass = "exhausted" && not (b fail) && started <> k then "BAD:profile-exhausted-but-instances-missing"
             else if b fail && outcome = "ok" then "BAD:instance-could-not-be-created-but-nothing-was-cancelled"
             else if late <> "0" then "BAD:instances-still-started-long-after-ammo-out-rps-finish-or-failed-creation"
             else if conserved = "0" then "BAD:instances-stopped-early (shots+discards <> min(tokens, ammo))"
             else "ok" in
           (pred, v, k >= 2)
       | [o] -> ("?", "BAD:run-outcome-" ^ o, false)
       | _ -> ("?", "BAD:unparsable-observation", false))
  | _ -> ("unknown-case", "BAD:unknown-case", false)

let () = run_cases predict
