(* Driver of the extracted C15 model.  Parses the case grammar of harness/internal/a15/spec.go
   into the model's datatypes, runs the model, prints the canonical observation line. *)
open Model
open Conv

let bytes_of_string (s : string) : n list =
  List.init (String.length s) (fun i -> n_of_int (Char.code s.[i]))
let string_of_bytes (l : n list) : string =
  String.concat "" (List.map (fun b -> String.make 1 (Char.chr (int_of_n b))) l)
let hex_of_string s = hex_of_bytes (bytes_of_string s)
let bs = bytes_of_string
let split_on c s = if s = "-" || s = "" then [] else String.split_on_char c s

let rec uniq = function [] -> [] | x :: r -> x :: uniq (List.filter (fun y -> y <> x) r)

(* ---- description -> model ---- *)
(* file/csv table `name=rows[~DDki]` (grammar: harness/internal/a15/spec.go).  Model side: the file the
   harness writes (print_csv of the lines) read by the model of readCsv with the written options
   (None = the source fails to initialise); specification side: csv_spec of the lines (C15_csv_source). *)
let csv_table (spec_side : bool) (name : string) (v : string) : (n list * n list) list list option =
  let rows, o = (match String.index_opt v '~' with
      | Some i -> (String.sub v 0 i, String.sub v (i + 1) 4)
      | None -> (v, "2cfn")) in
  let r = int_of_string rows in
  let dopt = if String.sub o 0 2 = "--" then [] else bytes_of_hex (String.sub o 0 2) in
  let d = (match dopt with [] -> n_of_int 44 | c :: _ -> c) in
  let header = (o.[2] = 'h') and ignore = (o.[3] = 'i') in
  let data = List.init r (fun i -> [ bs (String.sub name 0 1 ^ string_of_int i); bs ("n" ^ string_of_int i) ]) in
  let lines = (if header then [ [ bs "id"; bs "name" ] ] else if ignore then [ [ bs "ID"; bs "NAME" ] ] else []) @ data in
  let fields = if header then [] else [ bs "id"; bs "name" ] in
  if spec_side then Some (csv_spec fields ignore lines)
  else match read_csv { co_delim = dopt; co_fields = fields; co_ignore = ignore } (print_csv d lines) with
    | CsvOk rows -> Some rows
    | _ -> None

let parse_tables_side (spec_side : bool) (s : string) : csrc option =
  let all = List.map (fun p ->
      match String.split_on_char '=' p with
      | [name; rows] -> (name, rows)
      | _ -> failwith "tables") (split_on ',' s) in
  let is_g name = String.length name > 2 && String.sub name 0 2 = "g:" in
  (* g:key=hexwritten:hexvalue : scalar variable of source g; the model takes its computed value *)
  let gvars = List.filter_map (fun (name, v) ->
      if is_g name then
        (match String.split_on_char ':' v with
         | [_; value] -> Some (bs (String.sub name 2 (String.length name - 2)), bytes_of_hex value)
         | _ -> failwith "gvar")
      else None) all in
  let entries = List.filter (fun (name, _) -> not (is_g name)) all in
  let tables = List.filter_map (fun (name, v) ->
      if String.contains name '.' then None
      else Some (bs name, csv_table spec_side name v)) entries in
  (* src.list=n : list variable of the variables source src, elements src-list[0]<i> *)
  let vl = List.filter_map (fun (name, n) ->
      match String.index_opt name '.' with
      | Some k ->
          let n = int_of_string n in
          let src = String.sub name 0 k and lst = String.sub name (k + 1) (String.length name - k - 1) in
          Some (src, (bs lst, List.init n (fun i -> bs (src ^ "-" ^ String.sub lst 0 1 ^ string_of_int i))))
      | None -> None) entries in
  let srcs = uniq (List.map fst vl) in
  if List.exists (fun (_, t) -> t = None) tables then None
  else Some
  { cs_tables = List.map (fun (nm, t) -> (nm, match t with Some r -> r | None -> [])) tables;
    cs_glob = gvars @ [ (bs "a", bs "va"); (bs "b", bs "vb"); (bs "k7", bs "7"); (bs "k2", bs "2") ];
    cs_vlists = List.map (fun src -> (bs src, List.map snd (List.filter (fun (x, _) -> x = src) vl))) srcs }

let parse_mapping (m : string) : n list * pexpr =
  match String.split_on_char ':' m with
  | [v; "N"; src; f] -> (bs v, PNext (bs src, bs f))
  | [v; "L"; src; f] -> (bs v, PLast (bs src, bs f))
  | [v; "I"; src; i; f] -> (bs v, PIdx (bs src, z_of_string i, bs f))
  | [v; "G"; k] -> (bs v, PGlob (bs k))
  | [v; "V"; src; l] -> (bs v, PVNext (bs src, bs l))
  | [v; "F"; _written; value] -> (bs v, PCall (if value = "!" then None else Some (bytes_of_hex value)))
  | [v; "P"; r; x] -> (bs v, PPost (bs r, bs x))
  | [v; "Q"; r; x] -> (bs v, PPre (bs r, bs x))
  | _ -> failwith ("mapping " ^ m)

let parse_post (p : string) : cpost =
  match String.split_on_char ':' p with
  | ["J"; v; f] -> CJson (bs v, bs f)
  | ["H"; v] -> CHeader (bs v)
  | ["A"; c] -> CStatus (z_of_string c)
  | ["B"] -> CBody
  | ["HE"; _] -> CBroken
  | _ -> failwith ("post " ^ p)

let parse_reqs (s : string) : creq list =
  List.mapi (fun i p ->
      match String.split_on_char ',' p with
      | [name; _meth; pre; post; tmpl] ->
          let tl = String.length tmpl in
          let suffix = if tl > 2 && tmpl.[tl - 2] = '!' then String.sub tmpl (tl - 2) 2 else "" in
          let tmpl = String.sub tmpl 0 (tl - String.length suffix) in
          { cq_name = bs name; cq_id = n_of_int i; cq_iter = n_of_int 0;
            cq_pre = List.map parse_mapping (split_on '+' pre);
            cq_post = List.map parse_post (List.filter (fun p -> p <> "J0" && p <> "H0") (split_on '+' post));
            cq_tmpl = (if tmpl = "-" then TNone
                       else if tmpl.[0] = 'E' then TBad
                       else if tmpl.[0] = 'X' then TRefBad (bs (String.sub tmpl 2 (String.length tmpl - 2)))
                       else TRef (bs (String.sub tmpl 2 (String.length tmpl - 2))));
            cq_html = (suffix = "!h") }
      | _ -> failwith "req") (split_on ';' s)

let parse_scens (s : string) : cscen list =
  List.map (fun p ->
      match String.split_on_char ',' p with
      | name :: w :: shoots :: rest ->
          { sc_name = bs name; sc_weight = (if w = "-" then z_of_int 0 else z_of_string w);
            sc_shoots = List.map bytes_of_hex (split_on ':' shoots);
            sc_minwait = (match rest with [m] -> z_of_string m | _ -> z_of_int 0) }
      | _ -> failwith "scen") (split_on ';' s)

let resp_for (k : int) (act : string) : cresp option =
  let ks = string_of_int k in
  let dflt = { rs_status = z_of_int 200; rs_json = true;
               rs_fields = [ (bs "tok", bs ("t" ^ ks)); (bs "k", bs ("k" ^ ks)) ];
               rs_hdr = Some (bs ("h" ^ ks)); rs_okbody = true } in
  if act = "" then Some dflt
  else if act = "g" || act = "t" then None
  else if act = "n" then Some { dflt with rs_json = false; rs_fields = []; rs_okbody = false }
  else if act = "m" then Some { dflt with rs_fields = [ (bs "other", bs ("x" ^ ks)) ]; rs_okbody = false }
  else if act = "h" then Some { dflt with rs_hdr = None }
  else if act.[0] = 's' || act.[0] = 'r' then Some { dflt with rs_status = z_of_string (String.sub act 1 (String.length act - 1)) }
  else failwith ("act " ^ act)

let dflt_resp (k : nat) : cresp =
  match resp_for (int_of_nat k) "" with Some r -> r | None -> assert false

let parse_script (s : string) : cresp option list =
  let acts = List.map (fun p ->
      match String.split_on_char ':' p with
      | [k; a] -> (int_of_string k, a)
      | _ -> failwith "script") (split_on ',' s) in
  let mx = List.fold_left (fun m (k, _) -> max m k) (-1) acts in
  List.init (mx + 1) (fun k -> resp_for k (try List.assoc k acts with Not_found -> ""))

let world0 script : cworld =
  { w_arr = O; w_script = script; w_dflt = dflt_resp; w_iter = [] }

(* ---- printing ---- *)
(* Go's fmt of map[string]any: map[k:v k:v] with the keys sorted *)
let print_vars (m : (n list * n list) list) : string =
  let l = List.sort compare (List.map (fun (k, v) -> (string_of_bytes k, string_of_bytes v)) m) in
  "map[" ^ String.concat " " (List.map (fun (k, v) -> k ^ ":" ^ v) l) ^ "]"

let print_stepvars (sv : n list stepvars) : string =
  let parts =
    (match sv.sv_post with Some m -> [ "postprocessor:" ^ print_vars m ] | None -> [])
    @ (match sv.sv_pre with Some m -> [ "preprocessor:" ^ print_vars m ] | None -> []) in
  "map[" ^ String.concat " " parts ^ "]"

let print_reqmap (m : n list reqmap) : string =
  let l = List.sort compare (List.map (fun (k, sv) -> (string_of_bytes k, print_stepvars sv)) m) in
  "map[" ^ String.concat " " (List.map (fun (k, v) -> k ^ ":" ^ v) l) ^ "]"

let join sep l = if l = [] then "-" else String.concat sep l

let print_expansion (steps : (creq * z) list) (minw : z) : string =
  join "." (List.map (fun (r, ms) -> string_of_n r.cq_id ^ "/" ^ string_of_z ms) steps) ^ "@" ^ string_of_z minw

let print_send (r : crend) : string =
  let rf = match r.rd_ref with
    | None -> "~"
    | Some None -> hex_of_string (if r.rd_html then "" else "<no value>")
    | Some (Some v) -> hex_of_bytes v in
  let a = match r.rd_a with Some v -> string_of_bytes v | None -> "<no value>" in
  Printf.sprintf "%s/%s/%s/%s/1" (string_of_n r.rd_id) (hex_of_string (print_reqmap r.rd_vars)) rf a

let sample_strs sname evs =
  List.concat_map (function
      | EvSampleOk (_, nm, st) -> [ Printf.sprintf "%s/%s/0" (hex_of_string (sname ^ "." ^ string_of_bytes nm)) (string_of_z st) ]
      | EvSampleFail (_, nm, _) -> [ Printf.sprintf "%s/0/1" (hex_of_string (sname ^ "." ^ string_of_bytes nm ^ "|__EMPTY__")) ]
      | _ -> []) evs

(* model side: the dump of the tree the templater was given *)
let print_shot (scens : cscen list) (exps : (creq * z) list list) (sr : shot_res) : string =
  let si = int_of_nat sr.sr_scen in
  let sname = string_of_bytes (List.nth scens si).sc_name in
  let sends = List.concat_map (function EvSend (_, r) -> [ print_send r ] | _ -> []) sr.sr_events in
  Printf.sprintf "[%s exp=%s sends=%s samples=%s pause=1 minw=1]" sname
    (print_expansion (List.nth exps si) (ammo_minwait scens sr.sr_scen))
    (join "," sends) (join "," (sample_strs sname sr.sr_events))

(* specification side: scenario from spec_ring, expansion from spec_expand, and the variables
   each template may see from [visible] applied to the history of the earlier steps *)
let spec_vars (names : n list list) (evs : cevent list) (j : nat) : n list reqmap =
  let rec find = function
    | EvRender (j', nm, _, h, pv) :: _ when j' = j ->
        List.concat_map (fun name -> match visible h nm pv name with Some sv -> [ (name, sv) ] | None -> []) names
    | _ :: r -> find r
    | [] -> [] in
  find evs

let print_shot_spec (names : n list list) (sname : string) (minw : z) (steps : (creq * z) list) (sr : shot_res) : string =
  let sends = List.concat_map (function
      | EvSend (j, r) -> [ print_send { r with rd_vars = spec_vars names sr.sr_events j } ]
      | _ -> []) sr.sr_events in
  Printf.sprintf "[%s exp=%s sends=%s samples=%s pause=1 minw=1]" sname (print_expansion steps minw)
    (join "," sends) (join "," (sample_strs sname sr.sr_events))


(* documented expansion of every scenario (None where C15_expand's hypotheses do not hold) *)
let spec_exps rq sc = List.map (fun s -> match items_of rq sc s with
    | Some items -> Some (spec_expand items)
    | None -> None) sc

let spec_ring_ok sc =
  weights_ok_b sc && (let ns = List.map (fun s -> s.sc_name) sc in List.length (uniq ns) = List.length ns)

(* the executable specification order_stop_b on one observed shot "[name exp=.. sends=.. samples=.. pause=..]" *)
let obs_shot_ok (sname : string) (steps : (creq * z) list) (chunk : string) : string =
  let fields = String.split_on_char ' ' chunk in
  let get k = List.fold_left (fun acc f ->
      let kl = String.length k in
      if String.length f > kl && String.sub f 0 (kl + 1) = k ^ "=" then Some (String.sub f (kl + 1) (String.length f - kl - 1)) else acc) None fields in
  match get "sends", get "samples", get "pause", get "minw" with
  | Some _, Some _, Some "1", Some "0" ->
      "min_waiting_time: a shot whose steps all succeeded ended before the scenario's min_waiting_time (or far too late)"
  | Some sends, Some samples, Some "1", _ ->
      let ids = List.map (fun e -> n_of_string (List.hd (String.split_on_char '/' e))) (split_on ',' sends) in
      let pre = sname ^ "." in
      let smp = List.map (fun e ->
          match String.split_on_char '/' e with
          | [tags; _; err] ->
              let t = string_of_bytes (bytes_of_hex tags) in
              let t = if String.length t >= String.length pre && String.sub t 0 (String.length pre) = pre
                then String.sub t (String.length pre) (String.length t - String.length pre) else "?" ^ t in
              let suffix = "|__EMPTY__" in
              let failed = err <> "0" in
              let t = if failed && String.length t >= String.length suffix
                         && String.sub t (String.length t - String.length suffix) (String.length suffix) = suffix
                then String.sub t 0 (String.length t - String.length suffix) else if failed then "?" ^ t else t in
              (bs t, not failed)
          | _ -> (bs "?", false)) (split_on ',' samples) in
      if order_stop_b (c_step_obs steps) ids smp then ""
      else "order/stop: samples and requests are not one per step up to the first failing step"
  | Some _, Some _, Some _, _ -> "pause: the next request (or the end of the shot) came sooner than the pause written for the step"
  | _ -> "shot did not complete (panic or hang)"

let split_shots (obs : string) : string list =
  (* "ok [a] [b]" -> ["a"; "b"] *)
  let parts = String.split_on_char '[' obs in
  match parts with
  | _ :: rest -> List.map (fun p -> match String.index_opt p ']' with Some i -> String.sub p 0 i | None -> p) rest
  | [] -> []

(* model-side sources (None = a csv source fails to initialise), specification-side sources *)
let build_of tables reqs scens =
  let src = parse_tables_side false tables and rq = parse_reqs reqs and sc = parse_scens scens in
  let ssrc = (match parse_tables_side true tables with Some x -> x | None -> assert false) in
  ((src, ssrc), rq, sc, build rq sc)

let build_fail = function
  | BuildPanic -> "panic"
  | BuildOutOfFuel -> "model-out-of-fuel"
  | BuildErr _ -> "err"
  | BuildOk _ -> assert false

let rec seq a n = if n <= 0 then [] else a :: seq (a + 1) (n - 1)

(* ---- literals of the pp cases: what the documentation promises ---- *)
let lit_value (dflt : int) (s : string) : ZT.t option =
  if s = "" then Some (ZT.of_int dflt)
  else begin
    let body = if s.[0] = '+' || s.[0] = '-' then String.sub s 1 (String.length s - 1) else s in
    if body = "" || not (String.for_all (fun c -> c >= '0' && c <= '9') body) then None
    else begin
      let v = ZT.of_string (if s.[0] = '+' then body else s) in
      if ZT.geq v (ZT.neg (ZT.shift_left ZT.one 63)) && ZT.lt v (ZT.shift_left ZT.one 63) then Some v else None
    end
  end

let is_blank c = c = ' ' || (c >= '\t' && c <= '\r')
let name_ok (s : string) =
  not (String.contains s '(') && not (String.contains s ')')
  && (s = "" || (not (is_blank s.[0]) && not (is_blank s.[String.length s - 1])))

let print_pshoot = function
  | ShErr -> "err"
  | ShOk (name, c, s) -> Printf.sprintf "ok %s %s %s" (hex_of_bytes name) (string_of_z c) (string_of_z s)

(* ---- variable trees of the path cases (grammar: harness/internal/a15/tree.go) ---- *)
let parse_tree (s : string) : val0 =
  let i = ref 0 in
  let n = String.length s in
  let token stop =
    let j = ref !i in
    while !j < n && not (String.contains stop s.[!j]) do incr j done;
    let t = String.sub s !i (!j - !i) in
    i := !j; t in
  let expect c = if !i < n && s.[!i] = c then incr i else failwith ("tree: expected " ^ String.make 1 c) in
  let rec value () =
    let c = s.[!i] in
    incr i;
    match c with
    | 's' -> VStr (bytes_of_hex (token ",)="))
    | 'o' -> ignore (token ",)="); VOpaque
    | 'm' ->
        expect '(';
        let out = ref [] in
        while s.[!i] <> ')' do
          let k = bytes_of_hex (token "=") in
          expect '=';
          let v = value () in
          out := (k, v) :: !out;
          if s.[!i] = ',' then incr i
        done;
        expect ')';
        VMap (List.rev !out)
    | 'l' ->
        incr i;
        expect '(';
        let out = ref [] in
        while s.[!i] <> ')' do
          let v = value () in
          out := v :: !out;
          if s.[!i] = ',' then incr i
        done;
        expect ')';
        VList (List.rev !out)
    | _ -> failwith "tree: value kind" in
  value ()

let rec print_val (v : val0) : string =
  match v with
  | VStr b -> "s" ^ hex_of_bytes b
  | VOpaque -> "o"
  | VMap m ->
      let l = List.sort compare (List.map (fun (k, x) -> (hex_of_bytes k, print_val x)) m) in
      "m(" ^ String.concat "," (List.map (fun (k, x) -> k ^ "=" ^ x) l) ^ ")"
  | VList l -> "l(" ^ String.concat "," (List.map print_val l) ^ ")"

let print_gres = function
  | GvOk v -> "v:" ^ print_val v
  | GvErr -> "err"
  | GvPanic -> "panic"
  | GvNoDraw -> "nodraw"


(* ---- templater cases (grammar: harness/cmd/hC15/tmpl.go) ---- *)
let rec tval_of (v : val0) : tval =
  match v with
  | VStr b -> TStr b
  | VOpaque -> TNil                       (* the tmpl generator only writes o3 = nil *)
  | VMap m -> TMap (List.map (fun (k, x) -> (k, tval_of x)) m)
  | VList l -> TList (List.map tval_of l)

let parse_tsrc (t : string) : tsrc =
  if t = "E" then TOk []
  else if t.[0] = 'U' then TUnparsable
  else TOk (List.map (fun p ->
      let rest = String.sub p 1 (String.length p - 1) in
      match p.[0] with
      | 'L' -> PLit (bytes_of_hex rest)
      | 'C' -> PChain (if rest = "" then [] else List.map bytes_of_hex (String.split_on_char '/' rest))
      | 'F' ->
          let i = String.index rest '~' in
          let r = String.sub rest (i + 1) (String.length rest - i - 1) in
          PFunc (if r = "!" then None else Some (bytes_of_hex r))
      | _ -> failwith "piece") (String.split_on_char '_' t))

let parse_tcall (trees : tval array) (c : string) : tcall =
  match String.split_on_char ':' c with
  | [ti; scen; step; url; hdrs; body] ->
      { tc_scen = bytes_of_hex scen; tc_step = bytes_of_hex step;
        tc_parts = { pa_url = parse_tsrc url;
                     pa_hdrs = List.map (fun h ->
                         let i = String.index h '=' in
                         (bytes_of_hex (String.sub h 0 i), parse_tsrc (String.sub h (i + 1) (String.length h - i - 1))))
                         (split_on '+' hdrs);
                     pa_body = (if body = "-" then None else Some (parse_tsrc body)) };
        tc_data = trees.(int_of_string ti) }
  | _ -> failwith "tcall"

let print_ap (r : ap_res) : string =
  match r with
  | ApErr (AeParseUrl | AeExecUrl) -> "err:u"
  | ApErr AeHdr -> "err:h"
  | ApErr (AeParseBody | AeExecBody) -> "err:b"
  | ApOk rp ->
      let hs = if rp.rp_hdrs = [] then "~"
        else String.concat "+" (List.sort compare (List.map (fun (k, v) -> hex_of_bytes k ^ "=" ^ hex_of_bytes v) rp.rp_hdrs)) in
      "ok:" ^ hex_of_bytes rp.rp_url ^ ":" ^ hs ^ ":" ^ (match rp.rp_body with Some b -> hex_of_bytes b | None -> "~")

(* the description fixes the templates of a step (hypothesis of C15_render_own_data) *)
let tcalls_consistent (calls : tcall list) : bool =
  List.for_all (fun x -> List.for_all (fun y ->
      x.tc_scen <> y.tc_scen || x.tc_step <> y.tc_step || x.tc_parts = y.tc_parts) calls) calls
  && List.for_all (fun x -> let ks = List.map fst x.tc_parts.pa_hdrs in List.length (uniq ks) = List.length ks) calls

(* ---- csv cases (grammar: harness/cmd/hC15/csvsrc.go) ---- *)
let print_rows (rows : (n list * n list) list list) : string =
  if rows = [] then "ok -"
  else "ok " ^ String.concat ";" (List.map (fun row ->
      if row = [] then "-"
      else String.concat "," (List.sort compare (List.map (fun (k, v) -> hex_of_bytes k ^ "=" ^ hex_of_bytes v) row))) rows)

let predict (c : string) (obs : string) : string * string * bool =
  match split_blank c with
  | ["csv"; delim; fields; ign; filed; lines; filehex] ->
      let dopt = if delim = "~" then [] else bytes_of_hex delim in
      let fl = if fields = "~" then [] else List.map bytes_of_hex (String.split_on_char ',' fields) in
      let ignore = (ign = "i") in
      let file = bytes_of_hex filehex in
      let o = { co_delim = dopt; co_fields = fl; co_ignore = ignore } in
      let p = (match read_csv o file with
          | CsvOk rows -> print_rows rows
          | CsvErr -> "err"
          | CsvUnmodelled -> "unmodelled") in
      (* specification side (C15_csv_source): the file is the printed form of lines of w clean cells, the
         delimiter is valid and the option names it (or is absent for the comma) *)
      let d = (match bytes_of_hex filed with [x] -> x | _ -> failwith "filed") in
      if lines = "~" then (p, "ok", false)
      else begin
        let ls = List.map (fun l -> List.map bytes_of_hex (String.split_on_char ',' l)) (String.split_on_char ';' lines) in
        let w = nat_of_int (List.length (List.hd ls)) in
        let hyp = valid_delim d && int_of_n d < 128 && comma_of dopt = d
                  && List.for_all (line_ok d w) ls && print_csv d ls = file in
        if hyp then begin
          let want = print_rows (csv_spec fl ignore ls) in
          let ws = (match dopt with [x] -> x = n_of_int 9 || x = n_of_int 32 | _ -> false) in
          (p, verdict (obs = want)
             "csv-source-rows: the rows of a file/csv source are not the cells of its lines under the configured field names (delimiter, fields, ignore_first_line)",
           List.length ls >= 2 && (ws || fl = [] || ignore))
        end else (p, "ok", false)
      end
  | ["tmpl"; kind; trees; calls] ->
      let html = (kind = "h") in
      let trees = Array.of_list (List.map (fun t -> tval_of (parse_tree t)) (String.split_on_char ';' trees)) in
      let calls = List.map (parse_tcall trees) (String.split_on_char ';' calls) in
      let p = String.concat " " (List.map print_ap (run_applies html [] calls)) in
      if tcalls_consistent calls then begin
        (* specification side (C15_render_own_data): every call rendered from its own templates and data *)
        let w = List.map print_ap (spec_applies html calls) in
        let rec after_fail = function
          | a :: (b :: _ as r) -> (String.length a >= 3 && String.sub a 0 3 = "err" && String.sub b 0 2 = "ok") || after_fail r
          | _ -> false in
        let o = String.split_on_char ' ' obs in
        let why =
          if List.length o <> List.length w then "the run did not complete"
          else List.fold_left2 (fun acc a b ->
              if acc <> "" || a = b then acc
              else begin
                let pa = String.split_on_char ':' a and pb = String.split_on_char ':' b in
                match pa, pb with
                | "err" :: _, "ok" :: _ -> "tmpl-rendered-though-a-template-of-the-step-fails: the step must fail on its template error, a request was produced instead"
                | "ok" :: _, "err" :: _ -> "tmpl-failed-though-every-template-renders: a rendering that must succeed on the tree of its step failed"
                | ["ok"; u1; h1; _], ["ok"; u2; h2; _] ->
                    if u1 <> u2 then "tmpl-uri-differs: the URI was not rendered from its own template and the variable tree of its own step"
                    else if h1 <> h2 then "tmpl-header-differs: a header was not rendered from its own template and the variable tree of its own step"
                    else "tmpl-body-differs: the body was not rendered from its own template and the variable tree of its own step"
                | "err" :: _, "err" :: _ -> "tmpl-failure-in-another-part: the template error was reported for another part of the request"
                | _ -> "tmpl-panic: the templater panicked"
              end) "" w o in
        (p, verdict (why = "") why,
         after_fail w)
      end else (p, "ok", false)
  | ["path"; tree; draws; paths] ->
      let t = (match parse_tree tree with VMap m -> m | _ -> failwith "tree: top") in
      let ps = List.map bytes_of_hex (String.split_on_char ',' paths) in
      let st = { g_iter = []; g_draws = List.map (fun d -> nat_of_int (int_of_string d)) (split_on ',' draws) } in
      let p = String.concat " " (List.map print_gres (run_paths [] (List.map (fun x -> (t, x)) ps) st)) in
      (* specification side: when every path is a canonical path (names separated by dots, lists
         addressed as name[digits] or name[next], at most one [next]) every list addressed with
         [next] hands out its own consecutive elements (C15_next_per_list) *)
      let cps = List.map canon_of ps in
      if List.for_all (fun x -> x <> None) cps then begin
        let h = List.map (function Some cp -> (t, cp) | None -> assert false) cps in
        let w = String.concat " " (List.map print_gres (spec_paths [] h)) in
        let distinct_next = List.length (uniq (List.filter (fun cp -> cp <> []) (List.map (fun (_, cp) -> next_loc cp) h))) in
        (p, verdict (obs = w) "a list addressed with [next] did not hand out its own consecutive elements (rows skipped, repeated or taken from another list's counter)",
         distinct_next >= 2)
      end else (p, "ok", false)
  | ["parse"; h] ->
      let p = print_pshoot (parse_shoot (bytes_of_hex h)) in
      (p, "ok", false)
  | "pp" :: form :: name :: nl :: sl :: b ->
      let b = Array.of_list (List.map bytes_of_hex b) in
      let nm = bytes_of_hex name and nb = bytes_of_hex nl and sb = bytes_of_hex sl in
      let str, want =
        match form with
        | "0" -> (print_bare nm, if name_ok (string_of_bytes nm) then Some (nm, Some (ZT.of_int 1), Some (ZT.of_int 0)) else None)
        | "1" -> (print_n b.(0) nm b.(1) b.(2) nb b.(3) b.(6),
                  if name_ok (string_of_bytes nm) then Some (nm, lit_value 1 (string_of_bytes nb), Some (ZT.of_int 0)) else None)
        | _ -> (print_ns b.(0) nm b.(1) b.(2) nb b.(3) b.(4) sb b.(5) b.(6),
                if name_ok (string_of_bytes nm) then Some (nm, lit_value 1 (string_of_bytes nb), lit_value 0 (string_of_bytes sb)) else None) in
      let p = print_pshoot (parse_shoot str) in
      (match want with
       | Some (nm, Some n, Some s) ->
           (* the documented form with well-formed name and literals: C15_parse applies *)
           let w = Printf.sprintf "ok %s %s %s" (hex_of_bytes nm) (ZT.to_string n) (ZT.to_string s) in
           (p, verdict (obs = w) "a documented form does not parse to the name, multiplicity and pause that were written", true)
       | _ -> (p, "ok", false))
  | ["gcd"; a; b] ->
      let za = ZT.of_string a and zb = ZT.of_string b in
      let p = (match gcd_go (z_of_zt za) (z_of_zt zb) with Some g -> string_of_z g | None -> "model-out-of-fuel") in
      if ZT.sign za > 0 && ZT.sign zb > 0 then
        (p, verdict (obs = ZT.to_string (ZT.gcd za zb)) "GCD of positive arguments", true)
      else (p, "ok", false)
  | ["gcdm"; ws] ->
      let l = List.map ZT.of_string (split_on ',' ws) in
      let p = (match gcdm_go (List.map z_of_zt l) with Some g -> string_of_z g | None -> "model-out-of-fuel") in
      if List.length l >= 2 && List.for_all (fun w -> ZT.sign w > 0) l then
        (p, verdict (obs = ZT.to_string (List.fold_left ZT.gcd ZT.zero l)) "GCDM of positive weights", true)
      else (p, "ok", false)
  | ["build"; nacq; tables; reqs; scens] ->
      let (_, rq, sc, b) = build_of tables reqs scens in
      (match b with
       | BuildOk (exps, ring) ->
           let nacq = int_of_string nacq in
           let nm i = string_of_bytes (List.nth sc i).sc_name in
           let render ring_idx exp_of =
             let seen = ref [] in
             List.iter (fun i -> if not (List.mem i !seen) then seen := !seen @ [ i ]) ring_idx;
             Printf.sprintf "ok ring=%s exp=%s" (String.concat "," (List.map nm ring_idx))
               (String.concat ";" (List.map (fun i -> nm i ^ ":" ^ print_expansion (exp_of i) (List.nth sc i).sc_minwait) !seen)) in
           let idx = List.filter_map (fun k -> match deliver ring (nat_of_int k) with
               | Some i -> Some (int_of_nat i) | None -> None) (seq 0 nacq) in
           let p = render idx (fun i -> List.nth exps i) in
           (* specification side *)
           let sidx = if spec_ring_ok sc then begin
               let sring = spec_ring (List.map (fun s -> s.sc_weight) sc) in
               let slen = List.length sring in
               List.map (fun k -> int_of_nat (List.nth sring (k mod slen))) (seq 0 nacq) end else idx in
           let sexps = spec_exps rq sc in
           let w = render sidx (fun i -> match List.nth sexps i with Some e -> e | None -> List.nth exps i) in
           (p, verdict (obs = w) "ring order / expansion differs from the documented reading", List.length sc > 1)
       | f ->
           (* construction must succeed when every list reads and the weights are fine *)
           let readable = spec_ring_ok sc && List.for_all (fun e -> e <> None) (spec_exps rq sc) in
           (build_fail f, verdict (not readable) "a well-formed description was rejected by the model", false))
  | "shot" :: nshots :: script :: tables :: reqs :: scens :: _gun ->
      (* the gun option (registered defaults / redirect: false written) does not enter the model: a gun
         built from a pool config that does not ask for redirects hands every answer, 3xx included, to the step *)
      let ((src, ssrc), rq, sc, b) = build_of tables reqs scens in
      (match b with
       | BuildOk (exps, ring) ->
           if not (src_wf ssrc) then ("unmodelled-empty-table", "ok", false)
           else begin
             let run s = run_shots s exps ring O (nat_of_int (int_of_string nshots)) (world0 (parse_script script)) in
             let p = (match src with
                 | Some s -> "ok " ^ String.concat " " (List.map (print_shot sc exps) (run s))
                 | None -> "err") in
             (* from here on: the specification side, on the sources as csv_spec reads the files *)
             let rs = run ssrc in
             let names = uniq (List.map (fun r -> r.cq_name) rq) in
             let sexps = spec_exps rq sc in
             let sring = if spec_ring_ok sc then Some (spec_ring (List.map (fun s -> s.sc_weight) sc)) else None in
             let spec_of k (r : shot_res) =
               let si = (match sring with
                   | Some sr -> int_of_nat (List.nth sr (k mod List.length sr))
                   | None -> int_of_nat r.sr_scen) in
               let steps = (match List.nth sexps si with Some e -> e | None -> List.nth exps si) in
               (string_of_bytes (List.nth sc si).sc_name, (List.nth sc si).sc_minwait, steps) in
             let specs = List.mapi spec_of rs in
             let w = "ok " ^ String.concat " " (List.map2 (fun (sname, minw, steps) r -> print_shot_spec names sname minw steps r) specs rs) in
             let chunks = split_shots obs in
             let structural =
               if List.length chunks <> List.length rs then "number of shots differs"
               else List.fold_left2 (fun acc (sname, _, steps) c -> if acc <> "" then acc else obs_shot_ok sname steps c) "" specs chunks in
             let failed = List.exists (fun r -> r.sr_out <> Done) rs in
             let nsamples c = (try
                 let i = Str.search_forward (Str.regexp "samples=\\([^ ]*\\)") c 0 in
                 ignore i; List.length (split_on ',' (Str.matched_group 1 c)) with Not_found -> 0) in
             let wchunks = split_shots w in
             let more = List.length chunks = List.length wchunks
                        && List.exists2 (fun o x -> nsamples o > nsamples x) chunks wchunks in
             let fewer = List.length chunks = List.length wchunks
                         && List.exists2 (fun o x -> nsamples o < nsamples x) chunks wchunks in
             let v = if structural <> "" then "BAD:" ^ structural
               else if more then "BAD:stop: a step that must fail (transport, template, preprocessor or assertion failure) was reported as a success and later steps ran"
               else if fewer then "BAD:stop: the shot stopped at a step that must succeed"
               else if obs <> w then "BAD:shot log differs from the specified execution (variables visible to a template, scenario order or expansion)"
               else "ok" in
             (p, v, failed || List.length rs > 1)
           end
       | f -> (build_fail f, "ok", false))
  | ["inst"; _inst; total; tables; reqs; scens] ->
      let ((src, ssrc), _, sc, b) = build_of tables reqs scens in
      (match b with
       | BuildOk (exps, ring) ->
         let side src =
           let rs = run_shots src exps ring O (nat_of_int (int_of_string total)) (world0 []) in
           let nsamples = ref 0 in
           let rows = Hashtbl.create 7 in
           List.iter (fun r ->
               let sname = string_of_bytes (List.nth sc (int_of_nat r.sr_scen)).sc_name in
               List.iter (function
                   | EvSend (_, rd) ->
                       let x = (match rm_get rd.rd_vars rd.rd_name with
                           | Some { sv_pre = Some m; _ } -> (match assoc m (bs "x") with Some v -> string_of_bytes v | None -> "")
                           | _ -> "") in
                       Hashtbl.replace rows sname (x :: (try Hashtbl.find rows sname with Not_found -> []))
                   | EvSampleOk _ | EvSampleFail _ -> incr nsamples
                   | _ -> ()) r.sr_events) rs;
           let names = List.sort compare (Hashtbl.fold (fun k _ acc -> k :: acc) rows []) in
           Printf.sprintf "ok samples=%d failed=0 %s" !nsamples
               (String.concat " " (List.map (fun k -> k ^ "=" ^ String.concat "," (List.sort compare (Hashtbl.find rows k))) names)) in
           let p = (match src with Some s -> side s | None -> "err") in
           let w = side ssrc in
           let why = if obs = "crash" then "instances crashed (fatal runtime error) while shooting concurrently"
             else "rows handed out by [next] are not the consecutive rows round-robin" in
           (p, verdict (obs = w) why, true)
       | f -> (build_fail f, "ok", false))
  | ["iter"; g; per; len; _rounds] ->
      let g = int_of_string g and per = int_of_string per and len = int_of_string len in
      (* three lists called `users` under different parents, lengths len, len+1, len+2; goroutine t
         uses list (j+t) mod 3 in its j-th evaluation; any interleaving gives the same counts *)
      let keys = [| bs ".source.users[next]"; bs ".source.eu.users[next]"; bs ".source.us.users[next]" |] in
      let tr = List.concat_map (fun t -> List.init per (fun j -> (nat_of_int t, keys.((j + t) mod 3)))) (seq 0 g) in
      let (out, _) = it_run [] tr in
      let counts = Array.init 3 (fun p -> Array.make (len + p) 0) in
      let bad = ref false in
      List.iter (fun ((_, k), v) ->
          let p = if k = keys.(0) then 0 else if k = keys.(1) then 1 else 2 in
          match next_row (nat_of_int (len + p)) v with
          | NxRow i -> let i = int_of_nat i in counts.(p).(i) <- counts.(p).(i) + 1
          | NxPanic -> bad := true) out;
      let p = Printf.sprintf "1 1 startups=1 errs=0 rows=%s"
          (String.concat ";" (Array.to_list (Array.map (fun c -> String.concat "," (Array.to_list (Array.map string_of_int c))) counts))) in
      let p = if !bad then "model-panic" else p in
      (p, verdict (obs = p) "counter values are not 0..E-1 / rows of a list not round-robin (per list, several lists of the same name)", g > 1)
  | _ -> ("unknown-case", "BAD:unknown-case", false)

let () = run_cases predict
