open Model
open Conv

let rec shape_of_tokens (t : string list) : nerr =
  match t with
  | [] -> EOther
  | [x] -> if String.length x > 0 && x.[0] = 'E' then EErrno (n_of_string (String.sub x 1 (String.length x - 1))) else EOther
  | "O" :: r -> EOp (shape_of_tokens r)
  | "S" :: r -> ESys (shape_of_tokens r)
  | "U" :: r -> EUrl (shape_of_tokens r)
  | "W" :: r -> EWrap (shape_of_tokens r)
  | _ :: r -> shape_of_tokens r

(* the specification's tag (what the property text says), written without autotag_go *)
let spec_tags cfg tag path =
  let auto = autotag_spec cfg.at_depth path in
  let t1 =
    if cfg.at_enabled && (not cfg.at_notagonly || tag = []) then
      (if tag = [] then auto else tag @ (n_of_int 124 :: auto))
    else tag in
  if t1 = [] then empty_tag else t1

let predict (c : string) (obs : string) : string * string * bool =
  match split_blank c with
  | ["grpc"; code] ->
      let c = n_of_string code in
      let a = string_of_n (grpc_code c) and d = string_of_n (doc_code c) in
      (a, verdict (obs = d) ("documented code is " ^ d), true)
  | ["shoot"; en; depth; nto; tag; path] ->
      let cfg = { at_enabled = bool_of_field en; at_depth = nat_of_int (int_of_string depth); at_notagonly = bool_of_field nto } in
      let tagb = bytes_of_hex tag and pathb = bytes_of_hex path in
      let tags = shoot_tags cfg tagb pathb in
      let want = hex_of_bytes (spec_tags cfg tagb pathb) ^ " 204 7" in
      (* one sample, carrying the received status (204 from the scripted client) and the ammo id *)
      (hex_of_bytes tags ^ " 204 7", verdict (obs = want) ("expected " ^ want), cfg.at_enabled && List.length pathb > 1)
  | ["errno"; t; shape] ->
      let e = shape_of_tokens (String.split_on_char '.' shape) in
      let p = string_of_n (get_errno (bool_of_field t) e) in
      (p, verdict (obs = p && obs <> "0") "errno", String.length shape > 3)
  | ["ids"; _; g; per] ->
      let n = int_of_string g * int_of_string per in
      let p =
        if n = 0 then "0 1 0 0"
        else begin
          let ids = ids_from (n_of_int 1) (nat_of_int n) in
          let sorted = List.sort compare (List.map int_of_n ids) in
          let rec distinct = function a :: (b :: _ as r) -> a <> b && distinct r | _ -> true in
          Printf.sprintf "%d %s %d %d" (List.length ids) (field_of_bool (distinct sorted)) (List.hd sorted) (List.nth sorted (n - 1))
        end in
      (* the property: ids pairwise distinct (second field) and one id per acquisition (first field) *)
      let ok = (match split_blank obs with [cnt; d; _; _] -> d = "1" && cnt = string_of_int n | _ -> false) in
      (p, verdict ok "ids not unique", int_of_string g > 1 && n > 1)
  | _ -> ("unknown-case", "BAD:unknown-case", false)

let () = run_cases predict
