open Model
open Conv

let rec shape_of_tokens (t : string list) : nerr =
  match t with
  | [] -> EOther
  | [x] -> if String.length x > 0 && x.[0] = 'E' then EErrno (n_of_string (String.sub x 1 (String.length x - 1))) else EOther
  | "O" :: r -> EOp (shape_of_tokens r)
  | "S" :: r -> ESys (shape_of_tokens r)
  | "U" :: r -> EUrl (shape_of_tokens r)
  | "W" :: r -> EWrap (shape_of_tokens r)
  | "N" :: r -> EUnder (shape_of_tokens r)
  | _ :: r -> shape_of_tokens r

(* the specification's tag (what the property text says), written without autotag_go *)
let spec_tags cfg tag path =
  let auto = autotag_spec cfg.at_depth path in
  let t1 =
    if cfg.at_enabled && (not cfg.at_notagonly || tag = []) then
      (if tag = [] then auto else tag @ (n_of_int 124 :: auto))
    else tag in
  if t1 = [] then empty_tag else t1

(* ---- gun-level cases (harness/cmd/hC10/guns.go) ---- *)

let s_sample (s : sample) = Printf.sprintf "%s:%s:%s" (hex_of_bytes s.sm_tags) (string_of_n s.sm_proto) (string_of_n s.sm_net)
(* samples as they are at the moment of Report, then the number of samples written to afterwards *)
let s_samples_late (l : sample list) (late : int) =
  String.concat " " ((Printf.sprintf "n=%d" (List.length l) :: List.map s_sample l) @ [Printf.sprintf "late=%d" late])
(* specification side: the samples, none of them touched after its hand-over *)
let s_samples (l : sample list) = s_samples_late l 0
(* code-shaped side: the trace of operations of the shot (Model/ShootEvents.v) *)
let s_trace (tr : sev list) = s_samples_late (at_report tr) (int_of_nat (late_writes tr))

let cut (sep : char) (s : string) : string * string =
  match String.index_opt s sep with
  | Some i -> (String.sub s 0 i, String.sub s (i + 1) (String.length s - i - 1))
  | None -> (s, "")

let starts p s = String.length s >= String.length p && String.sub s 0 (String.length p) = p
let after_prefix p s = String.sub s (String.length p) (String.length s - String.length p)

(* the errno the operating system (Linux) yields for a fault the in-process target plays:
   assumed, not modelled (DESIGN.md C10 "Outside the model") *)
let os_errno fault =
  match fault with
  | "refuse" -> Some 111 | "stall" -> Some 110
  | "reset" | "connreset" | "truncrst" -> Some 104
  | "trunc" | "badconnect" -> Some 999
  | _ -> None

let predict_http gun fault status en depth nto tag path obs =
  let cfg = { at_enabled = bool_of_field en; at_depth = nat_of_int (int_of_string depth); at_notagonly = bool_of_field nto } in
  let tagb = bytes_of_hex tag and pathb = bytes_of_hex path in
  let st = n_of_string status in
  (* the error value the gun got, as the harness saw it *)
  let shape_field = List.fold_left (fun acc w -> if starts "shape=" w then after_prefix "shape=" w else acc) "-" (split_blank obs) in
  let err = if shape_field = "-" then None
            else let (t, sh) = cut ':' shape_field in Some (bool_of_field t, shape_of_tokens (String.split_on_char '.' sh)) in
  let fails = (match fault with "ok" | "hookok" | "invalid" | "hookfail0" | "hookfail1" -> false | _ -> true) in
  let x =
    match fault, err with
    | ("trunc" | "truncrst"), Some (t, e) -> XResp (st, BodyErr (t, e))
    | _, Some (t, e) when fails -> XErr (t, e)
    | _, _ -> XResp (st, BodyOk) in
  let h = (match fault with "hookok" -> HOk | "hookfail0" | "hookfail1" -> HFail | _ -> HNone) in
  let invalid = (fault = "invalid") in
  let id = n_of_int 7 in
  let tr = base_shoot_ev cfg h invalid id tagb pathb x in
  let own = at_report tr in
  let s_one (s : sample) = Printf.sprintf "%s %s %s %s" (hex_of_bytes s.sm_tags) (string_of_n s.sm_proto) (string_of_n s.sm_net) (string_of_n s.sm_id) in
  let reqs = (match fault with "refuse" | "badconnect" | "connreset" | "invalid" | "hookfail0" | "hookfail1" -> 0 | _ -> 1) in
  let line own_l hook_n late =
    Printf.sprintf "own=%d hook=%d %s late=%d shape=%s reqs=%d" (List.length own_l) hook_n
      (match own_l with [s] -> s_one s | [] -> "-" | _ -> "many") late shape_field reqs in
  let pred = line own (if fault = "hookfail1" then 1 else 0) (int_of_nat (late_writes tr)) in
  let v =
    if h = HFail then
      (* the hook failed: Shoot reports nothing itself; the hook's contract is to report *)
      verdict (starts "own=0 " obs) "Shoot reported a sample although the Connect hook failed"
    else begin
      let want = line [base_spec cfg invalid id tagb pathb x] 0 0 in
      if obs <> want then "BAD:expected " ^ want
      else if fails then
        (match err, os_errno fault with
         | None, _ -> "BAD:the exchange failed but the gun saw no error"
         | Some (t, e), Some n ->
             let got = int_of_n (get_errno t e) in
             verdict (got = n && got <> 0) (Printf.sprintf "net code %d for fault %s (expected %d)" got fault n)
         | Some _, None -> "ok")
      else "ok"
    end in
  (pred, v, gun = "c" || fails || invalid || (cfg.at_enabled && List.length pathb > 1))

let colon_split s = String.split_on_char ':' s
let hstep_of kind =
  if starts "s" kind && kind <> "stall" then HStepOk (n_of_string (after_prefix "s" kind))
  else if starts "q" kind then HStepOk (n_of_string (after_prefix "q" kind))   (* completed, with succeeding processors *)
  else HStepFail
let gstep_of kind =
  if kind = "pre" then GSPre else if kind = "tmpl" then GSTmpl else if kind = "badcall" then GSBadCall
  else if kind = "badpayload" then GSBadPayload
  else if starts "post" kind then GSCalled (n_of_string (after_prefix "post" kind), true)
  else if starts "qt" kind then GSCalled (n_of_string (after_prefix "qt" kind), false)
  else GSCalled (n_of_string (after_prefix "st" kind), false)
(* step = <label>:<kind>[:<other>]: the label is the field the gun builds the sample tag from (HTTP: the
   request's name, gRPC: the call's tag), <other> the other declared field (HTTP: the request's tag,
   gRPC: the call's name, step<i> by default) *)
let bytes_of_string (s : string) : n list = List.init (String.length s) (fun i -> n_of_int (Char.code s.[i]))
let decl_steps_of ~(http : bool) f field =
  if field = "-" then [] else
  List.mapi (fun i st ->
      let (label, rest) = cut ':' st in
      let (kind, other) = cut ':' rest in
      let label = bytes_of_hex label in
      let d = if http then { sd_name = label; sd_tag = (if other = "" then [] else bytes_of_hex other) }
              else { sd_name = (if other = "" then bytes_of_string (Printf.sprintf "step%d" i) else bytes_of_hex other); sd_tag = label } in
      (d, f kind)) (String.split_on_char ',' field)

(* ---- scenario-file cases and runs through the phout queue (harness/cmd/hC10/run.go) ---- *)

let predict_scfile fmt k decls scens obs =
  let k = int_of_string k in
  let decl_of f d = (match colon_split d with
                     | [nm; tg; kind] -> ({ sd_name = bytes_of_hex nm; sd_tag = bytes_of_hex tg }, f kind)
                     | _ -> failwith ("bad declaration " ^ d)) in
  let item it =
    if it = "sl" then SISleep else
    let (nm, cnt) = cut '*' it in
    let cnt = if cnt = "" then 1 else int_of_string (List.hd (String.split_on_char '+' cnt)) in
    SIReq (bytes_of_hex nm, nat_of_int cnt) in
  let scs = List.map (fun sc -> let (nm, items) = cut '=' sc in
                       (bytes_of_hex nm, List.map item (String.split_on_char ',' items))) (String.split_on_char ';' scens) in
  (* code-shaped side (the trace of the shot of what the provider delivers), specification side *)
  let (file_ev, file_spec) =
    if starts "g" fmt then
      let reg = List.map (decl_of gstep_of) (String.split_on_char ',' decls) in
      ((fun (nm, items) -> gscen_file_ev nm reg items), (fun (nm, items) -> gscen_file_spec nm reg items))
    else
      let reg = List.map (decl_of hstep_of) (String.split_on_char ',' decls) in
      ((fun (nm, items) -> hscen_file_ev nm reg items), (fun (nm, items) -> hscen_file_spec nm reg items)) in
  if List.exists (fun sc -> file_ev sc = None) scs then
    (* the provider refuses a file one of whose scenarios names an undeclared request or starts with a sleep *)
    ("providererr", verdict (obs = "providererr") "expected the provider to refuse the file", false)
  else begin
    let n = List.length scs in
    let acquired = List.init k (fun i -> List.nth scs (i mod n)) in
    let trs = List.map (fun sc -> match file_ev sc with Some t -> t | None -> []) acquired in
    let pred = s_samples_late (List.concat_map at_report trs) (List.fold_left (fun a t -> a + int_of_nat (late_writes t)) 0 trs) in
    let spec = List.concat_map file_spec acquired in
    let want = s_samples spec in
    (pred, verdict (obs = want) ("expected " ^ want), List.length spec >= 2)
  end

let q_statuses = [| 200; 404; 503; 301 |]
let q_status i j = n_of_int q_statuses.((i + j) mod Array.length q_statuses)
let predict_phoutq cap kinds per obs =
  let cap = nat_of_int (int_of_string cap) and per = int_of_string per in
  let cfg = { at_enabled = false; at_depth = nat_of_int 2; at_notagonly = true } in
  let str = bytes_of_string in
  let shots = List.concat (List.init (String.length kinds) (fun i ->
    List.init per (fun j ->
      let name = str (Printf.sprintf "i%dn%d" i j) in
      match kinds.[i] with
      | 'h' ->
          let x = if j mod 5 = 4 then XErr (false, EOp (ESys (EErrno (n_of_int 104)))) else XResp (q_status i j, BodyOk) in
          ShHttp (cfg, false, n_of_int (i * 1000 + j + 1), name, str "/p", x)
      | 's' -> ShHScen (name, [({ sd_name = str "a"; sd_tag = str "t" }, HStepOk (q_status i j));
                               ({ sd_name = str "b"; sd_tag = str "t" }, HStepOk (q_status i (j + 1)))])
      | _ -> ShGrpc (name, GCalled (n_of_int ((i + j) mod 17)))))) in
  let line (s : sample) = Printf.sprintf "%s#%s:%s:%s" (hex_of_bytes s.sm_tags) (string_of_n s.sm_id) (string_of_n s.sm_proto) (string_of_n s.sm_net) in
  let show (l : sample list) = String.concat " " (Printf.sprintf "n=%d" (List.length l) :: List.sort compare (List.map line l)) in
  (* code-shaped side: the Report re-read from phout.go, the writer as far behind as that Report lets it be *)
  let var = report_variant gen_phout_report_plain_send in
  let reports = List.concat_map shot_reports shots in
  let pred = (match run_lines var cap (lazy_history var cap qinit reports) with Some l -> show l | None -> "stuck") in
  (* specification: one line per fired request / executed step, with its own tag, id and codes
     (gRPC: the documented code of the call status) *)
  let spec_of = function
    | ShGrpc (tg, GCalled st) -> [{ sm_tags = tg; sm_proto = doc_code st; sm_net = n_of_int 0; sm_id = n_of_int 0 }]
    | s -> shot_spec s in
  let spec = List.concat_map spec_of shots in
  let fired = List.fold_left (fun a s -> a + int_of_nat (shot_requests s)) 0 shots in
  let want = show spec in
  let v = if List.length spec <> fired then "BAD:specification lists a different number of samples than requests were fired"
          else verdict (obs = want) (Printf.sprintf "the results file does not hold exactly one line per fired request (%s lines of %d)"
                                       (List.hd (split_blank (obs ^ " ?"))) fired) in
  (pred, v, fired > int_of_nat cap)


(* ---- a whole pool through the real engine (harness/cmd/hC10/engine.go): entries of a uri file, the requests the
   target has received, the lines of the results file ---- *)
let predict_engine gun entries obs =
  let is_grpc = starts "grpc" gun in
  let cfg = { at_enabled = false; at_depth = nat_of_int 2; at_notagonly = true } in
  let ents = Array.of_list (List.map (fun e -> let (t, st) = cut ':' e in (bytes_of_hex t, st)) (String.split_on_char ',' entries)) in
  let m = Array.length ents in
  (* the request of entry i carrying id *)
  let shot_of (i, id) =
    let (tag, st) = ents.(i) in
    if is_grpc then ShGrpc (tag, GCalled (n_of_string (after_prefix "st" st))) else
    (* trunc: status 500, the body ends before its announced length: an error value without errno (999) *)
    let x = if st = "trunc" then XResp (n_of_int 500, BodyErr (false, EOther)) else XResp (n_of_string st, BodyOk) in
    ShHttp (cfg, false, n_of_int id, tag, bytes_of_string (Printf.sprintf "/e%d" i), x) in
  let line (s : sample) = Printf.sprintf "%s#%s:%s:%s" (hex_of_bytes s.sm_tags) (string_of_n s.sm_id) (string_of_n s.sm_proto) (string_of_n s.sm_net) in
  let words = split_blank obs in
  let field p = List.fold_left (fun acc w -> if starts p w then Some (after_prefix p w) else acc) None words in
  match field "err=", field "served=", field "n=" with
  | Some "crash", _, _ -> ("err=nil", "BAD:the engine crashed while running the pool (panic on one of its goroutines)", true)
  | Some "hang", _, _ -> ("err=nil", "BAD:the pool run does not end (a Report blocks on an aggregator that has returned, or the await loop waits for ever)", true)
  | Some err, Some served, Some _ ->
      let served_l = if served = "-" then [] else
        List.map (fun w -> let (i, k) = cut '*' w in (int_of_string i, int_of_string k)) (String.split_on_char ',' served) in
      let foreign = List.exists (fun (j, _) -> j < 0 || j >= m) served_l in
      let served_l = List.filter (fun (j, _) -> j >= 0 && j < m) served_l in
      let total = List.fold_left (fun a (_, k) -> a + k) 0 served_l in
      let obs_lines = List.filter (fun w -> String.contains w '#') words in
      let ids = List.map (fun w -> let (_, r) = cut '#' w in let (id, _) = cut ':' r in int_of_string id) obs_lines in
      let rec distinct = function a :: (b :: _ as r) -> a <> b && distinct r | _ -> true in
      (* the gRPC gun attaches no ids (the results are written without them: id 0 everywhere) *)
      let ids_ok = is_grpc || (distinct (List.sort compare ids) && List.for_all (fun k -> k >= 1) ids) in
      (* the sample the property asks for; gRPC: the DOCUMENTED code of the call status (C10_grpc_table) *)
      let spec_line sh = match sh with
        | ShGrpc (tg, GCalled c) -> line { sm_tags = tg; sm_proto = doc_code c; sm_net = n_of_int 0; sm_id = n_of_int 0 }
        | _ -> line (List.hd (shot_spec sh)) in
      (* which request is a line the sample of?  The ids are handed out at Acquire (any order among concurrently acquiring
         instances), so a line is matched with a received request of an entry whose sample (with the line's id) it is *)
      let remaining = Array.make m 0 in
      List.iter (fun (j, k) -> remaining.(j) <- remaining.(j) + k) served_l;
      let pairs = List.filter_map (fun (w, id) ->
        let rec find i = if i >= m then None
          else if remaining.(i) > 0 && w = spec_line (shot_of (i, id)) then (remaining.(i) <- remaining.(i) - 1; Some (i, id))
          else find (i + 1) in
        find 0) (List.combine obs_lines ids) in
      let all_matched = List.length pairs = List.length obs_lines in
      let none_left = Array.for_all (fun k -> k = 0) remaining in
      (* code-shaped side: the requests the target saw, shot by a pool with one instance more than there is ammo at
         a slow target, the await loop as the source has it (Model/ShootEngine.v slow_trace) *)
      let model_reqs =
        if all_matched && none_left then pairs
        else List.mapi (fun k i -> (i, k + 1)) (List.concat_map (fun (j, k) -> List.init k (fun _ -> j)) served_l) in
      let shots = List.map shot_of model_reqs in
      let var = gen_ooa_calls in   (* the cancel functions the source calls in the out-of-ammo branch *)
      let show err l = String.concat " " (("err=" ^ err) :: ("served=" ^ served) :: Printf.sprintf "n=%d" (List.length l) :: List.sort compare (List.map line l)) in
      let pred = if slow_run_over var shots then show "nil" (slow_run_lines var shots) else "err=hang" in
      (* specification: the pool ends without error; ids pairwise distinct; as many lines as requests the target has
         received; every line is the sample of one of them (the ammo's tag or __EMPTY__, the status the target answered,
         net 0 / 999 for a body that ends early), each request having its own line *)
      let v =
        if err <> "nil" then "BAD:the pool run failed"
        else if foreign then "BAD:the target received a request that is no entry of the file"
        else if not ids_ok then "BAD:ids of the lines are not pairwise distinct"
        else if List.length ids <> total then
          Printf.sprintf "BAD:the results do not hold exactly one line per fired request (n=%d lines of %d)" (List.length ids) total
        else verdict (all_matched && none_left) "a line is not the sample of a request the target received (tag, proto code, net code)" in
      (pred, v, total >= 2)
  | _ -> ("err=nil", "BAD:" ^ obs, true)

(* ---- ammo-file cases (harness/cmd/hC10/ammo.go): from the bytes of the file to the samples ---- *)

let str_of (b : n list) : string = String.concat "" (List.map (fun x -> String.make 1 (Char.chr (int_of_n x land 255))) b)
let bytes_of_str (s : string) : n list = List.init (String.length s) (fun i -> n_of_int (Char.code s.[i]))

(* net/url.Parse + http.NewRequest restricted to the URIs the generator writes ("/path[?query]",
   for http/json "http://host/path[?query]"): accepted, String() = the text, Host = the authority.
   Assumed, not modelled (C07 asks the real parser; here the URIs are kept simple instead). *)
let no_scheme s = if starts "http://" s then Some (after_prefix "http://" s) else None
let simple_url (u : n list) : (n list * n list) option =
  let s = str_of u in
  match no_scheme s with
  | Some r -> Some (u, bytes_of_str (fst (cut '/' r)))
  | None -> Some (u, [])
(* req.URL.Path *)
let path_of_url (s : string) : string =
  let s = (match no_scheme s with
           | Some r -> (match String.index_opt r '/' with Some i -> String.sub r i (String.length r - i) | None -> "")
           | None -> s) in
  fst (cut '?' s)

let status_of_value (v : string) : n = if starts "ok:" v then n_of_string (after_prefix "ok:" v) else n_of_int 200
let status_of_headers (h : (n list * n list) list) : n =
  match List.filter (fun (k, _) -> str_of k = "X-Verif") h with
  | (_, v) :: _ -> status_of_value (str_of v)
  | [] -> n_of_int 200
(* raw ammo: request line "METHOD target HTTP/1.1", header line "X-Verif: ok:<status>" *)
let raw_lines (b : n list) = String.split_on_char '\n' (str_of b)
let raw_path (b : n list) : string =
  match raw_lines b with
  | l :: _ -> (match String.split_on_char ' ' l with _ :: t :: _ -> path_of_url t | _ -> "")
  | [] -> ""
let raw_status (b : n list) : n =
  let p = "X-Verif: " in
  match List.filter (starts p) (raw_lines b) with
  | l :: _ -> status_of_value (String.trim (after_prefix p l))
  | [] -> n_of_int 200

let colon s = String.split_on_char ':' s
let hx = bytes_of_hex
type tok =
  | TH of n list * n list * (n list * n list * bool) * (n list * n list * n list * n list)
  | TR of n list * n list * (n list * n list * bool) * n list
  | TB of (n list * n list * bool)
let parse_tok (t : string) : tok =
  match colon t with
  | ["H"; k; v; l; tr; cr; kl; kt; vl; vt] -> TH (hx k, hx v, (hx l, hx tr, cr = "1"), (hx kl, hx kt, hx vl, hx vt))
  | ["R"; a; b; l; tr; cr; body] -> TR (hx a, hx b, (hx l, hx tr, cr = "1"), hx body)
  | ["B"; _; _; l; tr; cr] -> TB (hx l, hx tr, cr = "1")
  | _ -> failwith ("bad token " ^ t)
let lay_of (l, t, cr) = { l_lead = l; l_trail = t; l_cr = cr }
let parse_entity (t : string) : entity =
  match colon t with
  | ["E"; host; m; uri; tag; body; hs] ->
      let hl = if hs = "-" then [] else
        List.map (fun kv -> match String.split_on_char '=' kv with
                            | [k; v] -> (hx k, hx v) | _ -> failwith "bad header") (String.split_on_char ';' hs) in
      { j_host = hx host; j_method = hx m; j_uri = hx uri; j_headers = hl; j_tag = hx tag; j_body = hx body }
  | _ -> failwith ("bad entity " ^ t)

(* a line of an http/json file: J:<member>,... (h. m. u. t. b. = host method uri tag body, H.k=v;... headers,
   o.<key> a member that stores nothing); an E: token = all six members written *)
let parse_jline (t : string) : jmember list =
  if starts "E:" t then
    let e = parse_entity t in
    [MHost e.j_host; MMethod e.j_method; MUri e.j_uri; MHeaders e.j_headers; MTag e.j_tag; MBody e.j_body]
  else if starts "J:" t then
    let body = after_prefix "J:" t in
    if body = "" then [] else
    List.map (fun m ->
      let (k, v) = cut '.' m in
      match k with
      | "h" -> MHost (hx v) | "m" -> MMethod (hx v) | "u" -> MUri (hx v) | "t" -> MTag (hx v) | "b" -> MBody (hx v)
      | "o" -> MIgnored (hx v)
      | "H" -> MHeaders (if v = "-" then [] else
                 List.map (fun kv -> match String.split_on_char '=' kv with
                                     | [k; v] -> (hx k, hx v) | _ -> failwith "bad header") (String.split_on_char ';' v))
      | _ -> failwith ("bad member " ^ m)) (String.split_on_char ',' body)
  else failwith ("bad line token " ^ t)

let rec delivered = function SDeliver _ :: r -> 1 + delivered r | _ -> 0
let field_of (p : string) (obs : string) : string =
  List.fold_left (fun acc w -> if starts p w then after_prefix p w else acc) "" (split_blank obs)

let predict_ammo fmt en depth nto k fin file toks obs =
  let cfg = { at_enabled = bool_of_field en; at_depth = nat_of_int (int_of_string depth); at_notagonly = bool_of_field nto } in
  (* "<k>" or "<k>x<g>": k acquisitions by g concurrently shooting instances *)
  let (kf, gf) = cut 'x' k in
  let ki = int_of_string kf in
  let conc = gf <> "" && int_of_string gf > 1 in
  let kn = nat_of_int ki in
  let fileb = bytes_of_hex file and fin = bool_of_field fin in
  let one = n_of_int 1 in
  let e_path (e : entry) = bytes_of_str (path_of_url (str_of e.e_url)) in
  let e_x _ (e : entry) = XResp (status_of_headers e.e_headers, BodyOk) in
  let e_tag (e : entry) = e.e_tag in
  let entries decode ents = (* code-shaped side, specification side *)
    let ds = decode () in
    (shoot_deliveries cfg e_tag e_path e_x O one ds, delivered ds,
     ammo_spec cfg e_tag e_path e_x O one (cycle_take kn ents ents)) in
  let res =
    match fmt with
    | "uri" ->
        let items = List.map (function
          | TH (k, v, l, (kl, kt, vl, vt)) -> (UHeader (kl, k, kt, vl, v, vt), lay_of l)
          | TR (u, t, l, _) -> (UReq (u, t), lay_of l)
          | TB l -> (UBlank, lay_of l)) (List.map parse_tok toks) in
        if render_uri items fin <> fileb then None
        else let (a, d, b) = entries (fun () -> uri_decode simple_url max_token cfg0 kn fileb) (uri_entries (List.map fst items) []) in
          Some (a, d, b, List.for_all (wf_uitem simple_url max_token) items)
    | "uripost" ->
        let items = List.map (function
          | TH (k, v, l, (kl, kt, vl, vt)) -> (PHeader (kl, k, kt, vl, v, vt), lay_of l)
          | TR (u, t, l, b) -> (PReq (u, t, b), lay_of l)
          | TB l -> (PBlank, lay_of l)) (List.map parse_tok toks) in
        if render_uripost items fin <> fileb then None
        else let (a, d, b) = entries (fun () -> uripost_decode simple_url cfg0 kn fileb) (uripost_entries (List.map fst items) []) in
          Some (a, d, b, List.for_all (wf_pitem simple_url) items)
    | "raw" ->
        let items = List.map (function
          | TR (_, t, l, b) -> (RReq (t, b), lay_of l)
          | TB l -> (RBlank, lay_of l)
          | TH _ -> failwith "header line in raw case") (List.map parse_tok toks) in
        if render_raw items fin <> fileb then None
        else begin
          let r_tag (e : rentry) = e.rb_tag and r_path (e : rentry) = bytes_of_str (raw_path e.rb_buf)
          and r_x _ (e : rentry) = XResp (raw_status e.rb_buf, BodyOk) in
          let ds = raw_decode cfg0 kn fileb in
          let ents = raw_entries (List.map fst items) in
          Some (shoot_deliveries cfg r_tag r_path r_x O one ds, delivered ds,
                ammo_spec cfg r_tag r_path r_x O one (cycle_take kn ents ents), List.for_all wf_ritem items)
        end
    | "json" ->
        (* the JSON text is an oracle (encoding/json): the model starts from the members the tokens say are
           written on each line (Model/ShootJsonLine.v); code-shaped side: every line decoded into the target the source
           declares (fresh per line), then the stream decoder and Shoot; specification side: the same entries carrying the tag
           WRITTEN on their own line (line_tag: last tag member, none -> no tag) *)
        let ls = List.map parse_jline toks in
        let ents = scan_entities gen_jsonline_target ls in   (* the target as translate jsontarget re-reads it *)
        (match read_array simple_url ents with
         | None -> None
         | Some es ->
             let es_spec = List.map2 (fun (e : entry) l -> { e with e_tag = line_tag l }) es ls in
             let (a, d, b) = entries (fun () -> json_stream_decode simple_url cfg0 kn ents JEof) es_spec in
             Some (a, d, b, true))
    | "jsona" ->
        (* the same members as the elements of one JSON array: readArray decodes them into the elements of a new
           slice (each a zero entity before its members are stored), scanAmmos replays them by index *)
        let ls = List.map parse_jline toks in
        let ents = lines_entities ls in
        (match read_array simple_url ents, json_array_decode simple_url cfg0 kn ents with
         | Some es, Some ds ->
             let es_spec = List.map2 (fun (e : entry) l -> { e with e_tag = line_tag l }) es ls in
             Some (shoot_deliveries cfg e_tag e_path e_x O one ds, delivered ds,
                   ammo_spec cfg e_tag e_path e_x O one (cycle_take kn es_spec es_spec), true)
         | _ -> None)
    | _ -> None in
  match res with
  | None -> ("render-mismatch", "BAD:render-mismatch", false)
  | Some (model, ndel, spec, wf) ->
      let ids_of (l : sample list) = if l = [] then "-" else String.concat "," (List.map (fun (s : sample) -> string_of_n s.sm_id) l) in
      (* concurrent instances: the order of the samples is the scheduler's (C10_ammo_concurrent_instances):
         both sides are printed sorted, like the observation *)
      let canon (l : sample list) = if conc then List.stable_sort (fun a b -> compare (s_sample a) (s_sample b)) l else l in
      let ids_of l = if conc then ids_of (List.sort (fun (a : sample) (b : sample) -> compare (int_of_n a.sm_id) (int_of_n b.sm_id)) l) else ids_of l in
      let line l ids fin = Printf.sprintf "%s ids=%s end=%s" (s_samples (canon l)) ids fin in
      let pred = line model (ids_of model) (if ndel >= ki then "more" else "stopped") in
      (* specification: one sample per ammo of the file (cyclically), each with the tag chosen from
         the tag written on ITS line, the status its exchange received; ids pairwise distinct *)
      let obs_ids = field_of "ids=" obs in
      let idl = if obs_ids = "-" then [] else String.split_on_char ',' obs_ids in
      let ids_ok = List.length idl = ki && List.length (List.sort_uniq compare idl) = ki in
      let want = line spec obs_ids "more" in
      let v = if obs <> want then "BAD:expected " ^ line spec (ids_of spec) "more"
              else if not ids_ok then "BAD:ids of the samples are not pairwise distinct"
              else "ok" in
      (pred, v, wf && List.length spec >= 3)

let predict (c : string) (obs : string) : string * string * bool =
  match split_blank c with
  | "ammo" :: fmt :: en :: depth :: nto :: k :: fin :: file :: toks ->
      predict_ammo fmt en depth nto k fin file toks obs
  | ["http"; gun; fault; status; en; depth; nto; tag; path]
  | ["http"; gun; fault; status; en; depth; nto; tag; path; _] ->
      (* the optional last field switches tracing / dumps / answer log on: no effect on samples *)
      predict_http gun fault status en depth nto tag path obs
  | ["cfggun"; kind; variant; tag; path] ->
      (* the auto-tag settings as documented (docs/eng/http-generator.md: disabled, uri-elements 2,
         no-tag-only true - for every http gun kind) overlaid by the keys the section gives *)
      let cfg = (match variant with
                 | "en" | "en-nto1" -> { at_enabled = true; at_depth = nat_of_int 2; at_notagonly = true }
                 | "en-nto0" -> { at_enabled = true; at_depth = nat_of_int 2; at_notagonly = false }
                 | "en-d1" -> { at_enabled = true; at_depth = nat_of_int 1; at_notagonly = true }
                 | _ -> { at_enabled = false; at_depth = nat_of_int 2; at_notagonly = true }) in
      let tagb = bytes_of_hex tag and pathb = bytes_of_hex path in
      let str s = List.init (String.length s) (fun i -> n_of_int (Char.code s.[i])) in
      (match kind with
       | "http" | "http2" | "connect" ->
           let x = XResp (n_of_int 200, BodyOk) in
           let want = s_samples [base_spec cfg false (n_of_int 7) tagb pathb x] in
           (s_trace (base_shoot_ev cfg HNone false (n_of_int 7) tagb pathb x), verdict (obs = want) ("expected " ^ want), true)
       | "http/scenario" | "http2/scenario" ->
           let st = [(str "first", HStepOk (n_of_int 200)); (str "second", HStepOk (n_of_int 404))] in
           let want = s_samples (hscen_spec tagb st) in
           (s_trace (hscen_ev tagb st), verdict (obs = want) ("expected " ^ want), true)
       | "grpc" ->
           let want = s_samples [{ sm_tags = tagb; sm_proto = doc_code (n_of_int 0); sm_net = n_of_int 0; sm_id = n_of_int 0 }] in
           (s_trace (grpc_ev tagb (GCalled (n_of_int 0))), verdict (obs = want) ("expected " ^ want), true)
       | "grpc/scenario" ->
           let st = [(str "call0", GSCalled (n_of_int 0, false)); (str "call1", GSCalled (n_of_int 5, false))] in
           let want = s_samples (gscen_spec tagb st) in
           (s_trace (gscen_ev tagb st), verdict (obs = want) ("expected " ^ want), true)
       | _ -> ("unknown-case", "BAD:unknown-case", false))
  | ["gjson"; phases] ->
      (* every sample carries the tag of ITS ammo line ("" when the line has no tag key) *)
      let idx = ref 0 in
      let tags = List.concat_map (fun ph ->
                   let (what, cnt) = cut '*' ph in
                   List.init (int_of_string cnt) (fun _ -> incr idx;
                     if what = "t" then Printf.sprintf "tg%d" (!idx mod 7) else "")) (String.split_on_char ',' phases) in
      let str s = List.init (String.length s) (fun i -> n_of_int (Char.code s.[i])) in
      let line f = String.concat " " (Printf.sprintf "n=%d" (List.length tags) :: List.map f tags) in
      let pred = line (fun t -> match grpc_shoot (str t) (GCalled (n_of_int 0)) with [s] -> hex_of_bytes s.sm_tags | _ -> "?") in
      let want = line (fun t -> hex_of_bytes (str t)) in
      (pred, verdict (obs = want) "a sample does not carry the tag of its own ammo line", true)
  | ["phout"; phases] ->
      (* one sample per request, each depending on its own exchange only: the samples are values *)
      let cfg = { at_enabled = false; at_depth = nat_of_int 2; at_notagonly = true } in
      let one what =
        let fault = (let rec strip s = if s <> "" && s.[String.length s - 1] >= '0' && s.[String.length s - 1] <= '9'
                                       then strip (String.sub s 0 (String.length s - 1)) else s in strip what) in
        let status = (let st = after_prefix fault what in if st = "" then "200" else st) in
        let st = n_of_string status in
        let err n = (false, if n = 999 then EOther else EOp (ESys (EErrno (n_of_int n)))) in
        let x = (match fault, os_errno fault with
                 | "trunc", Some n -> let (t, e) = err n in XResp (st, BodyErr (t, e))
                 | _, Some n -> let (t, e) = err n in XErr (t, e)
                 | _, None -> XResp (st, BodyOk)) in
        (base_shoot cfg HNone false (n_of_int 0) [] [] x, base_spec cfg false (n_of_int 0) [] [] x) in
      let reqs = List.concat_map (fun ph -> let (what, cnt) = cut '*' ph in List.init (int_of_string cnt) (fun _ -> one what))
                   (String.split_on_char ',' phases) in
      let codes (s : sample) = Printf.sprintf "%s:%s" (string_of_n s.sm_proto) (string_of_n s.sm_net) in
      let line l = String.concat " " (Printf.sprintf "n=%d" (List.length l) :: l) in
      let pred = line (List.concat_map (fun (m, _) -> List.map codes m) reqs) in
      let want = line (List.map (fun (_, s) -> codes s) reqs) in
      (pred, verdict (obs = want) "a written phout line does not carry the codes of its own request", true)
  | ["hscen"; name; steps] | ["hscen"; name; steps; _] ->
      (* the optional last field: tracing, dumps, answer log, log level, request bodies, waiting times - no effect on samples *)
      let st = decl_steps_of ~http:true hstep_of steps and nm = bytes_of_hex name in
      let want = s_samples (hscen_decl_spec nm st) in
      (s_trace (hscen_ev_decl nm st), verdict (obs = want) ("expected " ^ want), List.length st > 1)
  | ["gscen"; name; steps] | ["gscen"; name; steps; _] ->
      let st = decl_steps_of ~http:false gstep_of steps and nm = bytes_of_hex name in
      let want = s_samples (gscen_decl_spec nm st) in
      (s_trace (gscen_ev_decl nm st), verdict (obs = want) ("expected " ^ want), List.length st > 1)
  | ["scfile"; fmt; k; decls; scens] -> predict_scfile fmt k decls scens obs
  | ["phoutq"; cap; kinds; per] -> predict_phoutq cap kinds per obs
  | ["engine"; gun; _; _; _; _; _; entries] -> predict_engine gun entries obs
  | ["gshoot"; tag; kind] | ["gshoot"; tag; kind; _] ->
      let call = (if kind = "unknown" then GUnknown else if kind = "badpayload" then GBadPayload
                  else GCalled (n_of_string (after_prefix "st" kind))) in
      let tg = bytes_of_hex tag in
      (* specification: one sample, the ammo's tag, the documented code of the call status *)
      let code = (match call with GUnknown -> n_of_int 0 | GBadPayload -> n_of_int 400 | GCalled s -> doc_code s) in
      let want = s_samples [{ sm_tags = tg; sm_proto = code; sm_net = n_of_int 0; sm_id = n_of_int 0 }] in
      (s_trace (grpc_ev tg call), verdict (obs = want) ("expected " ^ want), true)
  | ["grpc"; code] ->
      let c = n_of_string code in
      let a = string_of_n (grpc_code c) and d = string_of_n (doc_code c) in
      (a, verdict (obs = d) ("documented code is " ^ d), true)
  | ["shoot"; en; depth; nto; tag; path] ->
      let cfg = { at_enabled = bool_of_field en; at_depth = nat_of_int (int_of_string depth); at_notagonly = bool_of_field nto } in
      let tagb = bytes_of_hex tag and pathb = bytes_of_hex path in
      let tags = shoot_tags cfg tagb pathb in
      let want = hex_of_bytes (spec_tags cfg tagb pathb) ^ " 204 7 late=0" in
      (* one sample, carrying the received status (204 from the scripted client) and the ammo id *)
      (hex_of_bytes tags ^ " 204 7 late=0", verdict (obs = want) ("expected " ^ want), cfg.at_enabled && List.length pathb > 1)
  | ["errno"; t; shape] ->
      let e = shape_of_tokens (String.split_on_char '.' shape) in
      let p = string_of_n (get_errno (bool_of_field t) e) in
      (p, verdict (obs = p && obs <> "0") "errno", String.length shape > 3)
  | ["ids"; _; g; per] ->
      let n = int_of_string g * int_of_string per in
      let p =
        if n = 0 then "0 1 0 0"
        else begin
          let ids = ids_from (n_of_int 1) (nat_of_int n) in
          let sorted = List.sort compare (List.map int_of_n ids) in
          let rec distinct = function a :: (b :: _ as r) -> a <> b && distinct r | _ -> true in
          Printf.sprintf "%d %s %d %d" (List.length ids) (field_of_bool (distinct sorted)) (List.hd sorted) (List.nth sorted (n - 1))
        end in
      (* the property: ids pairwise distinct (second field) and one id per acquisition (first field) *)
      let ok = (match split_blank obs with [cnt; d; _; _] -> d = "1" && cnt = string_of_int n | _ -> false) in
      (p, verdict ok "ids not unique", int_of_string g > 1 && n > 1)
  | _ -> ("unknown-case", "BAD:unknown-case", false)

let () = run_cases predict
