open Model
open Conv

let z_list_of_csv (s : string) : z list = List.map z_of_string (String.split_on_char ',' s)

let hex_of_outcome (o : bytes outcome) : string =
  match o with Ok b -> hex_of_bytes b | Panic -> "panic"

let norm withid (s : psample) : psample = if withid then s else { s with ps_id = N0 }

let sample_eq (a : psample) (b : psample) : bool =
  a.ps_ms = b.ps_ms && a.ps_tag = b.ps_tag && a.ps_id = b.ps_id && a.ps_fields = b.ps_fields

let zdiv1000 (ns : string) : z = z_of_zt (Z.div (Z.of_string ns) (Z.of_int 1000))

let predict (c : string) (obs : string) : string * string * bool =
  match split_blank c with
  | ["line"; wid; ns; tag; id; fs] ->
      let withid = bool_of_field wid in
      let s = { ps_ms = ms_of_ns (z_of_string ns); ps_tag = bytes_of_hex tag; ps_id = n_of_string id; ps_fields = z_list_of_csv fs } in
      let p = hex_of_outcome (render_phout withid s) in
      if sample_ok s then begin
        (* the specification: the implementation's line is a well-formed phout line denoting the reported sample *)
        let ok = obs <> "panic" &&
                 (match parse_phout withid (bytes_of_hex obs) with Some s' -> sample_eq s' (norm withid s) | None -> false) in
        (p, verdict ok "line does not parse back to the reported sample", true)
      end else (p, "ok", false)
  | "setters" :: ns :: tag :: id :: vals when List.length vals = 9 ->
      let v = Array.of_list vals in
      let named = { n_interval_real = zdiv1000 v.(0); n_connect_time = zdiv1000 v.(1); n_send_time = zdiv1000 v.(2);
                    n_latency = zdiv1000 v.(3); n_receive_time = zdiv1000 v.(4); n_interval_event = Z0;
                    n_size_out = z_of_string v.(5); n_size_in = z_of_string v.(6); n_net_code = z_of_string v.(7);
                    n_proto_code = z_of_string v.(8) } in
      let s = { ps_ms = ms_of_ns (z_of_string ns); ps_tag = bytes_of_hex tag; ps_id = n_of_string id; ps_fields = fields_array named } in
      let p = hex_of_outcome (render_phout true s) in
      let want = { s with ps_fields = documented_columns named } in
      if sample_ok want then begin
        let ok = obs <> "panic" &&
                 (match parse_phout true (bytes_of_hex obs) with Some s' -> sample_eq s' want | None -> false) in
        (p, verdict ok "columns are not in the documented order", true)
      end else (p, "ok", false)
  | _ -> ("unknown-case", "BAD:unknown-case", false)

let () = run_cases predict
