open Model
open Conv

let z_list_of_csv (s : string) : z list = List.map z_of_string (String.split_on_char ',' s)

let hex_of_outcome (o : bytes outcome) : string =
  match o with Ok b -> hex_of_bytes b | Panic -> "panic"

let norm withid (s : psample) : psample = if withid then s else { s with ps_id = N0 }

let sample_eq (a : psample) (b : psample) : bool =
  a.ps_ms = b.ps_ms && a.ps_tag = b.ps_tag && a.ps_id = b.ps_id && a.ps_fields = b.ps_fields

let zdiv1000 (ns : string) : z = z_of_zt (ZT.div (ZT.of_string ns) (ZT.of_int 1000))

(* ---- aggr cases: samples are a fixed function of their id (same function as harness/cmd/hC06/aggr.go) ---- *)
let id_shift = 20
let bytes_of_string (s : string) : n list = List.init (String.length s) (fun i -> n_of_int (Char.code s.[i]))

let sample_of_id (id : int) : psample =
  let ns = 1600000000000000000 + id * 1000003 in
  { ps_ms = ms_of_ns (z_of_int ns);
    ps_tag = bytes_of_string ("t" ^ string_of_int (id lsr id_shift));
    ps_id = n_of_int id;
    ps_fields = List.init 10 (fun k -> if k = 7 then z_of_int id else z_of_int ((id * (k + 1)) mod 1009 - 100)) }

let owner (i : n) : n = n_of_int ((int_of_n i) lsr id_shift)

let ids_of_csv (s : string) : int list =
  if s = "-" || s = "" then [] else List.map int_of_string (String.split_on_char ',' s)

let csv_of_ids (l : int list) : string = if l = [] then "-" else String.concat "," (List.map string_of_int l)

let field_after (prefix : string) (tok : string) : string option =
  let n = String.length prefix in
  if String.length tok >= n && String.sub tok 0 n = prefix then Some (String.sub tok n (String.length tok - n)) else None

(* the ids of the lines of an observed payload; None = some line is malformed / not a reported sample.
   [cut]: the part of the destination's bytes that belongs to this run (Model/Destination.v this_run:
   everything for a file, what follows the earlier content for a stream); None = the earlier content
   of the stream is no longer there. *)
let lines_of_payload ?(cut : (n list -> n list option) = (fun b -> Some b)) (withid : bool) (payload : string) : int list option =
  if String.length payload >= 4 && String.sub payload 0 4 = "hex:" then begin
    let data = bytes_of_hex (String.sub payload 4 (String.length payload - 4)) in
    match (match cut data with Some mine -> parse_file withid mine | None -> None) with
    | None -> None
    | Some ss ->
        let ok = ref true in
        let ids = List.map (fun (s : psample) ->
          let id = (match List.nth_opt s.ps_fields 7 with Some v -> (try int_of_z v with _ -> -1) | None -> -1) in
          if id < 0 || not (sample_eq s (norm withid (sample_of_id id))) then ok := false;
          id) ss in
        if !ok then Some ids else None
  end else if String.length payload >= 4 && String.sub payload 0 4 = "ids:" then begin
    match String.split_on_char ';' (String.sub payload 4 (String.length payload - 4)) with
    | [ids; "bad=0"] -> Some (if ids = "" then [] else ids_of_csv ids)
    | _ -> None
  end else None

(* Receives as late as possible: a Handle only when the queue is full and the next Report must be
   accepted (blocking kind: always). The model's buffer and sink are lists, so a Flush of the whole
   buffer is inserted every 64 Handles to keep the replay linear (flushes never change the outcome:
   C06_queue_complete holds for every placement of them). *)
let rec run_lazy enc kind q (st : int st) (accepted : int -> bool) (handled : int) (order : int list) : int st option =
  match order with
  | [] -> Some st
  | id :: rest ->
      let full = List.length st.queue >= q in
      let do_handle = full && (kind = Blocking || accepted id) in
      let st1 = if do_handle then step enc kind (nat_of_int q) st Handle else Some st in
      let st1 = (match st1 with
                 | Some s when do_handle && handled mod 64 = 63 -> step enc kind (nat_of_int q) s (Flush (nat_of_int (List.length s.buf)))
                 | x -> x) in
      (match st1 with
       | None -> None
       | Some st1 ->
           (match step enc kind (nat_of_int q) st1 (Report (owner (n_of_int id), id)) with
            | None -> None
            | Some st2 -> run_lazy enc kind q st2 accepted (if do_handle then handled + 1 else handled) rest))

(* json payload "ids:<csv>;bad=<n>" -> ids, bad *)
let lines_of_json_prefix (payload : string) : (int list * int) option =
  if String.length payload >= 4 && String.sub payload 0 4 = "ids:" then
    (match String.split_on_char ';' (String.sub payload 4 (String.length payload - 4)) with
     | [ids; b] when String.length b > 4 && String.sub b 0 4 = "bad=" ->
         Some ((if ids = "" then [] else ids_of_csv ids), int_of_string (String.sub b 4 (String.length b - 4)))
     | _ -> None)
  else None

let aggr_case ?(dest = "file") ?(old = "x-") ?(fail = -1) ?(bufsize = 0) fmt q g per mode delay obs : string * string * bool =
  (* the destination: a file the aggregator creates, or a stream (stdout / stderr) holding [oldb] *)
  let d = (match fmt, dest with
           | ("phout" | "phoutid"), "stdout" -> phout_dest []
           | ("phout" | "phoutid"), _ -> phout_dest (bytes_of_string "out")
           | _, "stdout" -> sink_dest SinkStdout
           | _, "stderr" -> sink_dest SinkStderr
           | _, "buffer" -> sink_dest SinkBuffer
           | _, _ -> sink_dest (SinkFile (bytes_of_string "out"))) in
  let oldb = if dest <> "file" && String.length old >= 1 && old.[0] = 'x'
             then bytes_of_hex (String.sub old 1 (String.length old - 1)) else [] in
  let kind = if fmt = "phout" || fmt = "phoutid" || fmt = "log" then Blocking else Dropping in
  let withid = (fmt <> "phout") in
  let enc (id : int) : n list option =
    if fmt = "json" then Some (bytes_of_string (string_of_int id ^ "\n"))
    else (match render_phout withid (sample_of_id id) with Ok l -> Some (l @ [n_of_int 10]) | Panic -> None) in
  let reports = List.init g (fun i -> List.init per (fun j -> n_of_int ((i lsl id_shift) lor j))) in
  let total = g * per in
  let (oerr, oorder, opayload, ohead) =
    (match split_blank obs with
     | [e; o; p] -> (e, o, p, None)
     | [e; o; p; h] -> (e, o, p, field_after "head:" h)
     | e :: _ -> (e, "-", "", None)
     | [] -> ("", "-", "", None)) in
  (* json on a stream: the harness cut the bytes at |old|; the head must be the earlier content *)
  let head_ok = (match ohead with
                 | None -> fmt <> "json" || d = DFile
                 | Some h -> this_run d oldb (bytes_of_hex h) = Some []) in
  let olines = if head_ok then lines_of_payload ~cut:(this_run d oldb) withid opayload else None in
  (* specification on the observation *)
  let drops_err =
    if oerr = "nil" then Some (0, None)
    else if String.length oerr > 8 && String.sub oerr 0 8 = "dropped:" then
      (let d = int_of_string (String.sub oerr 8 (String.length oerr - 8)) in Some (d, Some (n_of_int d)))
    else None in
  let v =
    (match drops_err, olines with
     | None, _ -> "BAD:run-ended-with-" ^ oerr
     | _, None when not head_ok -> "BAD:earlier-content-of-the-stream-damaged"
     | _, None -> "BAD:malformed-or-foreign-line"
     | Some (d, e), Some ls ->
         if complete_b kind owner reports (List.map n_of_int ls) (n_of_int d) e then "ok"
         else Printf.sprintf "BAD:incomplete lines=%d dropped=%d reports=%d" (List.length ls) d total) in
  (* prediction of the model *)
  let render_pred (st : int st) (order : int list) : string =
    let err = (match run_error st with None -> "nil" | Some d -> "dropped:" ^ string_of_n d) in
    let payload = if fmt = "json" then "ids:" ^ String.concat "," (List.map string_of_int st.acc_log) ^ ";bad=0"
                  else "hex:" ^ hex_of_bytes (opened d oldb @ st.sink) in
    err ^ " " ^ csv_of_ids order ^ " " ^ payload
    ^ (if fmt = "json" && d = DStream then " head:" ^ hex_of_bytes (opened d oldb) else "") in
  let finish (st : int st) : int st option =
    (match step enc kind (nat_of_int q) st Cancel with
     | None -> None
     | Some st1 -> run enc kind (nat_of_int q) st1 (finish_history st1)) in
  let pred =
    if mode = "free" then (if v = "ok" then obs else "nondeterministic-order")
    else begin
      let order = if mode = "pre" then List.concat (List.init per (fun j -> List.init g (fun i -> (i lsl id_shift) lor j)))
                  else ids_of_csv oorder in
      let accepted = (match olines with
                      | Some ls -> let h = Hashtbl.create 1024 in List.iter (fun i -> Hashtbl.replace h i ()) ls; (fun id -> Hashtbl.mem h id)
                      | None -> (fun _ -> true)) in
      let st0 = if mode = "pre" then run enc kind (nat_of_int q) init (List.map (fun id -> Report (owner (n_of_int id), id)) order)
                else run_lazy enc kind q init accepted 0 order in
      (match st0 with
       | None -> "model:history-not-enabled"
       | Some st0 ->
           (match finish st0 with
            | None -> "model:cannot-finish"
            | Some st -> if st.ph = Done && st.closed && st.buf = [] && st.queue = [] then render_pred st order else "model:not-done"))
    end in
  ignore delay;
  if dest = "ro" then begin
    (* a destination that cannot be opened: building / running the aggregator fails, nothing is written *)
    let empty = (opayload = "-" || opayload = "hex:-" || opayload = "ids:;bad=0") in
    ((if oerr = "openerr" && empty then obs else "openerr"),
     (if oerr = "openerr" && empty then "ok" else "BAD:unopenable-destination-not-reported err=" ^ oerr), true)
  end else if fail >= 0 && mode = "pre" then begin
    (* the destination accepts [fail] bytes, then fails every write (Model/Destination.v failing) *)
    let order = List.concat (List.init per (fun j -> List.init g (fun i -> (i lsl id_shift) lor j))) in
    match (match run enc kind (nat_of_int q) init (List.map (fun id -> Report (owner (n_of_int id), id)) order) with
           | Some st0 -> finish st0 | None -> None) with
    | None -> ("model:cannot-finish", "BAD:model", false)
    | Some st ->
        (* When must Run end with the write error? The property does not speak about failing destinations;
           the check asks for the error only where the failing write certainly happened while a sample was
           handled: the harness' tab encoders (every flush error is returned), and phout when more bytes
           than one write buffer (BufferSizeOrDefault: at least 4 kB) lie beyond the failure point - what
           only the final, deferred flush hits is not required to be reported. *)
        let must_report_bytes (len_e : int) =
          (fmt = "tab" || fmt = "tabc")
          || (kind = Blocking && bufsize <> 0 && len_e > fail + max bufsize 4096) in
        if fmt = "json" then begin
          (* the model's json encoding is a stand-in: judge the ids of the complete lines *)
          let acc = List.map n_of_int st.acc_log in
          (match lines_of_json_prefix opayload with
           | None -> (pred, v, total >= 2)
           | Some (ids, bad) ->
               if List.length ids = List.length acc && bad = 0 then (pred, v, total >= 2)   (* the failure was never reached *)
               else
                 let okp = prefix_b (List.map n_of_int ids) acc && bad <= 1 in
                 let v' = if not okp then "BAD:failing-destination-holds-more-than-a-prefix"
                          else if oerr = "ioerr" || oerr = "nil" || field_after "dropped:" oerr <> None then "ok"
                          else "BAD:failing-destination-run-ended-with-" ^ oerr in
                 ((if v' = "ok" then obs else "ioerr"), v', true))
        end else begin
          let e = st.sink in
          if List.length e <= fail then (pred, v, total >= 2)
          else
            let want = failing (nat_of_int fail) e in
            let got = if String.length opayload >= 4 && String.sub opayload 0 4 = "hex:"
                      then Some (bytes_of_hex (String.sub opayload 4 (String.length opayload - 4))) else None in
            let v' = if got <> Some want then "BAD:failing-destination-content"
                     else if oerr = "ioerr" || (oerr = "nil" && not (must_report_bytes (List.length e))) then "ok"
                     else "BAD:write-failure-not-reported err=" ^ oerr in
            ((if v' = "ok" then obs else "ioerr " ^ csv_of_ids order ^ " hex:" ^ hex_of_bytes want), v', true)
        end
  end else
  (pred, v, total >= 2)

(* ---- engine cases ---- *)

let engine_case fmt instances ammo ramp obs : string * string * bool =
  let kind = if fmt = "json" then Dropping else Blocking in
  let withid = (fmt <> "phout") in
  match split_blank obs with
  | [engerr; late; counts; aggerr; _; payload] ->
      let late_n = (match field_after "late=" late with Some x -> int_of_string x | None -> -1) in
      let cs = (match field_after "counts=" counts with Some x -> ids_of_csv x | None -> []) in
      let reports = List.mapi (fun i c -> List.init c (fun j -> n_of_int ((i lsl id_shift) lor j))) cs in
      let olines = lines_of_payload withid payload in
      let drops_err =
        if aggerr = "nil" then Some (0, None)
        else (match field_after "dropped:" aggerr with Some d -> Some (int_of_string d, Some (n_of_int (int_of_string d))) | None -> None) in
      let v =
        if engerr <> "nil" then "BAD:engine-run-error"
        else if late_n <> 0 then Printf.sprintf "BAD:report-after-aggregator-cancel late=%d" late_n
        else if (if ramp then List.length cs < instances else List.length cs <> instances) || List.fold_left (+) 0 cs <> ammo then "BAD:shots-differ-from-ammo"
        else (match drops_err, olines with
              | None, _ -> "BAD:aggregator-ended-with-" ^ aggerr
              | _, None -> "BAD:malformed-or-foreign-line"
              | Some (d, e), Some ls ->
                  if complete_b kind owner reports (List.map n_of_int ls) (n_of_int d) e then "ok"
                  else Printf.sprintf "BAD:incomplete lines=%d dropped=%d reports=%d" (List.length ls) d ammo) in
      (* the pool model on the observed shot counts: launches, reports, finishes, awaits; no external cancel *)
      let started = List.length cs in
      let h = List.init started (fun _ -> PLaunch) @ [PStartSent; PAwaitStart]
              @ List.concat (List.mapi (fun i c -> List.init c (fun _ -> PReport (nat_of_int i)) @ [PInstFinish (nat_of_int i); PAwaitRun]) cs) in
      let pred =
        (match prun false pool_init h with
         | Some p when p.run_cancelled || started = 0 ->
             Printf.sprintf "nil late=%d %s nil - %s" (int_of_nat p.late) counts payload
         | Some _ -> "model:aggregator-never-cancelled"
         | None -> "model:history-not-enabled") in
      (pred, v, ammo >= 2)
  | _ -> ("model:no-prediction", "BAD:engine-run-" ^ (String.concat "_" (split_blank obs)), false)

(* ---- signal cases ---- *)
let signal_case (orderly_exit : string) (h : cev list) (reason : exit_reason) obs : string * string * bool =
  match split_blank obs with
  | [exit; missing; dup; malformed; tail; foreign; had; lines; info] ->
      let geti pfx tok = (match field_after pfx tok with Some x -> int_of_string x | None -> -1) in
      let m = geti "missing=" missing and d = geti "dup=" dup and mf = geti "malformed=" malformed
      and t = geti "tail=" tail and fo = geti "foreign=" foreign in
      let sample = (match field_after "lines:" lines with Some "-" | None -> [] | Some x -> String.split_on_char ',' x) in
      let parse_ok = List.for_all (fun hx -> match parse_phout true (bytes_of_hex hx) with Some _ -> true | None -> false) sample in
      let v =
        if mf > 0 || not parse_ok then "BAD:malformed-line"
        else if m > 0 || t = 0 then Printf.sprintf "BAD:exit-before-aggregator-close exit=%s missing=%d cut-last-line=%d" exit m (1 - t)
        else if exit <> orderly_exit then "BAD:unexpected-exit-" ^ exit
        else if d > 0 then "BAD:duplicate-lines"
        else if fo > 0 then "BAD:foreign-lines"
        else "ok" in
      (* the process model: the orderly execution of this exit path *)
      let pred =
        (match crun cli_waits cli_failed_waits (proc_init (S O)) h with
         | Some s when all_true s.aggr_closed && s.exited = Some reason ->
             String.concat " " [orderly_exit; "missing=0"; "dup=0"; "malformed=0"; "tail=1"; "foreign=0"; had; lines; info]
         | _ -> "model:orderly-exit-not-enabled") in
      (pred, v, had = "had=1")
  | _ -> ("model:no-prediction", "BAD:signal-run-" ^ (String.concat "_" (split_blank obs)), false)

let predict (c : string) (obs : string) : string * string * bool =
  match split_blank c with
  | ["line"; wid; ns; tag; id; fs] ->
      let withid = bool_of_field wid in
      let s = { ps_ms = ms_of_ns (z_of_string ns); ps_tag = bytes_of_hex tag; ps_id = n_of_string id; ps_fields = z_list_of_csv fs } in
      let p = hex_of_outcome (render_phout withid s) in
      if sample_ok s then begin
        (* the specification: the implementation's line is a well-formed phout line denoting the reported sample *)
        let ok = obs <> "panic" &&
                 (match parse_phout withid (bytes_of_hex obs) with Some s' -> sample_eq s' (norm withid s) | None -> false) in
        (p, verdict ok "line-does-not-parse-back-to-the-reported-sample", true)
      end else (p, "ok", false)
  | "setters" :: ns :: tag :: id :: vals when List.length vals = 9 ->
      let v = Array.of_list vals in
      let named = { n_interval_real = zdiv1000 v.(0); n_connect_time = zdiv1000 v.(1); n_send_time = zdiv1000 v.(2);
                    n_latency = zdiv1000 v.(3); n_receive_time = zdiv1000 v.(4); n_interval_event = Z0;
                    n_size_out = z_of_string v.(5); n_size_in = z_of_string v.(6); n_net_code = z_of_string v.(7);
                    n_proto_code = z_of_string v.(8) } in
      let s = { ps_ms = ms_of_ns (z_of_string ns); ps_tag = bytes_of_hex tag; ps_id = n_of_string id; ps_fields = fields_array named } in
      let p = hex_of_outcome (render_phout true s) in
      let want = { s with ps_fields = documented_columns named } in
      if sample_ok want then begin
        let ok = obs <> "panic" &&
                 (match parse_phout true (bytes_of_hex obs) with Some s' -> sample_eq s' want | None -> false) in
        (p, verdict ok "columns-not-in-documented-order", true)
      end else (p, "ok", false)
  | ["aggr"; fmt; q; g; per; mode; delay; _; _] | ["aggr"; fmt; q; g; per; mode; delay; _; _; _]
  | ["aggr"; fmt; q; g; per; mode; delay; _; _; _; _] ->
      aggr_case fmt (int_of_string q) (int_of_string g) (int_of_string per) mode (int_of_string delay) obs
  | ["aggr"; fmt; q; g; per; mode; delay; bufsize; _; _; old; dest; fail] ->
      aggr_case ~dest ~old ~fail:(int_of_string fail) ~bufsize:(int_of_string bufsize) fmt (int_of_string q) (int_of_string g) (int_of_string per) mode (int_of_string delay) obs
  | ["aggr"; fmt; q; g; per; mode; delay; _; _; _; old; dest] ->
      aggr_case ~dest ~old fmt (int_of_string q) (int_of_string g) (int_of_string per) mode (int_of_string delay) obs
  | ["engine"; fmt; instances; ammo; _; _] -> engine_case fmt (int_of_string instances) (int_of_string ammo) false obs
  | ["engine"; fmt; instances; ammo; _; _; _; _] -> engine_case fmt (int_of_string instances) (int_of_string ammo) true obs
  | "signal" :: _ -> signal_case "interrupted" [CSignal; CCancel; CRunReturns; CAggrClosed O; CPoolDone O; CExit ExInterrupted] ExInterrupted obs
  | "fail" :: _ -> signal_case "failed" [CRunFails; CCancel; CAggrClosed O; CPoolDone O; CExit ExFailed] ExFailed obs
  | "end" :: _ -> signal_case "ok" [CInstancesDone O; CAggrClosed O; CPoolDone O; CRunOk; CExit ExOk] ExOk obs
  | _ -> ("unknown-case", "BAD:unknown-case", false)

let () = run_cases predict
