(* Module [Model] as ocaml/common/conv.ml expects it: the extraction (compiled as C06_model)
   re-exported, with Coq's module Z (BinInt) renamed Coq_Z so that zarith's Z, which conv.ml
   and the driver use for decimal text, stays visible after `open Model`. Nothing else. *)
module Zarith_Z = Z
include C06_model
module Coq_Z = C06_model.Z
module Z = Zarith_Z
