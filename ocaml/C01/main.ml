(* Driver of the extracted schedule model (property C01).

   case:         const <on> <M> <D> | line <fn> <tn> <M> <D> | step <fn> <tn> <M> <st> <D> | once <n>
                 (rates are the rationals on/M, fn/M, tn/M requests per second, D in ns)
   observation:  <left> <finish> <post> <n> <t0,t1,...|->      (offsets from Start's instant, ns)
                 or panic / toomany

                 fact <K> <a|s|r> <case>: K observations " | "-separated, one per product of the rps factory

   Verdict = spec_b (extracted from Model/Sched.v) on the implementation's observation with the
   tolerance of DESIGN.md section 3: tol = 1 ns + D * 2^-40 on token times, relative 2^-40 on
   the integral before it is rounded down to the token count. Finish instant, Left, range
   [0, D], monotonicity and the post-exhaustion answers are checked exactly.
   Prediction = the model's own drain; when the observation is within the tolerance of the
   prediction the observation is echoed (so that the line comparison agrees), otherwise the
   exact model line is printed. *)
open Model
open Conv

let two40 = ZT.shift_left ZT.one 40
let q_of_ints (n : string) (m : string) : q = { qnum = z_of_string n; qden = pos_of_zt (ZT.of_string m) }
let eps : q = { qnum = z_of_int 1; qden = pos_of_zt two40 }

let two48 = ZT.shift_left ZT.one 48

(* tolerance on token instants: 1 ns + D*2^-40 (DESIGN.md section 3). For a line the float64
   closed form subtracts two nearly equal numbers when the rate barely changes; its conditioning
   is kappa = max(from,to)/|to-from|, so the term D*kappa*2^-48 is added (it exceeds D*2^-40 only
   for kappa > 256, i.e. for lines whose rate changes by less than 0.4 % over the whole profile). *)
let tol_of (d : ZT.t) (kappa : ZT.t) : ZT.t =
  ZT.add (ZT.add ZT.one (ZT.div d two40)) (ZT.div (ZT.mul d kappa) two48)

let kappa_of (fn : string) (tn : string) : ZT.t =
  let f = ZT.of_string fn and t = ZT.of_string tn in
  if ZT.equal f t then ZT.zero else ZT.cdiv (ZT.max f t) (ZT.abs (ZT.sub t f))

let parse_case (c : string) : (profile * ZT.t * ZT.t) option =
  match split_blank c with
  | ["const"; on; m; d] ->
      (* a rate below 0 is not a valid configuration; NewConst (callable around the validation) states
         "if ops < 0 { ops = 0 }": judged as the rate-0 profile of the same duration *)
      let on = if ZT.sign (ZT.of_string on) < 0 then "0" else on in
      Some (PConst (q_of_ints on m, z_of_string d), ZT.of_string d, ZT.zero)
  | ["line"; fn; tn; m; d] -> Some (PLine (q_of_ints fn m, q_of_ints tn m, z_of_string d), ZT.of_string d, kappa_of fn tn)
  | ["step"; fn; tn; m; st; d] -> Some (PStep (q_of_ints fn m, q_of_ints tn m, z_of_string st, z_of_string d), ZT.of_string d, ZT.zero)
  | ["once"; n] -> Some (POnce (z_of_string n), ZT.zero, ZT.zero)
  | _ -> None

(* list <k> <part> ... <part>: the parts with the time tolerance of each *)
let parse_list (fs : string list) : ((profile * ZT.t) list) option =
  match fs with
  | k :: rest ->
      let rec go k fs acc =
        if k = 0 then (if fs = [] then Some (List.rev acc) else None)
        else
          let take n = let rec t n l a = if n = 0 then Some (List.rev a, l) else (match l with [] -> None | x :: r -> t (n - 1) r (x :: a)) in t n fs [] in
          let ar = match fs with "const" :: _ -> 4 | "line" :: _ -> 5 | "step" :: _ -> 6 | "once" :: _ -> 2 | _ -> 0 in
          if ar = 0 then None else
          match take ar with
          | None -> None
          | Some (part, rest) ->
              (match parse_case (String.concat " " part) with
               | Some (p, d, kappa) -> go (k - 1) rest ((p, tol_of d kappa) :: acc)
               | None -> None) in
      (match int_of_string_opt k with Some k when k >= 0 -> go k rest [] | _ -> None)
  | [] -> None

let parse_toks (s : string) : ZT.t list =
  if s = "-" || s = "" then [] else List.map ZT.of_string (String.split_on_char ',' s)

let toks_str (l : ZT.t list) = if l = [] then "-" else String.concat "," (List.map ZT.to_string l)

(* model line; a NaN token (negative radicand) prints as "nan" *)
let model_line (p : profile) : string * ZT.t list * bool * ZT.t * ZT.t =
  match drain p with
  | None -> ("out-of-fuel", [], false, ZT.zero, ZT.zero)
  | Some d ->
      let nan = List.exists (fun t -> t = None) d.d_tokens in
      let toks = List.map (function Some t -> zt_of_z t | None -> ZT.of_int (-1)) d.d_tokens in
      let left = zt_of_z d.d_left and fin = zt_of_z d.d_finish in
      let s = Printf.sprintf "%s %s 1 %d %s" (ZT.to_string left) (ZT.to_string fin) (List.length toks)
                (if nan then "nan" else toks_str toks) in
      (s, toks, nan, left, fin)

let rec close tol (a : ZT.t list) (b : ZT.t list) =
  match a, b with
  | x :: ar, y :: br -> ZT.leq (ZT.abs (ZT.sub x y)) tol && close tol ar br
  | _ -> true   (* common prefix only: the counts are judged by count_ok *)

(* a list profile drained by one consumer: list_spec_b cuts the observed stream into the windows of
   the parts and judges each by the specification of its own part; finish = sum of the durations *)
let predict_list (parts : (profile * ZT.t) list) (obs : string) : string * string * bool =
  let ps = List.map fst parts in
  let (mline, mtoks, mnan, mfin) =
    match list_drain ps with
    | None -> ("out-of-fuel", [], false, ZT.zero)
    | Some d ->
        let nan = List.exists (fun t -> t = None) d.d_tokens in
        let toks = List.map (function Some t -> zt_of_z t | None -> ZT.of_int (-1)) d.d_tokens in
        (Printf.sprintf "%s %s 1 %d %s" (ZT.to_string (zt_of_z d.d_left)) (ZT.to_string (zt_of_z d.d_finish)) (List.length toks)
           (if nan then "nan" else toks_str toks), toks, nan, zt_of_z d.d_finish) in
  match split_blank obs with
  | [left; fin; post; n; toks] ->
      let xs = parse_toks toks in
      let nx = List.length xs in
      if string_of_int nx <> n then (mline, "BAD:malformed-observation", false)
      else begin
        let ok_spec = list_spec_b (List.map (fun (p, t) -> (p, z_of_zt t)) parts) eps (z_of_string left) (List.map z_of_zt xs) (z_of_string fin) in
        let want_fin = zt_of_z (list_spec_finish ps) in
        let why =
          if not ok_spec then begin
            if not (ZT.equal (ZT.of_string fin) want_fin) then
              "finish instant is not start + the sum of the parts' durations (want offset " ^ ZT.to_string want_fin ^ ")"
            else if not (ZT.equal (ZT.of_string left) (ZT.of_int nx)) then "Left() before start differs from the number of tokens"
            else Printf.sprintf "tokens do not realise the parts of the list profile one after another (observed %d tokens, specification %d)" nx (List.length mtoks)
          end
          else if post = "left" then "exhausted schedule reports Left() <> 0"
          else if post <> "1" then "exhausted schedule does not keep reporting start+duration with ok=false"
          else "" in
        let ok = (why = "") in
        let tolmax = List.fold_left (fun a (_, t) -> ZT.max a t) ZT.one parts in
        let within = ok && not mnan && abs (List.length mtoks - nx) <= List.length parts && (List.length mtoks <> nx || close tolmax mtoks xs)
                     && ZT.equal mfin (ZT.of_string fin) in
        ((if within then obs else mline), verdict ok why, nx >= 2 && List.length parts >= 2)
      end
  | _ -> (mline, "BAD:implementation " ^ obs, false)

let predict_seq (c : string) (obs : string) : string * string * bool =
  match split_blank c with
  | "list" :: fs ->
      (match parse_list fs with
       | Some parts -> predict_list parts obs
       | None -> ("unknown-case", "BAD:unknown-case", false))
  | _ ->
  match parse_case c with
  | None -> ("unknown-case", "BAD:unknown-case", false)
  | Some (p, d, kappa) ->
      let tol = tol_of d kappa in
      let (mline, mtoks, mnan, mleft, mfin) = model_line p in
      (match split_blank obs with
       | [left; fin; post; n; toks] ->
           let xs = parse_toks toks in
           let nx = List.length xs in
           if string_of_int nx <> n then (mline, "BAD:malformed-observation", false)
           else begin
             let ok_spec = spec_b p (z_of_zt tol) eps (z_of_string left) (List.map z_of_zt xs) (z_of_string fin) in
             let why =
               if not ok_spec then begin
                 (* name the part of the specification that fails *)
                 let exact_fin = ZT.equal (ZT.of_string fin) (zt_of_z (spec_finish p)) in
                 let left_ok = ZT.equal (ZT.of_string left) (ZT.of_int nx) in
                 if not exact_fin then "finish instant is not start+duration (want offset " ^ ZT.to_string (zt_of_z (spec_finish p)) ^ ")"
                 else if not left_ok then "Left() before start differs from the number of tokens"
                 else if nx <> List.length mtoks then
                   Printf.sprintf "tokens do not realise the integral of the configured rate (observed %d tokens, specification %d)" nx (List.length mtoks)
                 else begin
                   (* same count: name the first operation scheduled outside its nanosecond *)
                   let rec first k a b = match a, b with
                     | x :: ar, y :: br -> if ZT.leq (ZT.abs (ZT.sub x y)) tol then first (k + 1) ar br
                                           else Printf.sprintf "operation %d scheduled at offset %s ns, the integral of the configured rate reaches %d at %s ns" k (ZT.to_string y) k (ZT.to_string x)
                     | _ -> "token instants outside [start, start+duration] or not monotone" in
                   first 0 mtoks xs
                 end
               end
               else if post = "left" then "exhausted schedule reports Left() <> 0"
               else if post <> "1" then "exhausted schedule does not keep reporting start+duration with ok=false"
               else "" in
             let ok = (why = "") in
             let nm = List.length mtoks in
             let within = ok && not mnan && abs (nm - nx) <= 1 && close tol mtoks xs
                          && ZT.equal mfin (ZT.of_string fin) in
             let kind = List.hd (split_blank c) in
             let whole = ZT.equal (ZT.rem d (ZT.of_string "1000000000")) ZT.zero in
             let flat = (match p with PConst _ -> true | PLine (f, t, _) -> f = t | _ -> false) in
             let nt = nx >= 2 && not (whole && flat && kind <> "step") in
             ((if within then obs else mline), verdict ok why, nt)
           end
       | _ -> (mline, "BAD:implementation " ^ obs, false))

(* conc <G> <rounds> <inner case>: the inner (sequential) observation is judged as above; the four
   flags say that in every round the goroutines draining the un-Started schedule together saw ONE
   start instant s (multiset of instants - s = the sequential tokens, same finish for all), with
   s and every token not before the barrier release and s not after the first Next returned. *)
let predict (c : string) (obs : string) : string * string * bool =
  match split_blank c with
  | "conc" :: g :: _rounds :: inner ->
      let inner = (match inner with "meet" :: r -> r | r -> r) in
      let inner_c = String.concat " " inner in
      (match split_blank obs with
       | [a; b; c3; d; e; same; fin; lo; hi; exh; detail] ->
           let (p, v, nt) = predict_seq inner_c (String.concat " " [a; b; c3; d; e]) in
           let why =
             if v <> "ok" then String.sub v 4 (String.length v - 4)
             else if exh <> "1" then "shared profile: a consumer is told the profile is exhausted although it is not (wrong finish instant, operations left, or operations handed out afterwards) " ^ detail
             else if lo <> "1" then "concurrent first Next: an operation (or the start instant) is scheduled before the schedule could have started " ^ detail
             else if same <> "1" then "concurrent first Next: the tokens handed out are not the profile's tokens relative to one start instant " ^ detail
             else if fin <> "1" then "concurrent first Next: goroutines disagree on the finish instant or Left() <> 0 " ^ detail
             else if hi <> "1" then "concurrent first Next: start instant later than the return of the first Next " ^ detail
             else "" in
           (p ^ " 1 1 1 1 1 -", verdict (why = "") why, nt && int_of_string g >= 2)
       | _ ->
           let (p, _, _) = predict_seq inner_c "" in
           (p ^ " 1 1 1 1 1 -", "BAD:implementation " ^ obs, false))
  | "fact" :: k :: _mode :: inner when inner <> [] && int_of_string_opt k <> None ->
      (* K products of the pool's rps factory (rps-per-instance): every product is judged on its own by the
         specification of the configured profile, exactly as a directly constructed schedule is *)
      let k = (match int_of_string_opt k with Some k -> k | None -> 0) in
      let inner_c = String.concat " " inner in
      let segs = List.map String.trim (String.split_on_char '|' obs) in
      if List.length segs <> k then
        let (p, _, _) = predict_seq inner_c "" in
        (String.concat " | " (List.init (max k 1) (fun _ -> p)), "BAD:implementation " ^ obs, false)
      else begin
        let rs = List.map (predict_seq inner_c) segs in
        let line = String.concat " | " (List.map (fun (p, _, _) -> p) rs) in
        let rec first j = function
          | [] -> "ok"
          | (_, v, _) :: r -> if v = "ok" then first (j + 1) r
                              else Printf.sprintf "%s (product %d of %d of one rps factory, rps-per-instance)" v j k in
        (line, first 0 rs, k >= 2 && List.for_all (fun (_, _, nt) -> nt) rs)
      end
  | _ -> predict_seq c obs

let () = run_cases predict
