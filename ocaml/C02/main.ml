(* Driver of the extracted C02 model: dispatch.  See c02base.ml (tree syntax, seq cases) and
   c02conc.ml (concurrent cases). *)
open Model
open Conv
open C02base

let predict (c : string) (obs : string) : string * string * bool =
  match split_blank c with
  | ["seq"; tree; ops] -> seq_case tree ops obs
  | ["conc"; tree; s; plan] -> C02conc.conc_case tree (s = "S") plan obs
  | ["race"; tree; _; _] -> C02conc.race_case tree obs
  | ["srace"; tree; _; _] -> C02conc.race_case ~self:true tree obs
  | ["urace"; tree; g; per; _] -> C02conc.urace_case tree (int_of_string g) (int_of_string per) obs
  | ["fact"; tree; k; ops] -> C02fact.fact_case tree (int_of_string k) ops obs
  | _ -> ("unknown-case", "BAD:unknown-case", false)

let () = run_cases predict
