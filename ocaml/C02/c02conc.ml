(* Concurrent cases of C02: the observation is "summary | event log".

   Verdict (specification side): the log — the total order of leaf-level operations and of
   the callers' call/return events, recorded by the harness under one mutex — is checked
   against the abstract token stream of the configuration (items_from / abs_next / abs_left
   extracted from Coq):
     * every successful leaf-level Next hands out exactly the head of the abstract stream
       (so no part is skipped, started at a wrong time or drained twice);
     * every part is started at the finish time of the part before it;
     * a caller's Next returns what its last leaf-level Next produced; a failed Next returns
       the final finish time and only when the stream is exhausted;
     * a caller's Left returns the abstract Left of some instant between its call and return;
     * a token taken at leaf level by a Left call (lost token) and any panic are violations;
     * the summary (token multiset, per-caller monotonicity, stability after exhaustion,
       final Left, callback count) equals the one computed from the abstract stream.
   Prediction (model side): the same summary computed by the code-shaped sequential model
   running the plans round-robin, followed by the log echoed. *)
open Model
open Conv
open C02base

type wrapped = { w_unl : bool; w_first : int; w_len : int }

(* wrapped leaves in construction order: once/const/line/unl everywhere, step/istep below a comp *)
let rec wrapped_of (t : tnode) (top : bool) (pos : int ref) (acc : wrapped list ref) : unit =
  match t.kind with
  | "comp" ->
      if t.kids = [] then begin (* NewComposite() = once(0), wrapped by the harness *)
        acc := { w_unl = false; w_first = !pos; w_len = 1 } :: !acc; incr pos
      end else List.iter (fun k -> wrapped_of k false pos acc) t.kids
  | _ ->
      let len = List.length (flatten_cfg (cfg_of t)) in
      if not (top && (t.kind = "step" || t.kind = "istep")) then
        acc := { w_unl = (t.kind = "unl"); w_first = !pos; w_len = len } :: !acc;
      pos := !pos + len

let dur_of = function DoAt (_, d, _, _, _) -> d | Unlim (d, _) -> d | Comp (_, _, _) -> z0

let drop_mono (s : string) = String.concat " " (List.filter (fun f -> not (String.length f > 5 && String.sub f 0 5 = "mono=")) (split_blank s))
let has_u (s : string) = List.exists (fun f -> String.length f > 3 && String.sub f 0 3 = "nu=" && f <> "nu=0") (split_blank s)

type pend = PNone | PN of (z * bool * bool) option | PL of z list

let conc_case (tree : string) (explicit : bool) (plan : string) (obs : string) : string * string * bool =
  leaf_hyp_ok := true;
  let tn = parse_tree tree in
  let c = cfg_of tn in
  let now = if explicit then past else z0 in
  let fuel = S (size_cfg c) in
  let plans = Array.of_list (String.split_on_char '/' plan) in
  let g = Array.length plans in
  let total_n = Array.fold_left (fun a p -> a + List.length (List.filter (fun ch -> ch = 'N') (List.init (String.length p) (String.get p)))) 0 plans in
  let (obs_sum, log) =
    match Str.bounded_split_delim (Str.regexp_string " | ") obs 2 with
    | [a; b] -> (a, b)
    | [a] -> (a, "")
    | _ -> (obs, "") in
  let events = if log = "" then [] else split_blank log in
  let fl = flatten_cfg c in
  (* ----- round-robin op order *)
  let maxlen = Array.fold_left (fun a p -> max a (String.length p)) 0 plans in
  let rr = List.concat (List.init maxlen (fun i -> List.concat (List.init g (fun gi -> if i < String.length plans.(gi) then [plans.(gi).[i]] else [])))) in
  let any_finish_return = List.exists (fun e ->
      match String.split_on_char '.' e with
      | [_; "r"; "N"; v] -> String.length v > 2 && String.sub v (String.length v - 2) 2 = ":0"
      | [_; "r"; "L"; "0"] -> true
      | _ -> false) events in
  let summary toks nu fin lq =
    let toks = List.sort (fun a b -> ZT.compare a b) (List.map zt_of_z toks) in
    let ts = if toks = [] then "-" else String.concat "," (List.map ZT.to_string toks) in
    let cb = if any_finish_return || lq = "0" then 1 else 0 in
    Printf.sprintf "tbl=1 tok=%s nu=%d uok=1 mono=1 fin=%s stable=1 lq=%s cb=%d pan=0" ts nu
      (match fin with Some f -> zs f | None -> "-") lq cb in
  (* ----- model summary *)
  let pred_sum =
    match build fuel now c with
    | Panic k -> "tbl=1 Pctor:" ^ pk k
    | OutOfFuel -> "tbl=1 fuel"
    | Ok s0 ->
        let started = if explicit then s_start z0 s0 else Ok s0 in
        (match started with
         | Panic _ | OutOfFuel -> "start-panics"
         | Ok s1 ->
             let rec go s ops toks nu fin =
               match ops with
               | [] -> (match s_left fuel now s with
                        | Ok (_, k) -> summary toks nu fin (zs k)
                        | _ -> "left-panics")
               | 'N' :: r ->
                   (match s_next fuel now s with
                    | Ok ((s', t), ok) ->
                        if ok then (if head_is_unl s' then go s' r toks (nu + 1) fin else go s' r (t :: toks) nu fin)
                        else go s' r toks nu (Some t)
                    | _ -> "next-panics")
               | _ :: r ->
                   (match s_left fuel now s with
                    | Ok (s', _) -> go s' r toks nu fin
                    | _ -> "left-panics") in
             go s1 rr [] 0 None)
  in
  (* ----- specification summary *)
  let (its0, fin0) = items_from z0 fl in
  let spec_sum =
    let rec go its ops toks nu fin =
      match ops with
      | [] -> summary toks nu fin (zs (abs_left now its))
      | 'N' :: r ->
          let u = from_window now its in
          let ((its', t), ok) = abs_next now fin0 its in
          if ok then (if u then go its' r toks (nu + 1) fin else go its' r (t :: toks) nu fin)
          else go its' r toks nu (Some t)
      | _ :: r -> go its r toks nu fin in
    go its0 rr [] 0 None in
  (* ----- log check against the abstract stream *)
  let wr = ref [] in
  wrapped_of tn true (ref 0) wr;
  let wr = Array.of_list (List.rev !wr) in
  let summary_only = (tn.kind = "step" || tn.kind = "istep") in
  let starts =
    let a = Array.make (List.length fl + 1) z0 in
    List.iteri (fun i x -> a.(i + 1) <- zadd a.(i) (dur_of x)) fl;
    a in
  let bad = ref "" in
  let fail s = if !bad = "" then bad := s in
  let its = ref its0 in
  let started = ref explicit in
  let cur_left () =
    if !started then abs_left now !its
    else if List.exists is_window its0 then z_of_int (-1) else z_of_int (List.length its0) in
  let pend = Array.make (g + 2) PNone in
  let note_change () =
    let v = cur_left () in
    Array.iteri (fun i p -> match p with PL l -> pend.(i) <- PL (v :: l) | _ -> ()) pend in
  if not summary_only then
    List.iter (fun e ->
      match String.split_on_char '.' e with
      | [gs; "c"; "N"] -> pend.(int_of_string gs) <- PN None
      | [gs; "c"; "L"] -> pend.(int_of_string gs) <- PL [cur_left ()]
      | [gs; "r"; "P"] -> fail ("panic-in-goroutine-" ^ gs)
      | [gs; "r"; "N"; v] ->
          let gi = int_of_string gs in
          let (t, ok) = (match String.split_on_char ':' v with [t; o] -> (z_of_string t, o = "1") | _ -> (z0, false)) in
          (match pend.(gi) with
           | PN (Some (t', ok', u)) ->
               if ok <> ok' then fail "next-result-differs-from-leaf-result"
               else if ok then (if not u && not (zeq t t') then fail "next-time-differs-from-leaf-time")
               else begin
                 if not (zeq t fin0) then fail (Printf.sprintf "finish-time got %s want %s" (zs t) (zs fin0));
                 let (_, ok2) = abs_next now fin0 !its in
                 if ok2 then fail "finished-reported-while-a-token-remains"
               end
           | _ -> fail "next-returned-without-leaf-operation");
          pend.(gi) <- PNone
      | [gs; "r"; "L"; v] ->
          let gi = int_of_string gs in
          (match pend.(gi) with
           | PL l -> if not (List.exists (fun x -> zs x = v) l) then
                 fail (Printf.sprintf "left got %s want one of {%s}" v (String.concat "," (List.sort_uniq compare (List.map zs l))))
           | _ -> fail "left-return-without-call");
          pend.(gi) <- PNone
      | [gs; js; "S"; v] ->
          let j = int_of_string js in
          if j >= 0 && j < Array.length wr then begin
            let want = starts.(wr.(j).w_first) in
            if not (zeq (z_of_string v) want) then fail (Printf.sprintf "part-%d-started-at %s want %s" j v (zs want))
          end
      | [gs; js; "N"; v] ->
          let gi = int_of_string gs and j = int_of_string js in
          let (t, ok) = (match String.split_on_char ':' v with [t; o] -> (z_of_string t, o = "1") | _ -> (z0, false)) in
          if not !started then begin started := true; note_change () end;
          let in_left = (match pend.(gi) with PL _ -> true | _ -> false) in
          if ok then begin
            let u = j < Array.length wr && wr.(j).w_unl in
            let wu = from_window now !its in
            let ((its', t'), ok') = abs_next now fin0 !its in
            if not ok' then fail "token-handed-out-after-exhaustion"
            else if u <> wu then fail "token-from-wrong-kind-of-part"
            else if not u && not (zeq t t') then fail (Printf.sprintf "token-time got %s want %s" (zs t) (zs t'));
            its := its';
            note_change ();
            if in_left then fail "token-consumed-by-Left"
          end;
          if not in_left then pend.(gi) <- PN (Some (t, ok, ok && j < Array.length wr && wr.(j).w_unl))
      | _ -> ()) events;
  let nparts = List.length fl in
  let v =
    if not !leaf_hyp_ok then "BAD:leaf-offsets-not-monotone-or-beyond-duration"
    else if String.length obs_sum >= 5 && String.sub obs_sum 0 5 = "tbl=0" then "ok"
    else if obs = "hang" then "BAD:hang"
    else if !bad <> "" then "BAD:" ^ !bad
    else if drop_mono obs_sum = drop_mono spec_sum && obs_sum <> spec_sum then
      (* only the per-caller monotonicity bit differs *)
      (if (not explicit) && has_u obs_sum then "BAD:nowait-time-decreases" else "BAD:time-decreases")
    else if obs_sum <> spec_sum then begin
      let a = Array.of_list (split_blank obs_sum) and b = Array.of_list (split_blank spec_sum) in
      let i = ref 0 in
      while !i < Array.length a && !i < Array.length b && a.(!i) = b.(!i) do incr i done;
      let cut s = if String.length s > 60 then String.sub s 0 60 ^ "..." else s in
      Printf.sprintf "BAD:summary got %s want %s" (cut (if !i < Array.length a then a.(!i) else "end")) (cut (if !i < Array.length b then b.(!i) else "end"))
    end
    else "ok" in
  let pred = if log = "" then pred_sum else pred_sum ^ " | " ^ log in
  (pred, v, nparts >= 2 && g >= 2 && total_n >= 2)
