(* Concurrent cases of C02: the observation is "summary | event log".

   Verdict (specification side): the log — the total order of leaf-level operations and of
   the callers' call/return events, recorded by the harness under one mutex — is checked
   against the abstract token stream of the configuration (items_from / abs_next / abs_left
   extracted from Coq):
     * every successful leaf-level Next hands out exactly the head of the abstract stream
       (so no part is skipped, started at a wrong time or drained twice);
     * every part is started at the finish time of the part before it;
     * a caller's Next returns what its last leaf-level Next produced; a failed Next returns
       the final finish time and only when the stream is exhausted;
     * a caller's Left returns the abstract Left of some instant between its call and return;
     * a token taken at leaf level by a Left call (lost token) and any panic are violations;
     * the summary (token multiset, per-caller monotonicity, stability after exhaustion,
       final Left, callback count) equals the one computed from the abstract stream.
   Prediction (model side): the same summary computed by the code-shaped sequential model
   running the plans round-robin, followed by the log echoed. *)
open Model
open Conv
open C02base

type wrapped = { w_unl : bool; w_first : int; w_len : int }

(* wrapped leaves in construction order: once/const/line/unl everywhere, step/istep below a comp *)
let rec wrapped_of (t : tnode) (top : bool) (pos : int ref) (acc : wrapped list ref) : unit =
  match t.kind with
  | "comp" ->
      if t.kids = [] then begin (* NewComposite() = once(0), wrapped by the harness *)
        acc := { w_unl = false; w_first = !pos; w_len = 1 } :: !acc; incr pos
      end else List.iter (fun k -> wrapped_of k false pos acc) t.kids
  | _ ->
      let len = List.length (flatten_cfg (cfg_of t)) in
      if not (top && (t.kind = "step" || t.kind = "istep")) then
        acc := { w_unl = (t.kind = "unl"); w_first = !pos; w_len = len } :: !acc;
      pos := !pos + len

let dur_of = function DoAt (_, d, _, _, _) -> d | Unlim (d, _) -> d | Comp (_, _, _) -> z0

let drop_mono (s : string) = String.concat " " (List.filter (fun f -> not (String.length f > 5 && String.sub f 0 5 = "mono=")) (split_blank s))
let has_u (s : string) = List.exists (fun f -> String.length f > 3 && String.sub f 0 3 = "nu=" && f <> "nu=0") (split_blank s)

type pend = PNone | PN of (z * bool * bool) option | PL of z list

(* ---------------------------------------------------------------- per-goroutine conformance
   Replays the event log through the extracted atomic sections of Model/SchedConc.v (the model
   C02_conc_flat is about): every goroutine's logged child operations must be exactly what its
   pending section does (which child, start times, results), and its returned values must be
   the section outcomes.  Only for a top-level composite whose children are single recorded
   parts (leaves, comp(), step/istep taken atomically) and an explicit start. *)
type cpc = CIdle | CInNext | CInLeft | CN1 of z * nat | CL1 of nat | CRetN of z * bool | CRetL of z

let conformable (tn : tnode) =
  tn.kind = "comp" && List.length tn.kids >= 2 &&
  List.for_all (fun k -> k.kind <> "comp" || k.kids = []) tn.kids

let conform (tn : tnode) (c : cfg) (g : int) (events : string list) : string =
  let fuel = S (size_cfg c) in
  let now = past in
  let nk = List.length tn.kids in
  let unl = Array.of_list (List.map (fun k -> k.kind = "unl") tn.kids) in
  match build fuel now c with
  | Panic _ | OutOfFuel -> "conf=0:model-build"
  | Ok s0 ->
    let st = ref s0 in
    let pcs = Array.make (g + 2) CIdle in
    let expect : (string * int * string) list array = Array.make (g + 2) [] in  (* op, leaf, value *)
    let bad = ref "" in
    let fail m = if !bad = "" then bad := m in
    let head () = nk - int_of_nat (comp_len !st) in
    let tv v = match String.split_on_char ':' v with [t; o] -> (z_of_string t, o = "1") | _ -> (z0, false) in
    let apply gi (r : (sched * outcome) res) (k : sched -> outcome -> unit) =
      match r with
      | Ok (c', out) -> st := c'; k c' out
      | _ -> fail (Printf.sprintf "model-section-panics(g%d)" gi) in
    let set_out gi out op =
      match out with
      | RetN (t, ok) -> pcs.(gi) <- CRetN (t, ok)
      | RetL v -> pcs.(gi) <- CRetL v
      | Goto PIdle -> pcs.(gi) <- (if op = 'N' then CInNext else CInLeft)
      | Goto (N1 (tx, k)) -> pcs.(gi) <- CN1 (tx, k)
      | Goto (L1 k) -> pcs.(gi) <- CL1 k in
    let check_next_result gi j (t, ok) out =
      (match out with
       | RetN (t', ok') ->
           if ok <> ok' then fail (Printf.sprintf "g%d next ok differs" gi)
           else if not (ok && j < nk && unl.(j) && zeq t' now) && not (zeq t t') then fail (Printf.sprintf "g%d next time %s model %s" gi (zs t) (zs t'))
       | Goto (N1 (tx, _)) -> if ok || not (zeq t tx) then fail (Printf.sprintf "g%d parked in N1 but leaf said %s" gi (zs t))
       | Goto PIdle -> if ok then fail (Printf.sprintf "g%d retries although the leaf gave a token" gi)
       | _ -> fail "unexpected outcome") in
    List.iter (fun e ->
      if !bad = "" then
      match String.split_on_char '.' e with
      | [gs; "c"; "N"] -> pcs.(int_of_string gs) <- CInNext
      | [gs; "c"; "L"] -> pcs.(int_of_string gs) <- CInLeft
      | [gs; "r"; "N"; v] ->
          let gi = int_of_string gs in
          let (t, ok) = tv v in
          (match pcs.(gi) with
           | CRetN (t', ok') ->
               if ok <> ok' || (not ok && not (zeq t t')) then fail (Printf.sprintf "g%d returned %s model %s:%b" gi v (zs t') ok')
           | _ -> fail (Printf.sprintf "g%d returned from Next but the model section has not returned" gi));
          pcs.(gi) <- CIdle
      | [gs; "r"; "L"; v] ->
          let gi = int_of_string gs in
          (match pcs.(gi) with
           | CRetL v' -> if zs v' <> v then fail (Printf.sprintf "g%d Left returned %s model %s" gi v (zs v'))
           | _ -> fail (Printf.sprintf "g%d returned from Left but the model section has not returned" gi));
          pcs.(gi) <- CIdle
      | [gs; "r"; "P"] -> fail ("panic g" ^ gs)
      | [gs; js; op; v] ->
          let gi = int_of_string gs and j = int_of_string js in
          (match expect.(gi) with
           | (op', j', v') :: rest ->
               (* second child operation of a write-lock section already executed by the model *)
               if op <> op' || j <> j' || (v' <> "" && v <> v') then
                 fail (Printf.sprintf "g%d did %s on part %d (%s), model expects %s on part %d (%s)" gi op j v op' j' v');
               expect.(gi) <- rest
           | [] ->
             if gi >= g then begin
               (* the explicit Start by the main goroutine *)
               if op = "S" then (match s_start (z_of_string v) !st with Ok s' -> st := s' | _ -> fail "model-start-panics")
             end else
             (match pcs.(gi), op with
              | CInNext, "N" ->
                  if j <> head () then fail (Printf.sprintf "g%d Next on part %d, model head is %d" gi j (head ()));
                  apply gi (sec_next0 fuel now !st) (fun _ out -> check_next_result gi j (tv v) out; set_out gi out 'N')
              | CN1 (tx, k), "N" ->
                  (* somebody shifted before us *)
                  if not (int_of_nat (comp_len !st) < int_of_nat k) then fail (Printf.sprintf "g%d takes a token without shifting, model would shift" gi);
                  if j <> head () then fail (Printf.sprintf "g%d Next on part %d, model head is %d" gi j (head ()));
                  apply gi (sec_next1 fuel now !st tx k) (fun _ out -> check_next_result gi j (tv v) out; set_out gi out 'N')
              | CN1 (tx, k), "S" ->
                  if int_of_nat (comp_len !st) < int_of_nat k then fail (Printf.sprintf "g%d shifts, model says somebody shifted already" gi);
                  if j <> head () + 1 then fail (Printf.sprintf "g%d starts part %d, model would start %d" gi j (head () + 1));
                  if not (zeq (z_of_string v) tx) then fail (Printf.sprintf "g%d starts part %d at %s, model at %s" gi j v (zs tx));
                  apply gi (sec_next1 fuel now !st tx k) (fun _ out ->
                    (* the Next on the new head follows in the log *)
                    (match out with
                     | RetN (t, ok) -> expect.(gi) <- [("N", j, if ok && j < nk && unl.(j) && zeq t now then "" else zs t ^ ":" ^ field_of_bool ok)]
                     | _ -> expect.(gi) <- [("N", j, "")]);
                    set_out gi out 'N')
              | CInLeft, "L" ->
                  if j <> head () then fail (Printf.sprintf "g%d Left on part %d, model head is %d" gi j (head ()));
                  apply gi (sec_left0 fuel now !st) (fun _ out -> set_out gi out 'L')
              | CL1 k, "L" ->
                  (* the write section found the length changed: no shift, Left restarts *)
                  if int_of_nat (comp_len !st) = int_of_nat k then fail (Printf.sprintf "g%d restarts Left, model would shift" gi);
                  apply gi (sec_left1 fuel now !st k) (fun _ _ -> ());
                  if j <> head () then fail (Printf.sprintf "g%d Left on part %d, model head is %d" gi j (head ()));
                  apply gi (sec_left0 fuel now !st) (fun _ out -> set_out gi out 'L')
              | CL1 k, "N" ->
                  if int_of_nat (comp_len !st) <> int_of_nat k then fail (Printf.sprintf "g%d probes the head, model says the length changed" gi);
                  if j <> head () then fail (Printf.sprintf "g%d probes part %d, model head is %d" gi j (head ()));
                  let (_, ok) = tv v in
                  if ok then fail (Printf.sprintf "g%d Left consumed a token" gi);
                  let fin = fst (tv v) in
                  apply gi (sec_left1 fuel now !st k) (fun _ out ->
                    expect.(gi) <- [("S", j + 1, zs fin)]; set_out gi out 'L')
              | _, _ -> fail (Printf.sprintf "g%d child operation %s on part %d outside any section of the model" gi op j)))
      | _ -> ()) events;
    if !bad = "" then "conf=1" else "conf=0:" ^ (String.concat "_" (split_blank !bad))

let conc_case (tree : string) (explicit : bool) (plan : string) (obs : string) : string * string * bool =
  leaf_hyp_ok := true;
  let tn = parse_tree tree in
  let c = cfg_of tn in
  let now = if explicit then past else z0 in
  let fuel = S (size_cfg c) in
  let plans = Array.of_list (String.split_on_char '/' plan) in
  let g = Array.length plans in
  let total_n = Array.fold_left (fun a p -> a + List.length (List.filter (fun ch -> ch = 'N') (List.init (String.length p) (String.get p)))) 0 plans in
  let (obs_sum, log) =
    match Str.bounded_split_delim (Str.regexp_string " | ") obs 2 with
    | [a; b] -> (a, b)
    | [a] -> (a, "")
    | _ -> (obs, "") in
  let events = if log = "" then [] else split_blank log in
  let fl = flatten_cfg c in
  (* ----- round-robin op order *)
  let maxlen = Array.fold_left (fun a p -> max a (String.length p)) 0 plans in
  let rr = List.concat (List.init maxlen (fun i -> List.concat (List.init g (fun gi -> if i < String.length plans.(gi) then [plans.(gi).[i]] else [])))) in
  let any_finish_return = List.exists (fun e ->
      match String.split_on_char '.' e with
      | [_; "r"; "N"; v] -> String.length v > 2 && String.sub v (String.length v - 2) 2 = ":0"
      | [_; "r"; "L"; "0"] -> true
      | _ -> false) events in
  let summary toks nu fin lq =
    let toks = List.sort (fun a b -> ZT.compare a b) (List.map zt_of_z toks) in
    let ts = if toks = [] then "-" else String.concat "," (List.map ZT.to_string toks) in
    let cb = if any_finish_return || lq = "0" then 1 else 0 in
    Printf.sprintf "tbl=1 tok=%s nu=%d uok=1 mono=1 fin=%s stable=1 lq=%s cb=%d pan=0" ts nu
      (match fin with Some f -> zs f | None -> "-") lq cb in
  let strip_conf (x : string) = Str.global_replace (Str.regexp " conf=[^ ]*") "" x in
  (* ----- model summary *)
  let pred_sum =
    match build fuel now c with
    | Panic k -> "tbl=1 Pctor:" ^ pk k
    | OutOfFuel -> "tbl=1 fuel"
    | Ok s0 ->
        let started = if explicit then s_start z0 s0 else Ok s0 in
        (match started with
         | Panic _ | OutOfFuel -> "start-panics"
         | Ok s1 ->
             let rec go s ops toks nu fin =
               match ops with
               | [] -> (match s_left fuel now s with
                        | Ok (_, k) -> summary toks nu fin (zs k)
                        | _ -> "left-panics")
               | 'N' :: r ->
                   (match s_next fuel now s with
                    | Ok ((s', t), ok) ->
                        if ok then (if head_is_unl s' && zeq t now then go s' r toks (nu + 1) fin else go s' r (t :: toks) nu fin)
                        else go s' r toks nu (Some t)
                    | _ -> "next-panics")
               | _ :: r ->
                   (match s_left fuel now s with
                    | Ok (s', _) -> go s' r toks nu fin
                    | _ -> "left-panics") in
             go s1 rr [] 0 None)
  in
  (* ----- specification summary *)
  let (its0, fin0) = items_from z0 fl in
  let spec_sum =
    let rec go its ops toks nu fin =
      match ops with
      | [] -> summary toks nu fin (zs (abs_left now its))
      | 'N' :: r ->
          let u = from_window now its in
          let ((its', t), ok) = abs_next now fin0 its in
          if ok then (if u && zeq t now then go its' r toks (nu + 1) fin else go its' r (t :: toks) nu fin)
          else go its' r toks nu (Some t)
      | _ :: r -> go its r toks nu fin in
    go its0 rr [] 0 None in
  (* ----- log check against the abstract stream *)
  let wr = ref [] in
  wrapped_of tn true (ref 0) wr;
  let wr = Array.of_list (List.rev !wr) in
  let summary_only = (tn.kind = "step" || tn.kind = "istep") in
  let starts =
    let a = Array.make (List.length fl + 1) z0 in
    List.iteri (fun i x -> a.(i + 1) <- zadd a.(i) (dur_of x)) fl;
    a in
  let bad = ref "" in
  let fail s = if !bad = "" then bad := s in
  (* after a self-start the harness prints times relative to the smallest DoAt time returned;
     when no such time was returned there is no base to compare start times with *)
  let have_base = explicit || not (List.mem "tok=-" (split_blank obs_sum) && List.mem "fin=-" (split_blank obs_sum)) in
  let its = ref its0 in
  let started = ref explicit in
  let cur_left () =
    if !started then abs_left now !its
    else if List.exists is_window its0 then z_of_int (-1) else z_of_int (List.length its0) in
  let pend = Array.make (g + 2) PNone in
  let note_change () =
    let v = cur_left () in
    Array.iteri (fun i p -> match p with PL l -> pend.(i) <- PL (v :: l) | _ -> ()) pend in
  if not summary_only then
    List.iter (fun e ->
      match String.split_on_char '.' e with
      | [gs; "c"; "N"] -> pend.(int_of_string gs) <- PN None
      | [gs; "c"; "L"] -> pend.(int_of_string gs) <- PL [cur_left ()]
      | [gs; "r"; "P"] -> fail ("panic-in-goroutine-" ^ gs)
      | [gs; "r"; "N"; v] ->
          let gi = int_of_string gs in
          let (t, ok) = (match String.split_on_char ':' v with [t; o] -> (z_of_string t, o = "1") | _ -> (z0, false)) in
          (match pend.(gi) with
           | PN (Some (t', ok', u)) ->
               if ok <> ok' then fail "next-result-differs-from-leaf-result"
               else if ok then (if not u && not (zeq t t') then fail "next-time-differs-from-leaf-time")
               else begin
                 if not (zeq t fin0) then fail (Printf.sprintf "finish-time got %s want %s" (zs t) (zs fin0));
                 let (_, ok2) = abs_next now fin0 !its in
                 if ok2 then fail "finished-reported-while-a-token-remains"
               end
           | _ -> fail "next-returned-without-leaf-operation");
          pend.(gi) <- PNone
      | [gs; "r"; "L"; v] ->
          let gi = int_of_string gs in
          (match pend.(gi) with
           | PL l -> if not (List.exists (fun x -> zs x = v) l) then
                 fail (Printf.sprintf "left got %s want one of {%s}" v (String.concat "," (List.sort_uniq compare (List.map zs l))))
           | _ -> fail "left-return-without-call");
          pend.(gi) <- PNone
      | [gs; js; "S"; v] ->
          let j = int_of_string js in
          if j >= 0 && j < Array.length wr && have_base then begin
            let want = starts.(wr.(j).w_first) in
            if not (zeq (z_of_string v) want) then fail (Printf.sprintf "part-%d-started-at %s want %s" j v (zs want))
          end
      | [gs; js; "N"; v] ->
          let gi = int_of_string gs and j = int_of_string js in
          let (t, ok) = (match String.split_on_char ':' v with [t; o] -> (z_of_string t, o = "1") | _ -> (z0, false)) in
          if not !started then begin started := true; note_change () end;
          let in_left = (match pend.(gi) with PL _ -> true | _ -> false) in
          if ok then begin
            let u = j < Array.length wr && wr.(j).w_unl in
            let wu = from_window now !its in
            let ((its', t'), ok') = abs_next now fin0 !its in
            if not ok' then fail "token-handed-out-after-exhaustion"
            else if u <> wu then fail "token-from-wrong-kind-of-part"
            else if not (u && zeq t' now) && not (zeq t t') then fail (Printf.sprintf "token-time got %s want %s" (zs t) (zs t'));
            its := its';
            note_change ();
            if in_left then fail "token-consumed-by-Left"
          end;
          if not in_left then pend.(gi) <- PN (Some (t, ok, ok && j < Array.length wr && wr.(j).w_unl && zlt past t))
      | _ -> ()) events;
  let nparts = List.length fl in
  let v =
    if not !leaf_hyp_ok then leaf_bad ()
    else if String.length obs_sum >= 5 && String.sub obs_sum 0 5 = "tbl=0" then "ok"
    else if obs = "hang" then "BAD:hang"
    else if !bad <> "" then "BAD:" ^ !bad
    else if drop_mono (strip_conf obs_sum) = drop_mono spec_sum && strip_conf obs_sum <> spec_sum then
      (* only the per-caller monotonicity bit differs *)
      (if (not explicit) && has_u obs_sum then "BAD:nowait-time-decreases" else "BAD:time-decreases")
    else if strip_conf obs_sum <> spec_sum then begin
      let a = Array.of_list (split_blank (strip_conf obs_sum)) and b = Array.of_list (split_blank spec_sum) in
      let i = ref 0 in
      while !i < Array.length a && !i < Array.length b && a.(!i) = b.(!i) do incr i done;
      let cut s = if String.length s > 60 then String.sub s 0 60 ^ "..." else s in
      Printf.sprintf "BAD:summary got %s want %s" (cut (if !i < Array.length a then a.(!i) else "end")) (cut (if !i < Array.length b then b.(!i) else "end"))
    end
    else "ok" in
  let pred_sum =
    if explicit && conformable tn && String.length pred_sum > 5 && String.sub pred_sum 0 9 = "tbl=1 tok" then
      (* obs carries the constant field conf=1; a replay that does not conform shows up as a disagreement *)
      Str.global_replace (Str.regexp " pan=0$") (" pan=0 " ^ conform tn c g events) pred_sum
    else if String.length pred_sum > 9 && String.sub pred_sum 0 9 = "tbl=1 tok" then pred_sum ^ " conf=1" else pred_sum in
  let pred = if log = "" then pred_sum else pred_sum ^ " | " ^ log in
  (pred, v, nparts >= 2 && g >= 2 && total_n >= 2)


(* race cases: finite trees, bare leaves, many iterations; every iteration must show the whole
   token multiset, the finish time, a final Left of 0, one callback, no negative or oversized
   Left, per-caller monotone times and stability after exhaustion *)
(* srace ([self] = true): no Start, the overlapping first Next calls start the schedule; times are relative
   to the start instant re-derived from the final finish time, extra field start=1 *)
let race_case ?(self = false) (tree : string) (obs : string) : string * string * bool =
  leaf_hyp_ok := true;
  let c = cfg_of (parse_tree tree) in
  let fl = flatten_cfg c in
  let (its, fin) = items_from z0 fl in
  let render toks fin lq =
    let toks = List.sort ZT.compare (List.map zt_of_z toks) in
    Printf.sprintf "tok=%s fin=%s lq=%s cb=1%s lneg=0 lover=0 mono=1 stable=1"
      (if toks = [] then "-" else String.concat "," (List.map ZT.to_string toks)) (zs fin) lq
      (if self then " start=1" else "") in
  let spec =
    if List.exists is_window its then "unsupported-unlimited-part"
    else render (List.filter_map (function IT t -> Some t | IW _ -> None) its) fin "0" in
  let fuel = S (size_cfg c) in
  let pred =
    let now = if self then z0 else past in
    match build fuel now c with
    | Ok s0 ->
        (match (if self then Ok s0 else s_start z0 s0) with
         | Ok s1 ->
             let rec drain s toks n =
               if n > 100000 then "model-does-not-finish" else
               match s_next fuel now s with
               | Ok ((s', t), true) -> drain s' (t :: toks) (n + 1)
               | Ok ((s', t), false) ->
                   (match s_left fuel now s' with
                    | Ok (_, k) -> render toks t (zs k)
                    | _ -> "left-panics")
               | _ -> "next-panics" in
             drain s1 [] 0
         | _ -> "start-panics")
    | Panic k -> "Pctor:" ^ pk k
    | OutOfFuel -> "fuel" in
  let v =
    if not !leaf_hyp_ok then leaf_bad ()
    else if obs = spec then "ok"
    else begin
      let a = Array.of_list (split_blank obs) and b = Array.of_list (split_blank spec) in
      let i = ref 0 in
      while !i < Array.length a && !i < Array.length b && a.(!i) = b.(!i) do incr i done;
      let cut s = if String.length s > 60 then String.sub s 0 60 ^ "..." else s in
      let got = if !i < Array.length a then a.(!i) else "end" in
      if got = "var" then begin
        (* name the first field of the deviating iteration that is not what the stream says *)
        let dev =
          match Str.bounded_split (Str.regexp_string " VERSUS ") obs 2 with
          | [fst; snd] ->
              let fstf = (match split_blank fst with "var" :: r -> r | r -> r) in
              let pick l = (match List.find_opt (fun (x, y) -> x <> y)
                                    (List.filter_map (fun x -> x)
                                       (List.mapi (fun k x -> if k < Array.length b then Some (x, b.(k)) else None) l)) with
                            | Some (x, _) -> Some (List.hd (String.split_on_char '=' x))
                            | None -> None) in
              (match pick (split_blank snd) with
               | Some f -> f
               | None -> (match pick fstf with Some f -> f | None -> "?"))
          | _ -> "?" in
        Printf.sprintf "BAD:iterations-differ-in-%s %s" dev (cut obs)
      end
      else Printf.sprintf "BAD:race got %s want %s" (cut got) (cut (if !i < Array.length b then b.(!i) else "end"))
    end in
  (pred, v, List.length its >= 1)

(* urace cases: one live unlimited part, nobody calls Start; while the window is open the total is
   unknown: every Left negative, every Next a token, the finite tokens in front of the window exactly
   once, no finish callback *)
let urace_case (tree : string) (g : int) (per : int) (obs : string) : string * string * bool =
  leaf_hyp_ok := true;
  let c = cfg_of (parse_tree tree) in
  let fl = flatten_cfg c in
  let (its, _) = items_from z0 fl in
  let rec front acc = function
    | IT t :: r -> front (t :: acc) r
    | rest -> (List.rev acc, rest) in
  let (toks, rest) = front [] its in
  let live = (match rest with IW (_, _) :: _ -> true | _ -> false) in
  let spec =
    if not live then "unsupported-no-window"
    else begin
      let ts = List.sort ZT.compare (List.map zt_of_z toks) in
      let base = (match ts with t :: _ -> t | [] -> ZT.zero) in
      let nf = List.length ts in
      Printf.sprintf "tok=%s nu=%d lbad=0 nok=0 uok=1 mono=1 cb=0"
        (if ts = [] then "-" else String.concat "," (List.map (fun t -> ZT.to_string (ZT.sub t base)) ts))
        (g * per - nf)
    end in
  let v =
    if not !leaf_hyp_ok then leaf_bad ()
    else if obs = spec then "ok"
    else begin
      let b = Array.of_list (split_blank spec) in
      let first_diff l =
        let rec go k = function
          | [] -> None
          | x :: r -> if k < Array.length b && x <> b.(k) then Some (List.hd (String.split_on_char '=' x)) else go (k + 1) r in
        go 0 l in
      let cut s = if String.length s > 80 then String.sub s 0 80 ^ "..." else s in
      match split_blank obs with
      | "var" :: _ ->
          let dev = (match Str.bounded_split (Str.regexp_string " VERSUS ") obs 2 with
            | [fst; snd] ->
                (match first_diff (split_blank snd) with
                 | Some f -> f
                 | None -> (match first_diff (List.tl (split_blank fst)) with Some f -> f | None -> "?"))
            | _ -> "?") in
          Printf.sprintf "BAD:iterations-differ-in-%s %s" dev (cut obs)
      | l -> (match first_diff l with
              | Some f -> Printf.sprintf "BAD:open-window-%s %s" f (cut obs)
              | None -> "BAD:urace " ^ cut obs)
    end in
  (spec, v, g * per >= 2)
