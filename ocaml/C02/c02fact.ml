(* fact cases: K schedules made by one schedule factory decoded from a configuration; every one must
   behave as the schedule of that configuration on ITS OWN operations (projection of the interleaved
   op sequence), independently of its siblings.  Model side: Model/SchedFactory.v ([sys_run] is the
   product of the instances; C02_factory_independent: its projection on instance j is [run_abs] of the
   projected operations) - so each projection is judged by the sequential driver. *)
open Model
open Conv
open C02base

let split_on_bar (s : string) : string list =
  List.map String.trim (Str.split_delim (Str.regexp_string " | ") s)

let fact_case (tree : string) (k : int) (ops : string) (obs : string) : string * string * bool =
  let plans = Array.make k (Buffer.create 16) in
  for j = 0 to k - 1 do plans.(j) <- Buffer.create 16 done;
  let n = String.length ops / 2 in
  for i = 0 to n - 1 do
    let j = Char.code ops.[2 * i] - Char.code '0' in
    if j >= 0 && j < k then Buffer.add_char plans.(j) ops.[2 * i + 1]
  done;
  let segs = Array.of_list (split_on_bar obs) in
  let preds = ref [] and verdict = ref "ok" and nt = ref false in
  for j = 0 to k - 1 do
    let o = if j < Array.length segs then segs.(j) else "missing" in
    let (p, v, t) = seq_case tree (Buffer.contents plans.(j)) o in
    preds := p :: !preds;
    if !verdict = "ok" && v <> "ok" then begin
      let why = if String.length v > 4 && String.sub v 0 4 = "BAD:" then String.sub v 4 (String.length v - 4) else v in
      verdict := Printf.sprintf "BAD:factory-made schedule %d of %d: %s" j k why
    end;
    if t then nt := true
  done;
  if Array.length segs <> k && !verdict = "ok" then verdict := "BAD:observation-shape";
  (String.concat " | " (List.rev !preds), !verdict, !nt && k >= 2)
