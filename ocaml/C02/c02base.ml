(* Shared part of the driver of the extracted C02 model (module Model = coq/extracted/C02_model.ml).
   Case / observation formats: harness/cmd/hC02/main.go. *)
open Model
open Conv

let past = z_of_string "1000000000000000"
let z0 = z_of_int 0
let zs (x : z) = string_of_z x
let zeq (a : z) (b : z) = ZT.equal (zt_of_z a) (zt_of_z b)
let zlt (a : z) (b : z) = ZT.lt (zt_of_z a) (zt_of_z b)
let zsub a b = z_of_zt (ZT.sub (zt_of_z a) (zt_of_z b))
let zadd a b = z_of_zt (ZT.add (zt_of_z a) (zt_of_z b))

(* ---------------------------------------------------------------- tree text -> cfg *)
type tnode = { kind : string; p : string list; tbl : string list; kids : tnode list }

let parse_tree (s : string) : tnode =
  let n = String.length s in
  let i = ref 0 in
  let peek () = if !i < n then s.[!i] else '\000' in
  let ident () =
    let j = !i in
    while !i < n && s.[!i] >= 'a' && s.[!i] <= 'z' do incr i done;
    String.sub s j (!i - j) in
  let int () =
    let j = !i in
    if peek () = '-' then incr i;
    while !i < n && s.[!i] >= '0' && s.[!i] <= '9' do incr i done;
    String.sub s j (!i - j) in
  let rec node () =
    let kind = ident () in
    if kind = "comp" then begin
      incr i;
      let kids = ref [] in
      while peek () <> ')' do
        kids := node () :: !kids;
        if peek () = ';' then incr i
      done;
      incr i;
      { kind; p = []; tbl = []; kids = List.rev !kids }
    end else begin
      let p = ref [] in
      while peek () = ':' do incr i; p := int () :: !p done;
      let tbl = ref [] and kids = ref [] in
      if peek () = '=' then begin
        incr i;
        if kind = "step" then kids := [node ()]
        else if peek () = '-' && (!i + 1 >= n || s.[!i + 1] < '0' || s.[!i + 1] > '9') then incr i
        else begin
          tbl := [int ()];
          while peek () = ',' do incr i; tbl := int () :: !tbl done
        end
      end;
      { kind; p = List.rev !p; tbl = List.rev !tbl; kids = !kids }
    end in
  let t = node () in
  if !i <> n then failwith "trailing text in tree";
  t

let zero_at = fun (_ : nat) -> z0

(* leaf hypothesis of the C02 theorems: offsets non-decreasing, >= 0 and bounded by the duration *)
let leaf_hyp_ok = ref true
let leaf_hyp_why = ref ""
(* what the clause "every token of a part lies within the part's window, times never decrease" fails on *)
let leaf_bad () = "BAD:part-tokens-outside-window-or-decreasing " ^ !leaf_hyp_why

let rec cfg_of (t : tnode) : cfg =
  match t.kind, t.p with
  | "once", [n] -> CDoAt (nat_of_int (int_of_string n), z0, zero_at)
  | ("const" | "line"), _ ->
      let dur = z_of_string (List.nth t.p (List.length t.p - 1)) in
      let arr = Array.of_list (List.map z_of_string t.tbl) in
      Array.iteri (fun k x ->
        let bad why =
          if !leaf_hyp_ok then begin
            leaf_hyp_ok := false;
            leaf_hyp_why := Printf.sprintf "%s:%s token %d at +%s %s" t.kind (String.concat ":" t.p) k (zs x) why
          end in
        if zlt x z0 then bad "before the start of its part"
        else if zlt dur x then bad ("after the finish of its part +" ^ zs dur)
        else if k > 0 && zlt x arr.(k - 1) then bad ("earlier than the token before it +" ^ zs arr.(k - 1))) arr;
      let at = fun (k : nat) -> let k = int_of_nat k in if k < Array.length arr then arr.(k) else z0 in
      CDoAt (nat_of_int (Array.length arr), dur, at)
  | "unl", [d] -> CUnlim (z_of_string d)
  | "comp", _ -> CComp (List.map cfg_of t.kids)
  | "step", _ -> cfg_of (List.hd t.kids)
  | "istep", [f; tt; s; d] ->
      instance_step (nat_of_int (int_of_string f)) (nat_of_int (int_of_string tt)) (nat_of_int (int_of_string s)) (z_of_string d)
  | _ -> failwith ("bad node " ^ t.kind)

let pk = function PStarted -> "started" | PNotFinished -> "notfinished" | PIndex -> "index"

let is_unl = function Unlim (_, _) -> true | _ -> false
let head_is_unl (s : sched) = match flatten s with x :: _ -> is_unl x | [] -> false

(* does the abstract Next at [now] take its token from a window? *)
let rec from_window now (its : item list) =
  match its with
  | IW (_, f) :: r -> if zlt now f then true else from_window now r
  | _ -> false

(* ---------------------------------------------------------------- seq *)
type fld = FS | FN of z * bool | FU | FL of z | FP of string | FW

let render_fields (explicit : bool) (fs : (fld * bool) list) : string =
  let base =
    if explicit then z0
    else List.fold_left (fun acc (f, _) -> match f, acc with
        | FN (t, _), None -> Some t
        | FN (t, _), Some b -> if zlt t b then Some t else acc
        | _ -> acc) None fs |> (function Some b -> b | None -> z0) in
  String.concat " " (List.map (fun (f, cb) ->
    (match f with
     | FS -> "S"
     | FW -> "W"
     | FN (t, ok) -> "N" ^ zs (zsub t base) ^ ":" ^ field_of_bool ok
     | FU -> "Nu"
     | FL k -> "L" ^ zs k
     | FP k -> "P:" ^ k) ^ (if cb then "!" else "")) fs)

let seq_case (tree : string) (ops : string) (obs : string) : string * string * bool =
  leaf_hyp_ok := true;
  let c = cfg_of (parse_tree tree) in
  let explicit = String.contains ops 'S' in
  let now = if explicit then past else z0 in
  let fuel = S (size_cfg c) in
  let opl = List.init (String.length ops) (String.get ops) in
  (* ----- code-shaped model *)
  let pred =
    match build fuel now c with
    | Panic k -> "tbl=1 Pctor:" ^ pk k
    | OutOfFuel -> "tbl=1 fuel"
    | Ok s0 ->
        let rec go ?(now = now) s cb ops acc =
          let go ?(now = now) = go ~now in
          match ops with
          | [] -> List.rev acc
          | o :: r ->
              let fired c' = int_of_nat c'.cb_calls <> int_of_nat cb.cb_calls in
              (match o with
               | 'W' -> go ~now:(zadd now past) s cb r ((FW, false) :: acc)   (* the clock jumps past every short window *)
               | 'S' -> (match s_start z0 s with
                         | Ok s' -> go s' cb r ((FS, false) :: acc)
                         | Panic k -> List.rev ((FP (pk k), false) :: acc)
                         | OutOfFuel -> List.rev ((FP "fuel", false) :: acc))
               | 'N' -> (match s_next fuel now s with
                         | Ok ((s', t), ok) ->
                             let cb' = cb_after_next ok cb in
                             (* a token "now" of an unlimited part prints as u; its start time (when that
                                is still ahead of the clock) is an ordinary time *)
                             let f = if ok && head_is_unl s' && zeq t now then FU else FN (t, ok) in
                             go s' cb' r ((f, fired cb') :: acc)
                         | Panic k -> List.rev ((FP (pk k), false) :: acc)
                         | OutOfFuel -> List.rev ((FP "fuel", false) :: acc))
               | _ -> (match s_left fuel now s with
                       | Ok (s', k) ->
                           let cb' = cb_after_left k cb in
                           go s' cb' r ((FL k, fired cb') :: acc)
                       | Panic k -> List.rev ((FP (pk k), false) :: acc)
                       | OutOfFuel -> List.rev ((FP "fuel", false) :: acc))) in
        "tbl=1 " ^ render_fields explicit (go s0 cb_init opl [])
  in
  (* ----- specification: the abstract token stream of the configuration *)
  let spec =
    let fl = flatten_cfg c in
    let rec go ?(now = now) (a : astate) cb ops acc =
      let go ?(now = now) = go ~now in
      match ops with
      | [] -> List.rev acc
      | o :: r ->
          let fired c' = int_of_nat c'.cb_calls <> int_of_nat cb.cb_calls in
          (match o with
           | 'W' -> go ~now:(zadd now past) a cb r ((FW, false) :: acc)
           | 'S' -> if a.a_started then List.rev ((FP "started", false) :: acc)
                    else go (a_start z0 a) cb r ((FS, false) :: acc)
           | 'N' ->
               let a1 = if a.a_started then a else a_start now a in
               let u = from_window now a1.a_items in
               let ((its, t), ok) = abs_next now a1.a_fin a1.a_items in
               let cb' = cb_after_next ok cb in
               let f = if ok && u && zeq t now then FU else FN (t, ok) in
               go { a1 with a_started = true; a_items = its } cb' r ((f, fired cb') :: acc)
           | _ ->
               let k =
                 if a.a_started then abs_left now a.a_items
                 else begin
                   let (its, _) = items_from z0 a.a_flat in
                   if List.exists is_window its then z_of_int (-1) else z_of_int (List.length its)
                 end in
               let cb' = cb_after_left k cb in
               go a cb' r ((FL k, fired cb') :: acc)) in
    "tbl=1 " ^ render_fields explicit (go (a_init fl) cb_init opl [])
  in
  let nparts = List.length (flatten_cfg c) in
  let v =
    if not !leaf_hyp_ok then leaf_bad ()
    else if obs = spec then "ok"
    else begin
      (* name the first differing field *)
      let a = Array.of_list (split_blank obs) and b = Array.of_list (split_blank spec) in
      let i = ref 0 in
      while !i < Array.length a && !i < Array.length b && a.(!i) = b.(!i) do incr i done;
      let got = if !i < Array.length a then a.(!i) else "end" and want = if !i < Array.length b then b.(!i) else "end" in
      if got = "tbl=0" then "ok" (* stale table in the case line: reported as a disagreement, not a violation *)
      else Printf.sprintf "BAD:op%d got %s want %s" !i got want
    end in
  (* times returned to the (single) caller never decrease.  With an explicit start everything lies
     in the past of the clock; after a self-start the caller of this harness does not wait for the
     token times, so a token "now" of an unlimited part can precede an earlier (future) token. *)
  let v =
    if v <> "ok" then v
    else begin
      let last = ref None and dec = ref false and nowait = ref false in
      List.iter (fun f ->
        let f = if String.length f > 0 && f.[String.length f - 1] = '!' then String.sub f 0 (String.length f - 1) else f in
        if String.length f > 1 && f.[0] = 'N' then begin
          if f = "Nu" then begin
            (match !last with Some t when (not explicit) && ZT.gt t ZT.zero -> dec := true; nowait := true | _ -> ())
          end else begin
            let t = ZT.of_string (List.hd (String.split_on_char ':' (String.sub f 1 (String.length f - 1)))) in
            (match !last with Some t0 when ZT.lt t t0 -> dec := true | _ -> ());
            last := Some t
          end
        end) (split_blank obs);
      if !nowait then "BAD:nowait-time-decreases" else if !dec then "BAD:time-decreases" else "ok"
    end in
  (pred, v, nparts >= 2 && String.contains ops 'N')

