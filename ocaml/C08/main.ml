open Model
open Conv

(* case:  cell <kind> <preload> <limit> <passes> <n> <consumers> <cancel> [<eof> [<fs>]]
          sized <kind> <preload> <limit> <passes> <n> <consumers> <cancel> <eof> <fs> <maxammosize> <pads> <sizes>
   obs :  <count> <seq> <closed|blocked> <run class> <handles h<opens>/<closes>/<late> | ->
   The prediction is the run of the model WITH the handle of the ammo file (Model/ProviderFile.v
   run_file) on the kind of file system of the case; the verdict is spec_b on the observation. *)

let kind_of (k : string) (preload : bool) : pkind =
  match k with
  | "uri" -> KHttp (DUri, preload)
  | "uripost" -> KHttp (DUripost, preload)
  | "raw" -> KHttp (DRaw, preload)
  | "jsonl" -> KHttp (DJsonl, preload)
  | "jsona" -> KHttp (DJsonArr, preload)
  | "scenhttp" | "scengrpc" -> KScenario
  | "grpcjson" -> KGrpcJson
  | "decode" -> KDecode
  | _ -> failwith "kind"

let rec err_class (e : err) : string =
  match e with
  | EAmmoLimit -> "err:limit"
  | EPassLimit -> "err:passes"
  | ENoAmmo -> "err:noammo"
  | ECtx -> "canceled"
  | EUnexpected -> "err:other"
  | EScan -> "err:other"
  | EOpen -> "err:other"
  | EPanic -> "panic"
  | ENoAmmoText -> "err:other"
  | ELoad e' -> (match err_class e' with "panic" -> "panic" | c -> c)  (* %w keeps errors.Is *)

let out_class (o : outcome) : string =
  match o with Ok -> "ok" | Failed e -> err_class e | OutOfFuel -> "hang"

let seq_string (l : int list) : string =
  if l = [] then "-" else String.concat "," (List.map string_of_int l)

(* Run's result with the handle: a failed read of a closed handle / a failed deferred Close is
   "file already closed" (os.ErrClosed) *)
let fout_class (o : fout) : string =
  match o with FAs o' -> out_class o' | FUseErr -> "err:closed" | FCloseErr _ -> "err:closed"

let render (sorted : bool) (fr : fresult) : string =
  let r = fr.f_base in
  let l = List.map int_of_nat (ids r.delivered) in
  let l = if sorted then List.sort compare l else l in
  let h = fr.f_handle in
  Printf.sprintf "%d %s %s %s h%d/%d/%d" (List.length l) (seq_string l)
    (if r.closed then "closed" else "blocked") (fout_class fr.f_out)
    (int_of_nat h.h_opens) (int_of_nat h.h_closes) (int_of_nat h.h_late)

let runclass_of (s : string) : runclass =
  match s with "ok" -> ROk | "canceled" | "deadline" -> RCanceled | "hang" -> RHang | "construct" -> RRefused | _ -> RErr


(* a provider cell. [sz] = None: case kind `cell`; Some (maxammosize, sizes of the entries' lines):
   case kind `sized` (Model/ProviderScan.v run_file_sz / spec_sz) *)
let predict_cell ?(chosen = []) kind pre lim pas n cons cancel rest (sz : (n * n list) option) (obs : string) : string * string * bool =
      let fs = (match rest with [_eof; "1"] -> FsOS | _ -> FsMem) in
      let run k cf es c fuel =
        (match sz with
         | None -> run_file fs k cf es c fuel
         | Some (mx, szs) -> run_file_sz fs k mx cf es szs c fuel) in
      let n = int_of_string n and lim = int_of_string lim and pas = int_of_string pas in
      let cons = int_of_string cons in
      let es = List.init n (fun i -> { e_tag = nat_of_int i; e_id = nat_of_int i }) in
      let cf = { limit = nat_of_int lim; passes = nat_of_int pas; chosen = List.map nat_of_int chosen } in
      (* with a chosencases filter the bounds count what is delivered: C08 is judged on the matching entries *)
      let es_spec = List.filter (fun e -> is_chosen e.e_tag cf.chosen) es in
      let k = kind_of kind (pre = "1") in
      let sorted = cons > 1 in
      let ocount, oseq, oafter, orun =
        (match split_blank obs with
         | a :: b :: c :: d :: _ -> (int_of_string a, b, c, d)
         | _ -> (0, "-", "?", "?")) in
      let obs_ids = if oseq = "-" then [] else List.map int_of_string (String.split_on_char ',' oseq) in
      (* "pre": the context was cancelled before Run was called = cancelled after 0 items *)
      (* a leading "d": the context ended the way a deadline does: the context error is DeadlineExceeded *)
      let deadline = String.length cancel > 1 && cancel.[0] = 'd' in
      let cancel = if deadline then String.sub cancel 1 (String.length cancel - 1) else cancel in
      let render sorted fr =
        let s = render sorted fr in
        if deadline then Str.global_replace (Str.regexp_string " canceled ") " deadline " s else s in
      let cancel_m = if cancel = "-" then None else if cancel = "pre" then Some 0 else Some (int_of_string cancel) in
      let bnd = (match bound cf.limit cf.passes (nat_of_int (List.length es_spec)) with Some b -> Some (int_of_nat b) | None -> None) in
      (* every model needs at most 3 steps per delivery plus 2n+6 (proved: c08_spec); 50x margin *)
      let fuel = nat_of_int (50 * ((max ocount (match bnd with Some b -> b | None -> 0)) + n + 2)) in
      (* model: the context is seen cancelled once [ocount] items were sent, or not at all *)
      let pred =
        if constructor_refuses k es then "0 - closed construct -" else
        (match cancel_m with
         | None -> render sorted (run k cf es None fuel)
         | Some _ ->
             let p_c = render sorted (run k cf es (Some (nat_of_int ocount)) fuel) in
             if bnd = None && es_spec <> [] then p_c   (* the run that is not cancelled never ends *)
             else begin
               let p_none = render sorted (run k cf es None fuel) in
               if p_none = obs then p_none else p_c
             end) in
      let cm = (match cancel_m with None -> None | Some m -> Some (nat_of_int m)) in
      let ok =
        (match sz with
         | None -> spec_b cf.limit cf.passes es_spec cm
                     (not sorted) (List.map nat_of_int obs_ids) (oafter = "closed") (runclass_of orun)
         | Some (mx, szs) -> spec_sz k mx szs cf.limit cf.passes es cm
                     (not sorted) (List.map nat_of_int obs_ids) (oafter = "closed") (runclass_of orun)) in
      let accepted = (match sz with None -> true | Some (mx, szs) -> all_fit_b k mx szs) in
      let why =
        if not accepted then "an entry does not fit the configured token limit: want consumers released, Run returns" else
        (match bnd with
         | Some b -> Printf.sprintf "want %d delivered (cyclic prefix), closed, run ok" b
         | None -> "want cyclic prefix, closed and prompt return after cancel") in
      (pred, verdict (ocount = List.length obs_ids && ok) why, (lim > 0 || pas > 0) && n >= 1 && accepted)

let predict (c : string) (obs : string) : string * string * bool =
  match split_blank c with
  | "cell" :: kind :: pre :: lim :: pas :: n :: cons :: cancel :: rest ->   (* the EOF layout does not change the entries *)
      predict_cell kind pre lim pas n cons cancel rest None obs
  | ["chosen"; kind; pre; lim; pas; n; cons; cancel; eof; fs; mask] ->
      let chosen = if mask = "-" then [] else List.map int_of_string (String.split_on_char ',' mask) in
      predict_cell ~chosen kind pre lim pas n cons cancel [eof; fs] None obs
  | ["nofile"; kind; lim; pas; _cons; c; _fs] ->
      (* Model/ProviderFrame.v: the source does not open *)
      let cf = { limit = nat_of_int (int_of_string lim); passes = nat_of_int (int_of_string pas); chosen = [] } in
      let es = [ { e_tag = O; e_id = O } ] in
      let r = run_framed (kind_of kind false) false cf es (if c = "pre" then Some O else None) (nat_of_int 100) in
      let pred = Printf.sprintf "%d %s %s %s" (List.length r.delivered) (seq_string (List.map int_of_nat (ids r.delivered)))
          (if r.closed then "closed" else "blocked") (out_class r.out) in
      let ocount, oafter, orun =
        (match split_blank obs with [a; _; c; d] -> (int_of_string a, c, d) | _ -> (1, "?", "?")) in
      (* no ammo source: outside C08's quantifier; nothing delivered, consumers released, Run returns *)
      let ok = spec_b cf.limit cf.passes [] None true [] (oafter = "closed") (runclass_of orun) in
      (pred, verdict (ocount = 0 && ok) "want nothing delivered, consumers released, Run returns", false)
  | ["dec"; kind; lim; pas; n; _eof] ->
      let n = int_of_string n and lim = int_of_string lim and pas = int_of_string pas in
      let es = List.init n (fun i -> { e_tag = nat_of_int i; e_id = nat_of_int i }) in
      let dk = (match kind_of kind false with KHttp (d, _) -> d | _ -> failwith "kind") in
      let max = lim + pas * n + 3 * n + 5 in
      (* at most 3 steps per item (proved contracts) *)
      let fuel_for m = nat_of_int (4 * (m + n + 2)) in
      let rec take m l = if m = 0 then [] else (match l with [] -> [] | x :: r -> x :: take (m - 1) r) in
      let (l, e) = dec_run dk (nat_of_int lim) (nat_of_int pas) es (fuel_for max) dinit in
      let l = take max (List.map int_of_nat (ids l)) in
      let ecl = if List.length l >= max then "-" else (match e with Some e -> err_class e | None -> "hang") in
      let pred = Printf.sprintf "%d %s %s" (List.length l) (seq_string l) ecl in
      let ocount, oseq, oerr =
        (match split_blank obs with [a; b; c] -> (int_of_string a, b, c) | _ -> (0, "-", "?")) in
      let obs_ids = if oseq = "-" then [] else List.map int_of_string (String.split_on_char ',' oseq) in
      let ok = spec_dec (nat_of_int lim) (nat_of_int pas) es (nat_of_int max) (List.map nat_of_int obs_ids)
          (oerr = "err:limit" || oerr = "err:passes") (oerr <> "-") in
      (pred, verdict (ocount = List.length obs_ids && ok)
         "want the cyclic prefix of length min of the non-zero bounds, then ErrAmmoLimit / ErrPassLimit", lim > 0 || pas > 0)
  | ["sized"; kind; pre; lim; pas; n; cons; cancel; eof; fs; maxsz; _pads; sizes] ->
      (* sizes: length of the longest line of each entry as rendered (what a line scanner must hold) *)
      let szs = List.map n_of_string (String.split_on_char ',' sizes) in
      predict_cell kind pre lim pas n cons cancel [eof; fs] (Some (n_of_string maxsz, szs)) obs
  | "engine" :: _ | "enginef" :: _ ->
      (* enginef: with a chosencases list; the bounds and the shots are judged on the chosen entries *)
      let kind, pre, lim, pas, n, rest, chosen =
        (match split_blank c with
         | ["enginef"; kind; pre; lim; pas; n; _inst; fs; mask] ->
             (kind, pre, lim, pas, n, [fs], (if mask = "-" then [] else List.map int_of_string (String.split_on_char ',' mask)))
         | _ :: kind :: pre :: lim :: pas :: n :: _inst :: rest -> (kind, pre, lim, pas, n, rest, [])
         | _ -> failwith "engine case") in
      let fs = (match rest with ["1"] -> FsOS | _ -> FsMem) in
      let n = int_of_string n and lim = int_of_string lim and pas = int_of_string pas in
      let es_all = List.init n (fun i -> { e_tag = nat_of_int i; e_id = nat_of_int i }) in
      let cf = { limit = nat_of_int lim; passes = nat_of_int pas; chosen = List.map nat_of_int chosen } in
      let es_spec = List.filter (fun e -> is_chosen e.e_tag cf.chosen) es_all in
      let k = kind_of kind (pre = "1") in
      let bnd = (match bound cf.limit cf.passes (nat_of_int (List.length es_spec)) with Some b -> int_of_nat b | None -> 0) in
      let bnd = if es_spec = [] then 0 else bnd in
      let es = es_all in
      let fr = run_file fs k cf es None (nat_of_int (50 * (bnd + n + 2))) in
      let r = fr.f_base in
      let l = List.sort compare (List.map int_of_nat (ids r.delivered)) in
      (* the engine finishes successfully iff the provider's Run returns nil (the loop AND the
         deferred Close of the ammo file) with its sink closed *)
      let pred = Printf.sprintf "%d %s %s %s" (List.length l) (seq_string l)
          (if f_clean fr && r.closed then "ok" else if r.closed then "err:" ^ fout_class fr.f_out else "hang")
          (if r.closed then "1" else "0") in
      let oshots, oseq, ores, owait =
        (match split_blank obs with [a; b; c; d] -> (int_of_string a, b, c, d) | _ -> (0, "-", "?", "?")) in
      let obs_ids = if oseq = "-" then [] else List.map int_of_string (String.split_on_char ',' oseq) in
      let ok = spec_b cf.limit cf.passes es_spec None false (List.map nat_of_int obs_ids) (owait = "1")
          (if ores = "ok" then ROk else if ores = "hang" then RHang else RErr) in
      (pred, verdict (oshots = List.length obs_ids && ok)
         (if es_spec = [] then "nothing chosen: want no shot, Engine.Run returns, Engine.Wait returns" else
          Printf.sprintf "want %d shots (one per ammo of the cyclic prefix), Engine.Run nil, Engine.Wait returns" bnd), true)
  | ["enginec"; kind; pre; lim; pas; n; inst; fs; at] ->
      (* the engine's context is cancelled before Engine.Run (at = 0) / inside shot number at: the shots
         are a cyclic prefix of at least [at] items (the instances stop within a few shots),
         Engine.Run returns context.Canceled, Engine.Wait returns *)
      let fs = if fs = "1" then FsOS else FsMem in
      let n = int_of_string n and lim = int_of_string lim and pas = int_of_string pas and at = int_of_string at in
      let es = List.init n (fun i -> { e_tag = nat_of_int i; e_id = nat_of_int i }) in
      let cf = { limit = nat_of_int lim; passes = nat_of_int pas; chosen = [] } in
      let k = kind_of kind (pre = "1") in
      let oshots, oseq, ores, owait =
        (match split_blank obs with [a; b; c; d] -> (int_of_string a, b, c, d) | _ -> (0, "-", "?", "?")) in
      let obs_ids = if oseq = "-" then [] else List.map int_of_string (String.split_on_char ',' oseq) in
      let fr = run_file fs k cf es (Some (nat_of_int oshots)) (nat_of_int (50 * (oshots + n + 2))) in
      let l = List.sort compare (List.map int_of_nat (ids fr.f_base.delivered)) in
      let l = List.filteri (fun i _ -> i < oshots) l in
      let pred = Printf.sprintf "%d %s err:canceled %s" (List.length l) (seq_string l) (if fr.f_base.closed then "1" else "0") in
      let ok = spec_engine_cancel cf.limit cf.passes es (nat_of_int at) (nat_of_int (int_of_string inst))
          (List.map nat_of_int obs_ids) (owait = "1")
          (match ores with "ok" -> ROk | "err:canceled" -> RCanceled | "hang" -> RHang | _ -> RErr) in
      (* which acquired items were never shot is the scheduler's choice: the prediction takes the observed shots *)
      let pred = if ok then Printf.sprintf "%d %s err:canceled %s" oshots oseq (if fr.f_base.closed then "1" else "0") else pred in
      (pred, verdict (oshots = List.length obs_ids && ok)
         "want shots from the cyclic prefix (all but at most one item per instance), Engine.Run back, Engine.Wait returns", true)
  | _ -> ("unknown-case", "BAD:unknown-case", false)

let () = run_cases predict
