(* Driver of the extracted C20 model (coq/Model/GrpcCall.v + GrpcExample.v).
   Case / observation formats: see harness/cmd/hC20/main.go. *)
open Model
open Conv

let split c s = if s = "" then [] else String.split_on_char c s
let bytes_of_field s = bytes_of_hex s

(* ---------- rendering in the harness' canonical forms ---------- *)

let render_msg (m : msg_c) : string =
  if m = [] then "-"
  else
    String.concat ","
      (List.map
         (fun (name, v) ->
           let nm = String.concat "" (List.map (fun b -> String.make 1 (Char.chr (int_of_n b))) name) in
           match v with
           | MStr s -> nm ^ ":s:" ^ hex_of_bytes s
           | MInt z -> nm ^ ":i:" ^ string_of_z z)
         m)

let render_md (m : gmeta) : string =
  let items = List.map (fun (k, v) -> hex_of_bytes k ^ "=" ^ hex_of_bytes v) (wire_meta m) in
  if items = [] then "-" else String.concat "," (List.sort compare items)

let timeout_s (t : z) : string =
  (* nanoseconds -> seconds, rounded *)
  let ns = zt_of_z t in
  ZT.to_string (ZT.div (ZT.add ns (ZT.of_int 500000000)) (ZT.of_string "1000000000"))

let call_key (s : msg_c sent) : string =
  hex_of_bytes s.s_method ^ "/" ^ render_msg s.s_message ^ "/" ^ render_md s.s_meta

(* ---------- the target's answers, read back from the observation ---------- *)

(* every  method/msg/md/timeout/status  item of the observation -> (key, status) *)
let observed_calls (items : string list) : (string * string) list =
  List.filter_map
    (fun c ->
      match String.split_on_char '/' c with
      | [m; msg; md; _; st] -> Some (m ^ "/" ^ msg ^ "/" ^ md, st)
      | _ -> None)
    items

let respond_of (calls : (string * string) list) (s : msg_c sent) : n =
  match List.assoc_opt (call_key s) calls with
  | Some st -> n_of_string st
  | None -> n_of_int 2 (* nothing observed: any non-OK status; the mismatch is reported on the call itself *)

let render_call respond (s : msg_c sent) : string =
  call_key s ^ "/" ^ timeout_s s.s_timeout ^ "/" ^ string_of_n (respond s)

let render_outcome respond (code : n) (o : msg_c outcome) : string =
  string_of_n code ^ ";" ^ (match o with Sent s -> render_call respond s | _ -> "-")

(* ---------- oracle: Go's shortest float64 formatting of an integer ---------- *)

(* strconv.FormatFloat(float64(z),'f',-1,64): the shortest decimal that reads back as the same
   float64, nearest to it; exponent form (None) from 1e21 on. *)
let shortest_dec (x : z) : z option =
  let zt = zt_of_z x in
  let f = float_of_string (ZT.to_string zt) in
  if Float.abs f >= 1e21 then None
  else begin
    let rec go p =
      let s = Printf.sprintf "%.*e" (p - 1) f in
      if p >= 17 || float_of_string s = f then s else go (p + 1) in
    let s = go 1 in
    (* s = [-]d.ddddde+XX  ->  exact integer *)
    let neg = s.[0] = '-' in
    let s = if neg then String.sub s 1 (String.length s - 1) else s in
    let epos = String.index s 'e' in
    let mant = String.sub s 0 epos and ex = int_of_string (String.sub s (epos + 1) (String.length s - epos - 1)) in
    let digits = String.concat "" (String.split_on_char '.' mant) in
    let frac = String.length digits - 1 in
    let v =
      if ex >= frac then ZT.mul (ZT.of_string digits) (ZT.pow (ZT.of_int 10) (ex - frac))
      else ZT.div (ZT.of_string digits) (ZT.pow (ZT.of_int 10) (frac - ex)) in
    Some (z_of_zt (if neg then ZT.neg v else v))
  end

(* ---------- parsing case fields ---------- *)

let parse_meta (s : string) : gmeta =
  if s = "-" then []
  else
    List.map
      (fun kv -> match String.split_on_char '=' kv with
         | [k; v] -> (bytes_of_field k, bytes_of_field v)
         | _ -> failwith "meta")
      (split ',' s)

let parse_payload (s : string) : fields =
  if s = "-" || s = "~" then []
  else
    List.map
      (fun f -> match String.split_on_char ':' f with
         | [k; kind; v] ->
             let pv = (match kind with
               | "s" -> PStr (bytes_of_field v)
               | "i" -> PInt (z_of_string v)
               | "r" -> PReal (z_of_string v)
               | "b" -> PBool (v = "1")
               | "n" -> PNull
               | "o" -> PObj
               | _ -> failwith "kind") in
             (bytes_of_field k, pv)
         | _ -> failwith "field")
      (split ',' s)

let parse_entry (s : string) : entry_c =
  match String.split_on_char ';' s with
  | [tag; call; meta; payload] ->
      { e_tag = bytes_of_field tag; e_call = bytes_of_field call; e_meta = parse_meta meta; e_payload = parse_payload payload }
  | _ -> failwith "entry"

let ns_of_ms (ms : string) : z = z_of_zt (ZT.mul (ZT.of_string ms) (ZT.of_int 1000000))

(* which component of two rendered items differs first *)
let diff_component (want : string) (got : string) : string =
  match String.split_on_char ';' want, String.split_on_char ';' got with
  | [wc; wcall], [gc; gcall] ->
      if (wcall = "-") <> (gcall = "-") then (if gcall = "-" then "call-missing" else "call-not-expected")
      else if wcall <> gcall then begin
        match String.split_on_char '/' wcall, String.split_on_char '/' gcall with
        | [wm; wmsg; wmd; wt; ws], [gm; gmsg; gmd; gt; gs] ->
            if wm <> gm then "method" else if wmsg <> gmsg then "message"
            else if wmd <> gmd then begin
              (* which keys differ: only the key literally named "payload" (7061796c6f6164) -> its own family *)
              let items x = if x = "-" then [] else String.split_on_char ',' x in
              let w = items wmd and g = items gmd in
              let d = List.filter (fun i -> not (List.mem i g)) w @ List.filter (fun i -> not (List.mem i w)) g in
              let is_payload_key i = String.length i >= 15 && String.sub i 0 15 = "7061796c6f6164=" in
              if d <> [] && List.for_all is_payload_key d then "metadata-of-key-named-payload" else "metadata"
            end
            else if wt <> gt then "timeout" else if ws <> gs then "status" else "call"
        | _ -> "call-count"
      end
      else if wc <> gc then "sample-code"
      else "same"
  | _ -> "shape"

let first_diff (want : string list) (got : string list) : string =
  let rec go i w g =
    match w, g with
    | [], [] -> "same"
    | x :: w', y :: g' -> if x = y then go (i + 1) w' g' else Printf.sprintf "%s@%d" (diff_component x y) i
    | _ -> Printf.sprintf "count@%d" i
  in
  go 0 want got

let has_big (es : entry_c list) = List.exists (fun e -> not (fields_small e.e_payload)) es

(* calls recorded by the reflection side-car are appended by the harness as  sidecar=<n> *)
let strip_last (prefix : string) (obs : string) : string * string option =
  let pl = String.length prefix in
  match List.rev (split_blank obs) with
  | last :: rest when String.length last >= pl && String.sub last 0 pl = prefix ->
      (String.concat " " (List.rev rest), Some (String.sub last pl (String.length last - pl)))
  | _ -> (obs, None)

let strip_r s = if String.length s > 0 && s.[String.length s - 1] = 'r' then String.sub s 0 (String.length s - 1) else s

(* trailing options of a case: rm=<meta> (reflect_metadata), fl=<plan> (the target's answers: read back
   from the observation, not needed here) *)
let case_rm (opts : string list) : gmeta =
  List.fold_left (fun acc o ->
    if String.length o >= 3 && String.sub o 0 3 = "rm=" then parse_meta (String.sub o 3 (String.length o - 3)) else acc) [] opts
let has_faults (opts : string list) = List.exists (fun o -> String.length o >= 3 && String.sub o 0 3 = "fl=") opts

let rec take n l = if n <= 0 then [] else match l with [] -> [] | x :: r -> x :: take (n - 1) r
let rec drop n l = if n <= 0 then l else match l with [] -> [] | _ :: r -> drop (n - 1) r

(* the connection policy the dial options of MakeGRPCConnect give (Gen/GrpcDialGen.v); options outside
   the model: the bridge obligation fails; the replay goes on with grpc-go's default *)
let policy : policy = match dial_policy gen_dial_options with Some p -> p | None -> no_retry

(* the target as observed: its answer to the i-th call it received (arrival order), provided that call
   is the one asked about; any other status otherwise (the mismatch is reported on the call itself) *)
let target_of (observed : (string * string) list) : msg_c sent list -> msg_c sent -> n =
  let arr = Array.of_list observed in
  fun hist s ->
    let i = List.length hist in
    if i < Array.length arr && fst arr.(i) = call_key s then n_of_string (snd arr.(i)) else n_of_int 2

(* outcomes + sample codes -> items  code;call  with the status the target gave to that call *)
let render_shots target (shots : msg_c outcome list list) (codes : n list list) : string list list =
  let hist = ref [] in
  let rec one os cs = match os, cs with
    | o :: os', c :: cs' ->
        let it = (match o with
          | Sent s ->
              let st = target !hist s in
              hist := !hist @ [s];
              string_of_n c ^ ";" ^ call_key s ^ "/" ^ timeout_s s.s_timeout ^ "/" ^ string_of_n st
          | _ -> string_of_n c ^ ";-") in
        it :: one os' cs'
    | _ -> [] in
  let rec all ss css = match ss, css with
    | os :: ss', cs :: css' -> let x = one os cs in x :: all ss' css'
    | _ -> [] in
  all shots codes

(* ---------- time: think time of scenario steps, latency of the target's answers ---------- *)

(* fl=p<c>[+<ms>].…  -> latency (ns) of the answer to the i-th call the target receives *)
let plan_latencies (opts : string list) : string array =
  List.fold_left (fun acc o ->
    if String.length o >= 4 && String.sub o 0 4 = "fl=p" then
      Array.of_list (List.map (fun slot -> match String.split_on_char '+' slot with [_; ms] -> ms | _ -> "0")
                       (split '.' (String.sub o 4 (String.length o - 4))))
    else acc) [||] opts

let latency_of (lat : string array) : msg_c sent list -> msg_c sent -> z =
  fun hist _ -> let i = List.length hist in if i < Array.length lat then ns_of_ms lat.(i) else ns_of_ms "0"

(* a step of a scenario's requests list: idx | idx~ms | idx^ms *)
let parse_scen_step (s : string) : int * string =
  let cut c = match String.index_opt s c with
    | Some i -> Some (int_of_string (String.sub s 0 i), String.sub s (i + 1) (String.length s - i - 1))
    | None -> None in
  match cut '~' with Some x -> x | None -> (match cut '^' with Some x -> x | None -> (int_of_string s, "0"))

(* the deadline scope of the guns as re-read from the source (Gen/GrpcDialGen.v) *)
let scope : dscope = scope_or_default (deadline_scope gen_timeout_sites (List.map fst gen_invoke_call_options))

let render_tsteps (shots : msg_c tstep list list) : string list list =
  List.map (List.map (fun (c, a) ->
    match a with
    | None -> string_of_n c ^ ";-"
    | Some a -> string_of_n c ^ ";" ^ call_key a.a_call ^ "/" ^ timeout_s a.a_budget ^ "/" ^ string_of_n a.a_status)) shots

let refl_of (evs : msg_c wevent list) : string =
  match List.filter_map (fun e -> match e with WReflect md -> Some (render_md md) | WCall _ -> None) evs with
  | [] -> "none"
  | l -> String.concat "+" (List.sort_uniq compare l)

(* ---------- dial_options.authority: the :authority the servers see ---------- *)
let bytes_of_ascii (s : string) : n list = List.init (String.length s) (fun i -> n_of_int (Char.code s.[i]))
let addr_target = bytes_of_ascii "target" and addr_side = bytes_of_ascii "side"

let expected_auth (c : string) (obs_rest : string) : string =
  let f = split_blank c in
  let configured = List.fold_left (fun acc o ->
    if String.length o >= 3 && String.sub o 0 3 = "au=" then bytes_of_field (String.sub o 3 (String.length o - 3)) else acc) [] f in
  let mode_field = (match f with "json" :: m :: _ -> m | "scen" :: ni :: _ -> ni | _ -> "") in
  let refl_side = String.length mode_field > 0 && mode_field.[String.length mode_field - 1] = 'r' in
  let any_call = String.contains obs_rest '/' in
  let l = run_authorities configured addr_target (if refl_side then addr_side else addr_target) any_call in
  let show a = if a = addr_target then "target" else if a = addr_side then "side" else hex_of_bytes a in
  String.concat "+" (List.sort_uniq compare (List.map show l))

let rec predict (c : string) (obs : string) : string * string * bool =
  let (obs_a, auth_obs) = strip_last "auth=" obs in
  if auth_obs <> None then begin
    let (p, v, _) = predict c obs_a in
    let want = expected_auth c obs_a in
    let got = (match auth_obs with Some a -> a | None -> "") in
    (p ^ " auth=" ^ want,
     (if v <> "ok" then v else if got = want then "ok" else "BAD:" ^ List.hd (split_blank c) ^ ":authority"), true)
  end else
  let (obs0, sidecar) = strip_last "sidecar=" obs in
  if sidecar <> None then begin
    (* the specification: every call is received by the TARGET; judge the rest of the line as usual,
       the verdict is the side-car finding *)
    let (p, _, nt) = predict c obs0 in
    (p, "BAD:" ^ (List.hd (split_blank c)) ^ ":calls-received-by-the-reflection-side-car", nt)
  end else
  let (obs_main, refl_obs) = strip_last "refl=" obs in
  let refl_obs = match refl_obs with Some r -> r | None -> "missing" in
  match split_blank c with
  | "json" :: mode :: _shared :: _clients :: ninst :: tmo :: n :: rest ->
      let n = int_of_string n in
      let es = List.map parse_entry (take n rest) in
      let opts = drop n rest in
      let rm = case_rm opts in
      let timeout = ns_of_ms tmo in
      let mode = strip_r mode in
      let ninst_s = ninst in
      let ninst = nat_of_int (int_of_string ninst) in
      if mode = "d" then begin
        let items = split_blank obs_main in
        let observed = observed_calls (List.concat_map (fun it -> match String.split_on_char ';' it with [_; cs] -> String.split_on_char '&' cs | _ -> []) items) in
        let target = target_of observed in
        let lat = plan_latencies opts in
        let timed = Array.exists (fun x -> x <> "0") lat in
        let latency = latency_of lat in
        let render_with (as_model : bool) (evs, rs) =
          let os = List.map (fun r -> r.r_out) rs in
          let its =
            if timed then
              List.concat (render_tsteps (if as_model then json_timed grpc_code target latency scope timeout os
                                          else json_timed_spec grpc_code target latency os))
            else List.concat (render_shots target [os] [List.map (fun r -> r.r_code) rs]) in
          (its, refl_of evs) in
        let render = render_with false in
        let line (its, refl) = String.concat " " its ^ " refl=" ^ refl in
        let modl = render_with true (json_session shortest_dec grpc_code target policy ninst timeout rm es) in
        let want = render (json_session_spec grpc_code target (fun p -> p) timeout rm es) in
        (* the specification with the known float64 family factored out *)
        let hyb = render (json_session_spec grpc_code target (reencode_guarded shortest_dec) timeout rm es) in
        let ok = (line want = obs) in
        let why = if ok then "" else begin
          if snd hyb <> refl_obs then "json:reflection-metadata"
          else if List.length items <> List.length (fst hyb) then "json:" ^ first_diff (fst hyb) items
          else begin
            let rec go i w o = match w, o with
              | x :: w', y :: o' -> if x = y then go (i + 1) w' o' else Printf.sprintf "%s@%d" (diff_component x y) i
              | _ -> "" in
            let other = go 0 (fst hyb) items in
            if other <> "" then "json:" ^ other
            else if has_big es then "json:message-int64-precision(float64-round-trip)" else "json:?"
          end
        end in
        (line modl, verdict ok why, List.length es > 1 || es <> [] && (List.hd es).e_meta <> [] || rm <> [] || has_faults opts)
      end else begin
        let refl_want = refl_of (fst (warm_up { wc_timeout = timeout; wc_reflect_meta = rm } example_table)) in
        match split_blank obs_main with
        | [res; samples; callstr] ->
            let calls = observed_calls (split '|' callstr) in
            let respond = respond_of calls in
            let line rs =
              let ss = List.sort compare (List.map (fun r -> hex_of_bytes r.r_tag ^ ":" ^ string_of_n r.r_code) rs) in
              let cs = List.sort compare (List.filter_map (fun r -> match r.r_out with Sent s -> Some (render_call respond s) | _ -> None) rs) in
              "ok " ^ (if ss = [] then "-" else String.concat "," ss) ^ " " ^ (if cs = [] then "-" else String.concat "|" cs) in
            (* overload + discard_overflow (ov=…): which tokens are >= 2 s overdue is timing; an entry acquired for a
               discarded token is reported by a sample tagged "discarded" and is not sent. Tags are distinct in
               engine mode, so the discarded entries are the acquired ones whose tag no sample carries; the specification of
               the rest is unchanged (each one sent once, as written), and there is one "discarded" sample per
               discarded entry. *)
            let overloaded = List.exists (fun o -> String.length o >= 3 && String.sub o 0 3 = "ov=") opts in
            let disc_tag = hex_of_bytes (bytes_of_ascii "discarded") in
            let seen_tags = List.filter_map (fun x -> match String.split_on_char ':' x with [t; _] -> Some t | _ -> None) (split ',' samples) in
            (* entries are acquired in file order and every token an instance gets for an acquired entry gives exactly ONE
               sample (the entry's, or "discarded"): with T tokens and n entries there are k = min n T samples; when the
               schedule ends before the file does, each instance may have acquired one more entry it gets no token for,
               so the entries that got a token are among the first k + ninst - 1 *)
            let tokens = List.fold_left (fun acc o ->
              if String.length o >= 3 && String.sub o 0 3 = "ov=" then
                (match List.map int_of_string (String.split_on_char '.' (String.sub o 3 (String.length o - 3))) with
                 | [burst; rps; ms; _] -> burst + rps * ms / 1000 | _ -> acc)
              else acc) 0 opts in
            (* k = the number of samples there must be: one per token while there are entries *)
            let k = min (List.length es) tokens in
            let lim = if tokens >= List.length es then List.length es else min (List.length es) (k + int_of_string ninst_s - 1) in
            let es_all = es in
            let es = if overloaded then List.filter (fun e -> List.mem (hex_of_bytes e.e_tag) seen_tags) (take lim es) else es in
            let ndisc = max 0 (k - List.length es) in
            let line rs =
              if not overloaded then line rs else begin
                let ss = List.sort compare (List.map (fun r -> hex_of_bytes r.r_tag ^ ":" ^ string_of_n r.r_code) rs
                                            @ List.init ndisc (fun _ -> disc_tag ^ ":0")) in
                let cs = List.sort compare (List.filter_map (fun r -> match r.r_out with Sent s -> Some (render_call respond s) | _ -> None) rs) in
                "ok " ^ (if ss = [] then "-" else String.concat "," ss) ^ " " ^ (if cs = [] then "-" else String.concat "|" cs)
              end in
            (* the code-shaped side of an overloaded case: the acquired entries go through the pointer-level pool model
               (Model/GrpcPool.v) with as many Release calls per discarded token as instance.go has (re-read from the
               source), in the canonical interleaving: read-ahead of 128, one instance, most recently pooled object first *)
            let es_model = if not overloaded then es else begin
              let acq = take lim es_all in
              let extra = (match extra_releases gen_instance_releases with Some x -> x | None -> O) in
              let nacq = List.length acq in
              let evs = ref [] and decoded = ref 0 in
              List.iteri (fun j e ->
                while !decoded < min nacq (j + 129) do evs := EDecode O :: !evs; incr decoded done;
                let fired = List.mem (hex_of_bytes e.e_tag) seen_tags in
                evs := ERelease O :: (if fired then EShoot O else EDiscard O) :: EAcquire O :: !evs) acq;
              match prun extra (pinit acq) (List.rev !evs) with
              | Some s -> shots_of s.ps_out
              | None -> []
            end in
            let es_model = if List.length es_model = List.length es then es_model else es in
            let m = json_model shortest_dec grpc_code respond ninst timeout es_model in
            let sp = json_spec grpc_code respond timeout es in
            let ok = (line sp = obs_main) && refl_want = refl_obs in
            (* the specification with the known float64 family factored out: entries carrying an
               integer beyond 2^53 take the code-shaped model's result *)
            let hybrid = List.map2 (fun e (a, b) -> if fields_small e.e_payload then a else b) es (List.combine sp m) in
            let why =
              if ok then ""
              else if refl_want <> refl_obs then "json-engine:reflection-metadata"
              else if line hybrid = obs_main then "json:message-int64-precision(float64-round-trip)"
              else if res <> "ok" then "json-engine:run-" ^ res
              else begin
                match split_blank (line hybrid) with
                | [_; ws; wc] -> if ws <> samples then "json-engine:samples" else if wc <> callstr then "json-engine:calls" else "json-engine"
                | _ -> "json-engine"
              end in
            (line m ^ " refl=" ^ refl_want, verdict ok why, if overloaded then ndisc > 0 && List.length es > 1 else List.length es > 1)
        | _ -> ("?", "BAD:json-engine:observation-shape:" ^ obs, false)
      end
  | "scen" :: ninst :: tmo :: order :: users :: defs :: scens :: opts ->
      let rm = case_rm opts in
      let order = List.map (fun s -> nat_of_int (int_of_string s)) (split ',' order) in
      let users = List.map (fun u -> match String.split_on_char ':' u with [t; i] -> (bytes_of_field t, bytes_of_field i) | _ -> failwith "user") (split ',' users) in
      let defs = List.map (fun d -> match String.split_on_char ';' d with
        | [name; tag; call; meta; payload; pp] ->
            { cd_name = bytes_of_field name; cd_tag = bytes_of_field tag; cd_call = bytes_of_field call;
              cd_meta = parse_meta meta; cd_payload = bytes_of_field payload; cd_pp = (pp = "1") }
        | _ -> failwith "def") (split '|' defs) in
      let scens = List.map (fun s -> match String.split_on_char ':' s with
        | [name; idx] -> (bytes_of_field name, List.map parse_scen_step (split '.' idx))
        | _ -> failwith "scen") (split '|' scens) in
      let scen_sleeps = List.map (fun (_, sts) -> List.map (fun (_, ms) -> ns_of_ms ms) sts) scens in
      let lat = plan_latencies opts in
      let timed = Array.exists (fun x -> x <> "0") lat || List.exists (fun (_, sts) -> List.exists (fun (_, ms) -> ms <> "0") sts) scens in
      let latency = latency_of lat in
      let scens = List.map (fun (nm, sts) -> (nm, List.map (fun (i, _) -> nat_of_int i) sts)) scens in
      let timeout = ns_of_ms tmo in
      let shots = split '#' obs_main in
      let items = List.concat_map (split '|') shots in
      let observed = observed_calls (List.filter_map (fun it -> match String.split_on_char ';' it with [_; cs] -> Some cs | _ -> None) items) in
      let target = target_of observed in
      let render (res : outs list) (codes : n list list) : string list =
        List.map (fun its -> if its = [] then "none" else String.concat "|" its) (render_shots target res codes) in
      let h0 = heap_of defs in
      let (h1, m) = scen_model users defs scens h0 (sguns_of (nat_of_int (int_of_string (strip_r ninst))) timeout) O O order in
      let sp = scen_spec users defs scens timeout h0 O O order in
      let refl_want = refl_of (scen_warm_up timeout rm) in
      let render_t (x : msg_c tstep list list) : string list =
        List.map (fun its -> if its = [] then "none" else String.concat "|" its) (render_tsteps x) in
      let want = if timed then render_t (scen_timed_spec grpc_code target latency sp)
                 else render sp (scen_codes_spec grpc_code target sp) in
      let modl = if timed then render_t (scen_timed grpc_code target latency scope timeout scen_sleeps m)
                 else render m (snd (scen_codes grpc_code target policy m)) in
      let ok = (String.concat "#" want = obs_main) && refl_want = refl_obs in
      let why = if ok then "" else if refl_want <> refl_obs then "scen:shot0:reflection-metadata" else begin
        (* locate the first differing step *)
        let rec go i w g = match w, g with
          | [], [] -> "same"
          | x :: w', y :: g' ->
              if x = y then go (i + 1) w' g'
              else Printf.sprintf "shot%d:%s" i (first_diff (split '|' x) (split '|' y))
          | _ -> "shot-count" in
        "scen:" ^ go 0 want shots
      end in
      let heap_note = if h1 = h0 then "" else " heap-changed" in
      (String.concat "#" modl ^ heap_note ^ " refl=" ^ refl_want, verdict ok why,
       List.length order > 1 && List.exists (fun d -> d.cd_meta <> []) defs || rm <> [] || has_faults opts || timed)
  | _ -> ("unknown-case", "BAD:unknown-case", false)

let () = run_cases predict
