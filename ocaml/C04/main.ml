(* Driver of the extracted Waiter model (coq/Model/Waiter.v) for property C04.

   case:  w <sleep>:<tok|end>[:c|:k<ms>] ...     |     eng <discard> <tok,...> <dur,...>
          pool <discard> <perinst> <starts> <m:offs|p:segs> <durs/...>   (Model/WaiterPool.v run_pool)
   obs:   one field per token, booleans only (see harness/cmd/hC04/main.go)

   The model is run on the PLANNED timeline of the case (idealised clock: a reading equals the
   instant it is taken at; timers wake on time); the harness plans every case with a margin
   around each comparison and repeats a run that left the planned timeline.  The verdict is
   the executable specification (spec_token_b / spec_decision_b) on the observed booleans. *)
open Model
open Conv

let ms = ZT.of_int 1000000
let z_of_ms (s : string) : z = z_of_zt (ZT.mul (ZT.of_string s) ms)
let zle a b = ZT.leq (zt_of_z a) (zt_of_z b)
let zadd a b = z_of_zt (ZT.add (zt_of_z a) (zt_of_z b))
let zsub a b = z_of_zt (ZT.sub (zt_of_z a) (zt_of_z b))
let bit b = if b then "1" else "0"

let predict_w (steps : string list) : string list =
  let st = ref wstate_init and t = ref (z_of_int 0) and ctx_done = ref false in
  List.map (fun step ->
    let p = String.split_on_char ':' step in
    let sleep = z_of_ms (List.nth p 0) in
    t := zadd !t sleep;
    let tokf = List.nth p 1 in
    let third = if List.length p > 2 then List.nth p 2 else "" in
    if third = "c" then ctx_done := true;
    let tok = if tokf = "end" then None else Some (z_of_ms tokf) in
    let enter = !t in
    let cancel_in =
      if String.length third > 1 && third.[0] = 'k' then Some (z_of_ms (String.sub third 1 (String.length third - 1))) else None in
    let cancel_in_sleep =
      (match cancel_in, tok with
       | Some k, Some next -> not (zle next (zadd enter k))      (* still asleep when the cancel comes *)
       | _ -> false) in
    let c = { c_ctx_done = !ctx_done; c_tok = tok; c_now = enter; c_cancel_in_sleep = cancel_in_sleep;
              c_wake = (match tok with Some n -> n | None -> enter) } in
    let (st', o) = wait wcurrent !st c in
    st := st';
    let ret =
      if cancel_in_sleep then (match cancel_in with Some k -> zadd enter k | None -> enter)
      else return_lower enter c o in
    t := ret;
    if cancel_in_sleep then ctx_done := true;
    let ok = o.w_ok in
    let slow = (not !ctx_done) && is_slow_down st' in
    let next = (match tok with Some n -> n | None -> enter) in
    let w2 = max_overdue in
    bit ok ^ bit slow ^ bit ((not ok) || zle next ret)
    ^ bit (ok && zle w2 (zsub enter next)) ^ bit (ok && zle w2 (zsub ret next))) steps

let csv_ms (s : string) : z list =
  if s = "-" || s = "" then [] else List.map z_of_ms (String.split_on_char ',' s)

let predict_eng (discard : bool) (toks : z list) (durs : z list) : string list =
  let shots = run_inst wcurrent discard wstate_init (z_of_int 0) (List.map (fun t -> (z_of_int 0, t)) toks) durs in
  List.map (fun s ->
    (match s.s_dec with Fire -> "F" | Discard -> "D")
    ^ bit (zle s.s_tok s.s_entry) ^ bit (zle max_overdue (zsub s.s_entry s.s_tok)) ^ "1") shots

(* st: preset cached reading, one token, "now" is 10 s after the base instant *)
let predict_st (last : string) (tok : string) : string =
  let now = z_of_zt (ZT.of_string "10000000000") in
  let lastz = if last = "none" then None else Some (z_of_string last) in
  let tokz = z_of_string tok in
  let st = { lastNow = lastz; overdue = z_of_int 0 } in
  let c = { c_ctx_done = false; c_tok = Some tokz; c_now = now; c_cancel_in_sleep = false; c_wake = tokz } in
  let (st', o) = wait wcurrent st c in
  let exact = (not o.w_read) && (match lastz with Some l -> zt_of_z st'.overdue = ZT.sub (zt_of_z l) (zt_of_z tokz) | None -> false) in
  bit o.w_ok ^ bit (is_slow_down st') ^ bit o.w_read ^ bit exact

let predict_near (us : string list) : string list =
  let st = ref wstate_init and t = ref (z_of_int 0) in
  List.map (fun u ->
    let enter = !t in
    let next = zadd enter (z_of_zt (ZT.mul (ZT.of_string u) (ZT.of_int 1000))) in
    let c = { c_ctx_done = false; c_tok = Some next; c_now = enter; c_cancel_in_sleep = false; c_wake = next } in
    let (st', o) = wait wcurrent !st c in
    st := st';
    let ret = return_lower enter c o in
    t := ret;
    bit o.w_ok ^ bit (zle next ret)) us

(* prof: the configured profile, from the segment list (all times in ns) *)
let parts_of (s : string) : part list =
  List.map (fun sg ->
    let zi x = z_of_zt (ZT.of_string x) in
    match String.split_on_char '.' sg with
    | [ "once"; n ] -> CSeg (SOnce (nat_of_int (int_of_string n)))
    | [ "const"; ops; d ] ->
        let ops = int_of_string ops and d = int_of_string d in
        CSeg (SConst (z_of_zt (ZT.of_int (1000000000 / ops)), nat_of_int (ops * d / 1000), z_of_ms (string_of_int d)))
    | [ "pause"; d ] -> CSeg (SPause (z_of_ms d))
    | [ "unl"; d ] -> CSeg (SUnl (z_of_ms d))
    (* the profile types that build a composite themselves: Model/WaiterProfile.v says what they are configured to mean *)
    | [ "step"; f; t; st; d ] -> CStep (zi f, zi t, zi st, z_of_ms d)
    | [ "istep"; f; t; st; d ] -> CInstStep (zi f, zi t, zi st, z_of_ms d)
    | _ -> failwith ("bad segment " ^ sg)) (String.split_on_char ';' s)

let segments_of (s : string) : segment list =
  match profile_segments (parts_of s) with
  | Some l -> l
  | None -> failwith ("not a valid profile: " ^ s)

let us_string (x : z) : string = ZT.to_string (ZT.div (zt_of_z x) (ZT.of_int 1000))

let predict_prof (discard : bool) (offs : z list) (has_tail : bool) (durs : z list) : string list =
  (* the i-th Shoot sleeps dur_i, 25 ms when not given *)
  let d25 = z_of_ms "25" in
  let rec pad l n = if n <= 0 then [] else (match l with x :: r -> x :: pad r (n - 1) | [] -> d25 :: pad [] (n - 1)) in
  let shots = run_inst wcurrent discard wstate_init (z_of_int 0) (List.map (fun t -> (z_of_int 0, t)) offs) (pad durs (List.length offs)) in
  List.map (fun s ->
    (match s.s_dec with Fire -> "F" | Discard -> "D")
    ^ bit (zle s.s_tok s.s_entry) ^ bit (zle max_overdue (zsub s.s_entry s.s_tok))) shots
  @ [ (if has_tail then "c=ge" else "c=eq") ]

let predict (c : string) (obs : string) : string * string * bool =
  let ofs = if obs = "" then [] else split_blank obs in
  if obs = "disturbed" then
    (* the machine could not keep time during any of the attempts (canary): no information *)
    ("disturbed", "ok", false)
  else
  match split_blank c with
  | [ "st"; last; tok ] ->
      let pred = predict_st last tok in
      (* the token is more than 5 s in the past of the real clock: it must be judged slow *)
      let v = if String.length obs <> 4 then "BAD:w:malformed-observation"
              else if obs.[0] <> '1' then "BAD:w:wait-refused-a-due-token"
              else if obs.[1] <> '1' then "BAD:w:token-2s-late-at-pick-up-not-slow-down"
              else "ok" in
      (pred, v, true)
  | "near" :: us ->
      let pred = predict_near us in
      let bad = List.exists (fun f -> String.length f <> 2 || f.[0] <> '1' || f.[1] <> '1') ofs || List.length ofs <> List.length us in
      (String.concat " " pred, (if bad then "BAD:w:wait-returned-before-the-token-time" else "ok"), true)
  | "w" :: steps ->
      let pred = predict_w steps in
      let bad = ref "" in
      List.iter (fun f ->
        if !bad = "" then begin
          if String.length f <> 5 then bad := "BAD:w:malformed-observation"
          else begin
            let g i = f.[i] = '1' in
            if not (spec_token_b true (g 0) (g 1) (g 2) (g 3) (g 4)) then
              bad := (if not (g 2) then "BAD:w:wait-returned-before-the-token-time"
                      else if g 1 && not (g 4) then "BAD:w:slow-down-although-less-than-2s-late"
                      else "BAD:w:token-2s-late-at-pick-up-not-slow-down")
          end
        end) ofs;
      if List.length ofs <> List.length steps && !bad = "" then bad := "BAD:w:missing-observations";
      let late = List.exists (fun f -> String.length f = 5 && (f.[3] = '1' || f.[1] = '1')) ofs in
      (String.concat " " pred, (if !bad = "" then "ok" else !bad), late || List.length steps > 1)
  | [ "cfg"; forms ] ->
      let want = String.concat "" (List.map (fun f ->
        let w = (match f with
          | "absent" -> None | "true" | "envtrue" -> Some true | "false" | "envfalse" -> Some false
          | _ -> failwith ("bad form " ^ f)) in
        bit (configured_discard w)) (String.split_on_char ',' forms)) in
      (want, (if obs = want then "ok" else "BAD:cfg:discard_overflow-not-as-written-in-the-config want=" ^ want ^ " got=" ^ obs), true)
  | "ph" :: inst :: behind :: ordinary :: episodes :: ([] | [ _; _ ]) ->
      let i = int_of_string in
      let total = i episodes * (i inst + i behind + i ordinary) and disc = i episodes * i behind in
      let pred = Printf.sprintf "N=%d F=%d D=%d X=%d S=%d" total (total - disc) disc 0 (total - disc) in
      let get k = (match List.find_opt (fun f -> String.length f > 2 && String.sub f 0 2 = k ^ "=") ofs with
                   | Some f -> (try int_of_string (String.sub f 2 (String.length f - 2)) with _ -> -1) | None -> -1) in
      let n = get "N" and f = get "F" and d = get "D" and x = get "X" and sh = get "S" in
      let v =
        if List.mem "run-error" ofs then "BAD:ph:run-error"
        else if n <> total then "BAD:ph:lines-written-differ-from-the-tokens-of-the-schedule"
        else if x <> 0 || f <> sh || d <> n - sh then "BAD:ph:discarded-token-not-written-as-777-discarded"
        else "ok" in
      (pred, v, true)
  | [ "proftail"; _; segs; _; _; _ ] ->
      let (_, tails) = profile_offsets (z_of_int 0) (segments_of segs) in
      (* the unlimited tail is not part of the Waiter model: the prediction is the specification's *)
      ("t=1", (if obs = "t=1" then "ok" else "BAD:prof:shot-before-the-configured-start-of-the-unlimited-tail"), tails <> [])
  | [ "prof"; d; segs; offs_case; tail_case; durs ] ->
      let discard = (d = "1") in
      let (offs, tails) = profile_offsets (z_of_int 0) (segments_of segs) in
      let offs_model = if offs = [] then "-" else String.concat "," (List.map us_string offs) in
      let tail_model = (match tails with
        | [] -> "-" | (st, du) :: _ -> us_string st ^ ":" ^ us_string du) in
      let pred = predict_prof discard offs (tails <> []) (csv_ms durs) in
      let n = List.length offs in
      let toks_obs = List.filteri (fun i _ -> i < n) (List.filter (fun f -> String.length f = 3 && (f.[0] = 'F' || f.[0] = 'D')) ofs) in
      let cfield = (match List.find_opt (fun f -> String.length f > 2 && String.sub f 0 2 = "c=") ofs with Some f -> f | None -> "c=?") in
      let v =
        if offs_model <> offs_case || tail_model <> tail_case then
          "BAD:prof:case-offsets-differ-from-the-configured-profile model=" ^ offs_model ^ " tail=" ^ tail_model
        else if List.mem "run-error" ofs then "BAD:prof:run-error"
        else if List.exists (fun f -> f.[1] <> '1') toks_obs then "BAD:prof:shot-before-the-time-the-configured-profile-schedules-it"
        else if cfield = "c=lt" || List.length toks_obs < n then
          (if discard then "BAD:prof:fired+discarded-less-than-the-tokens-of-the-profile" else "BAD:prof:not-every-token-of-the-profile-fired")
        else if cfield = "c=gt" then "BAD:prof:more-shots-than-tokens-in-the-profile"
        else begin
          match List.find_opt (fun f -> not (spec_decision_b discard (f.[2] = '1') (f.[0] = 'D'))) toks_obs with
          | None -> "ok"
          | Some f -> if not discard then "BAD:prof:discarded-with-discard_overflow-off"
                      else if f.[0] = 'D' then "BAD:prof:discarded-although-less-than-2s-late" else "BAD:prof:fired-although-2s-late"
        end in
      (String.concat " " pred, v, tails <> [] || List.exists (fun f -> f.[2] = '1') toks_obs)
  | [ "pool"; d; pi; starts; sched; durs ] ->
      let discard = (d = "1") and perinst = (pi = "1") in
      let starts_l = csv_ms starts in
      let n = List.length starts_l in
      let body = String.sub sched 2 (String.length sched - 2) in
      let offs = if String.sub sched 0 2 = "m:" then csv_ms body
                 else fst (profile_offsets (z_of_int 0) (segments_of body)) in
      let durs_l = if durs = "-" then [] else List.map csv_ms (String.split_on_char '/' durs) in
      let p = { p_discard = discard; p_per_instance = perinst } in
      let shots = run_pool wcurrent p starts_l offs durs_l in
      let nd = List.length (List.filter (fun (_, s) -> s.s_dec = Discard) shots) in
      let ntok = List.length offs in
      let pred =
        List.map (fun (k, s) ->
          Printf.sprintf "%d:%s%s%s%s" (int_of_nat k) (match s.s_dec with Fire -> "F" | Discard -> "D")
            (bit (zle s.s_tok s.s_entry)) (bit (zle max_overdue (zsub s.s_pickup s.s_tok)))
            (bit (zle max_overdue (zsub s.s_entry s.s_tok)))) shots
        @ [ Printf.sprintf "R=%d" nd; "X=0"; Printf.sprintf "S=%d" (int_of_nat (schedules_built p (nat_of_int n))); "E=1" ] in
      (* the verdict: the specification on the observation *)
      let is_tok f = (match String.index_opt f ':' with
        | Some i -> String.length f = i + 5 && (try ignore (int_of_string (String.sub f 0 i)); true with _ -> false)
        | None -> false) in
      let toks_obs = List.filter is_tok ofs in
      let inst_of f = int_of_string (String.sub f 0 (String.index f ':')) in
      let ch f j = f.[String.index f ':' + 1 + j] in
      let get k = (match List.find_opt (fun f -> String.length f > 2 && String.sub f 0 2 = k ^ "=") ofs with
                   | Some f -> (try int_of_string (String.sub f 2 (String.length f - 2)) with _ -> -1) | None -> -1) in
      let count_inst k = List.length (List.filter (fun f -> inst_of f = k) toks_obs) in
      let nobs_d = List.length (List.filter (fun f -> ch f 0 = 'D') toks_obs) in
      let per_token f =
        let fate = ch f 0 and g j = ch f j = '1' in
        if fate = 'L' then Some "BAD:pool:token-neither-fired-nor-reported-as-discarded"
        else if fate <> 'F' && fate <> 'D' then Some "BAD:pool:malformed-observation"
        else if not (g 1) then Some "BAD:pool:shot-before-the-token-time"
        else if not discard then
          (if spec_decision_b false (g 2) (fate = 'D') then None else Some "BAD:pool:discarded-with-discard_overflow-off")
        else if not (spec_token_b true true (fate = 'D') (g 1) (g 2) (g 3)) then
          Some (if fate = 'D' then "BAD:pool:discarded-although-less-than-2s-late" else "BAD:pool:fired-although-2s-late")
        else None in
      let v =
        if List.mem "run-error" ofs then "BAD:pool:run-error"
        else match List.find_map per_token toks_obs with
        | Some bad -> bad ^ (if perinst then "(own-schedules)" else "(shared-schedule)")
        | None ->
          if get "X" <> 0 || get "R" <> nobs_d then "BAD:pool:discarded-token-not-reported-as-777-discarded"
          else if get "E" <> 1 then "BAD:pool:run-longer-than-profile+2s+one-response-time"
          else if get "S" <> int_of_nat (schedules_built p (nat_of_int n)) then "BAD:pool:schedules-built-differ-from-rps-per-instance"
          else if (perinst && (List.exists (fun k -> count_inst k <> ntok) (List.init n (fun k -> k)) || List.length toks_obs <> n * ntok))
                  || ((not perinst) && List.length toks_obs <> ntok) then
            "BAD:pool:tokens-handled-differ-from-the-tokens-of-the-schedule"
          else "ok" in
      (String.concat " " pred, v, n > 1 || List.exists (fun f -> ch f 2 = '1' || ch f 0 = 'D') toks_obs)
  | [ "comp"; _; segs; offs_case ] ->
      let (offs, _) = profile_offsets (z_of_int 0) (segments_of segs) in
      let offs_model = if offs = [] then "-" else String.concat "," (List.map us_string offs) in
      let ntok = List.length offs in
      (* on the planned timeline every request is fired at its token's time: never ahead of the profile *)
      let pred = (if never_ahead_b offs offs then String.make ntok '1' else String.make ntok '0') ^ " c=eq" in
      let bits = (match ofs with f :: _ -> f | [] -> "") in
      let cfield = (match List.find_opt (fun f -> String.length f > 2 && String.sub f 0 2 = "c=") ofs with Some f -> f | None -> "c=?") in
      let v =
        if offs_model <> offs_case then "BAD:comp:case-offsets-differ-from-the-configured-profile model=" ^ offs_model
        else if String.contains bits '0' then "BAD:comp:more-requests-fired-than-tokens-of-the-configured-profile-were-due"
        else if cfield = "c=lt" then "BAD:comp:not-every-token-of-the-profile-fired"
        else if cfield = "c=gt" then "BAD:comp:more-shots-than-tokens-in-the-profile"
        else if cfield <> "c=eq" then "BAD:comp:malformed-observation"
        else "ok" in
      (pred, v, true)
  | [ "first"; n; _; segs; offs_case; dur_us; _ ] ->
      (* several instances taking their first token from a fresh real schedule at the same moment, many trials:
         prediction = the fine-grained leaf model (Model/SchedLeafConc.v, doat_progs) with the callers one after the
         other at t0 + a fresh Waiter each (Model/WaiterLeaf.v first_shots); verdict = spec_first_b on the bits *)
      let (offs, _) = profile_offsets (z_of_int 0) (segments_of segs) in
      let offs_model = if offs = [] then "-" else String.concat "," (List.map us_string offs) in
      let zero = z_of_string "-62135596800000000000" and t0 = z_of_int 0 in
      let d = z_of_zt (ZT.mul (ZT.of_string dur_us) (ZT.of_int 1000)) in
      let pred =
        (match first_shots wcurrent doat_progs offs d zero t0 (nat_of_int (int_of_string n)) with
         | None -> "model-stuck"
         | Some l ->
             let now = List.filter (fun f -> f.fs_fired && zle f.fs_at t0) l in
             let m = List.length now in
             if m = 0 then "-/- c=0"
             else String.make m '1' ^ "/" ^ String.concat "" (List.map (fun f -> bit (not f.fs_slow)) now) ^ " c=" ^ string_of_int m) in
      let bools s = if s = "-" then [] else List.init (String.length s) (fun i -> s.[i] = '1') in
      let v =
        if offs_model <> offs_case then "BAD:first:case-offsets-differ-from-the-configured-profile model=" ^ offs_model
        else match ofs with
        | [ bits; _ ] when String.contains bits '/' ->
            let k = String.index bits '/' in
            let ahead = String.sub bits 0 k and slow = String.sub bits (k + 1) (String.length bits - k - 1) in
            let wellformed x = x = "-" || (x <> "" && String.for_all (fun ch -> ch = '0' || ch = '1') x) in
            if not (wellformed ahead && wellformed slow) then "BAD:first:malformed-observation"
            else if spec_first_b (bools ahead) (bools slow) then "ok"
            else if String.contains ahead '0' then "BAD:first:more-requests-fired-than-tokens-of-the-configured-profile-were-due"
            else "BAD:first:judged-2s-late-within-2s-of-the-start-of-the-profile"
        | [ "hang" ] -> "BAD:first:wait-did-not-return"
        | _ -> "BAD:first:malformed-observation" in
      (pred, v, true)
  | [ "eng"; d; toks; durs ] ->
      let discard = (d = "1") in
      let tl = csv_ms toks in
      let pred = predict_eng discard tl (csv_ms durs) in
      let bad = ref "" in
      List.iter (fun f ->
        if !bad = "" then begin
          if String.length f <> 4 || (f.[0] <> 'F' && f.[0] <> 'D') then
            bad := (if String.length f > 6 && String.sub f 0 7 = "events=" then "BAD:eng:token-count" else "BAD:eng:" ^ f)
          else begin
            let discarded = f.[0] = 'D' and ne = f.[1] = '1' and l2 = f.[2] = '1' and sok = f.[3] = '1' in
            if not ne then bad := "BAD:eng:shot-before-the-token-time"
            else if not (spec_decision_b discard l2 discarded) then
              bad := (if not discard then "BAD:eng:discarded-with-discard_overflow-off"
                      else if discarded then "BAD:eng:discarded-although-less-than-2s-late"
                      else "BAD:eng:fired-although-2s-late")
            else if not sok then bad := "BAD:eng:discarded-sample-not-777-discarded"
          end
        end) ofs;
      if List.length ofs <> List.length tl && !bad = "" then bad := "BAD:eng:token-count";
      (String.concat " " pred, (if !bad = "" then "ok" else !bad), List.exists (fun f -> String.length f = 4 && f.[2] = '1') ofs)
  | _ -> ("unknown-case", "BAD:unknown-case", false)

let () = run_cases predict
