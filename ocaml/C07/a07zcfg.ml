(* C07 driver, configured default headers (passes-field suffix "^hex.hex..."): printing of
   requests with several values per header, RawAmmo.BuildRequest over the http.ReadRequest oracle.
   (Compiled after a07lib.ml; only the C07 extraction has these model functions.) *)
open Model
open Conv
open A07lib

(* the passes field without its "^..." / "~..." suffixes, the configured list, the middlewares
   ("~d<loc>.<hexname>,f<n>,i"); a case with middlewares only has an empty configured list *)
let parse_mw (t : string) : mw =
  if t = "i" then MwInitFail
  else if String.length t > 0 && t.[0] = 'f' then MwFailAt (n_of_int (int_of_string (String.sub t 1 (String.length t - 1))))
  else if String.length t > 0 && t.[0] = 'd' then
    (match String.index_opt t '.' with
     | Some i -> MwDate (bytes_of_hex (String.sub t (i + 1) (String.length t - i - 1)))
     | None -> failwith ("bad middleware " ^ t))
  else failwith ("bad middleware " ^ t)

let split_opts (p : string) : string * n list list option * mw list =
  let (p, mws) = (match String.index_opt p '~' with
    | None -> (p, [])
    | Some i -> (String.sub p 0 i,
                 List.map parse_mw (String.split_on_char ',' (String.sub p (i + 1) (String.length p - i - 1))))) in
  match String.index_opt p '^' with
  | None -> (p, (if mws = [] then None else Some []), mws)
  | Some i ->
      let s = String.sub p (i + 1) (String.length p - i - 1) in
      (String.sub p 0 i, Some (List.map bytes_of_hex (String.split_on_char '.' s)), mws)

let split_cfg (p : string) : string * n list list option =
  let (p, c, _) = split_opts p in (p, c)
let mws_of (p : string) : mw list = let (_, _, m) = split_opts p in m

let print_mheaders (hs : (n list * n list list) list) : string =
  let hs = List.sort (fun (a, _) (b, _) -> cmp_bytes a b) hs in
  if hs = [] then "-"
  else String.concat ";" (List.map (fun (k, vs) ->
         hex_of_bytes k ^ "=" ^ String.concat "," (List.map hex_of_bytes vs)) hs)

let print_mreq (r : mreqsum) : string =
  Printf.sprintf "D:%s:%s:%s:%s:%s:%s" (hex_of_bytes r.mr_method) (hex_of_bytes r.mr_url)
    (hex_of_bytes r.mr_host) (print_mheaders r.mr_headers) (hex_of_bytes r.mr_body) (hex_of_bytes r.mr_tag)

(* what materialising a delivery gives: the printed request, an unusable ammo, a panic *)
type built = Req of string | Invalid | Panicked

let print_run_b (bld : int -> 'e -> built) (k : int) (rs : 'e sres list) : string =
  let rec go n rs acc =
    match rs with
    | [] -> List.rev ((if n >= k then "more" else "truncated") :: acc)
    | SDeliver e :: r ->
        (match bld (n + 1) e with
         | Req q -> go (n + 1) r (q :: acc)
         | Invalid -> List.rev ("invalid" :: acc)
         | Panicked -> List.rev ("panic" :: acc))
    | SErr _ :: _ -> List.rev ("err" :: acc)
    | SPanic :: _ -> List.rev ("panic" :: acc)
    | SNoAmmo :: _ -> List.rev ("noammo" :: acc)
    | (SPassLimit | SAmmoLimit) :: _ -> List.rev ("ok" :: acc)
    | SOutOfFuel :: _ -> List.rev ("outoffuel" :: acc)
  in
  String.concat " " (go 0 rs [])

let print_expected_b (bld : int -> 'e -> built) (k : int) (es : 'e list) : string =
  print_run_b bld k (List.map (fun e -> SDeliver e) (cycle_take (nat_of_int k) es es))

let of_bres (b : bres) : built =
  match b with MBOk q -> Req (print_mreq q) | MBInvalid -> Invalid | MBPanic -> Panicked

(* model side: Ammo.BuildRequest with the merged header map, then the middlewares (i-th Acquire) *)
let bld_mentry (ms : mw list) (i : int) (e : mentry) : built =
  of_bres (acquire_m ms (n_of_int i) (build_m url_parse e))

(* specification side: the entry as the file says it + the configured defaults, then the middlewares *)
let bld_spec (ms : mw list) (cfg : (n list * n list list) list) (i : int) (e : entry) : built =
  of_bres (acquire_m ms (n_of_int i)
             (match spec_request url_parse cfg e with Some q -> MBOk q | None -> MBInvalid))

(* http.ReadRequest answer "1 D:m:u:host:hdrs:body:" -> its fields *)
let parse_summary (d : string) =
  match String.split_on_char ':' d with
  | ["D"; m; u; host; hs; body; _] ->
      let hl = if hs = "-" then [] else
        List.map (fun kv -> match String.split_on_char '=' kv with
          | [k; vs] -> (bytes_of_hex k, List.map bytes_of_hex (String.split_on_char ',' vs))
          | _ -> failwith "bad header in oracle answer") (String.split_on_char ';' hs) in
      Some (m, u, bytes_of_hex host, hl, body)
  | _ -> None

let raw_request (buf : n list) =
  match ask "req" buf with
  | None -> None
  | Some a -> (match split_blank a with ["1"; d] -> parse_summary d | _ -> None)

(* raw requests keep the method / URL / body fields of the oracle answer as printed *)
let raw_built (ms : mw list) (i : int) m u host hs body tag : built =
  let q = { mr_method = bytes_of_hex m; mr_url = bytes_of_hex u; mr_host = host; mr_headers = hs;
            mr_body = bytes_of_hex body; mr_tag = tag } in
  of_bres (acquire_m ms (n_of_int i) (MBOk q))

(* model side: RawAmmo.BuildRequest = ReadRequest (oracle) + EnrichRequestWithHeaders(commonHeaders) *)
let bld_mraw (ms : mw list) (i : int) (e : mrentry) : built =
  match raw_request e.mrb_buf with
  | None -> Invalid
  | Some (m, u, host, hs, body) ->
      (match raw_enrich e.mrb_common host hs with
       | Some (host', hs') -> raw_built ms i m u host' hs' body e.mrb_tag
       | None -> Panicked)

(* specification side *)
let bld_raw_spec (ms : mw list) (cfg : (n list * n list list) list) (i : int) (e : rentry) : built =
  match raw_request e.rb_buf with
  | None -> Invalid
  | Some (m, u, host, hs, body) ->
      let (host', hs') = spec_raw cfg host hs in
      raw_built ms i m u host' hs' body e.rb_tag

let mentry_body (e : mentry) = e.me_body
let mentry_with_body (e : mentry) b = { e with me_body = b }
let mrentry_body (e : mrentry) = e.mrb_buf
let mrentry_with_body (e : mrentry) b = { e with mrb_buf = b }
