(* C07 driver, configured default headers (passes-field suffix "^hex.hex..."): printing of
   requests with several values per header, RawAmmo.BuildRequest over the http.ReadRequest oracle.
   (Compiled after a07lib.ml; only the C07 extraction has these model functions.) *)
open Model
open Conv
open A07lib

(* the passes field without its "^..." suffix, and the configured list *)
let split_cfg (p : string) : string * n list list option =
  match String.index_opt p '^' with
  | None -> (p, None)
  | Some i ->
      let s = String.sub p (i + 1) (String.length p - i - 1) in
      (String.sub p 0 i, Some (List.map bytes_of_hex (String.split_on_char '.' s)))

let print_mheaders (hs : (n list * n list list) list) : string =
  let hs = List.sort (fun (a, _) (b, _) -> cmp_bytes a b) hs in
  if hs = [] then "-"
  else String.concat ";" (List.map (fun (k, vs) ->
         hex_of_bytes k ^ "=" ^ String.concat "," (List.map hex_of_bytes vs)) hs)

let print_mreq (r : mreqsum) : string =
  Printf.sprintf "D:%s:%s:%s:%s:%s:%s" (hex_of_bytes r.mr_method) (hex_of_bytes r.mr_url)
    (hex_of_bytes r.mr_host) (print_mheaders r.mr_headers) (hex_of_bytes r.mr_body) (hex_of_bytes r.mr_tag)

(* what materialising a delivery gives: the printed request, an unusable ammo, a panic *)
type built = Req of string | Invalid | Panicked

let print_run_b (bld : 'e -> built) (k : int) (rs : 'e sres list) : string =
  let rec go n rs acc =
    match rs with
    | [] -> List.rev ((if n >= k then "more" else "truncated") :: acc)
    | SDeliver e :: r ->
        (match bld e with
         | Req q -> go (n + 1) r (q :: acc)
         | Invalid -> List.rev ("invalid" :: acc)
         | Panicked -> List.rev ("panic" :: acc))
    | SErr _ :: _ -> List.rev ("err" :: acc)
    | SPanic :: _ -> List.rev ("panic" :: acc)
    | SNoAmmo :: _ -> List.rev ("noammo" :: acc)
    | (SPassLimit | SAmmoLimit) :: _ -> List.rev ("ok" :: acc)
    | SOutOfFuel :: _ -> List.rev ("outoffuel" :: acc)
  in
  String.concat " " (go 0 rs [])

let print_expected_b (bld : 'e -> built) (k : int) (es : 'e list) : string =
  print_run_b bld k (List.map (fun e -> SDeliver e) (cycle_take (nat_of_int k) es es))

(* model side: Ammo.BuildRequest with the merged header map *)
let bld_mentry (e : mentry) : built =
  match build_m url_parse e with
  | MBOk q -> Req (print_mreq q)
  | MBInvalid -> Invalid
  | MBPanic -> Panicked

(* specification side: the entry as the file says it + the configured defaults *)
let bld_spec (cfg : (n list * n list list) list) (e : entry) : built =
  match spec_request url_parse cfg e with
  | Some q -> Req (print_mreq q)
  | None -> Invalid

(* http.ReadRequest answer "1 D:m:u:host:hdrs:body:" -> its fields *)
let parse_summary (d : string) =
  match String.split_on_char ':' d with
  | ["D"; m; u; host; hs; body; _] ->
      let hl = if hs = "-" then [] else
        List.map (fun kv -> match String.split_on_char '=' kv with
          | [k; vs] -> (bytes_of_hex k, List.map bytes_of_hex (String.split_on_char ',' vs))
          | _ -> failwith "bad header in oracle answer") (String.split_on_char ';' hs) in
      Some (m, u, bytes_of_hex host, hl, body)
  | _ -> None

let raw_request (buf : n list) =
  match ask "req" buf with
  | None -> None
  | Some a -> (match split_blank a with ["1"; d] -> parse_summary d | _ -> None)

let print_raw m u host hs body tag =
  Printf.sprintf "D:%s:%s:%s:%s:%s:%s" m u (hex_of_bytes host) (print_mheaders hs) body (hex_of_bytes tag)

(* model side: RawAmmo.BuildRequest = ReadRequest (oracle) + EnrichRequestWithHeaders(commonHeaders) *)
let bld_mraw (e : mrentry) : built =
  match raw_request e.mrb_buf with
  | None -> Invalid
  | Some (m, u, host, hs, body) ->
      (match raw_enrich e.mrb_common host hs with
       | Some (host', hs') -> Req (print_raw m u host' hs' body e.mrb_tag)
       | None -> Panicked)

(* specification side *)
let bld_raw_spec (cfg : (n list * n list list) list) (e : rentry) : built =
  match raw_request e.rb_buf with
  | None -> Invalid
  | Some (m, u, host, hs, body) ->
      let (host', hs') = spec_raw cfg host hs in
      Req (print_raw m u host' hs' body e.rb_tag)

let mentry_body (e : mentry) = e.me_body
let mentry_with_body (e : mentry) b = { e with me_body = b }
let mrentry_body (e : mrentry) = e.mrb_buf
let mrentry_with_body (e : mrentry) b = { e with mrb_buf = b }
