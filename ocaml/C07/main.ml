open Model
open Conv
open A07lib

let count_req toks = List.length (List.filter (function TR _ -> true | _ -> false) toks)

let predict (c : string) (obs : string) : string * string * bool =
  match split_blank c with
  | "uri" :: p :: fin :: file :: toks ->
      let toks = List.map parse_tok toks in
      let items = List.map (function
        | TH (k, v, l, (kl, kt, vl, vt)) -> (UHeader (kl, k, kt, vl, v, vt), lay_of l)
        | TR (u, t, l, _) -> (UReq (u, t), lay_of l)
        | TB l -> (UBlank, lay_of l)) toks in
      let fileb = bytes_of_hex file in
      if render_uri items (bool_of_field fin) <> fileb then ("render-mismatch", "BAD:render-mismatch", false)
      else begin
        let n = count_req toks in
        let k = int_of_string p * n + 1 in
        let pred = print_run (build url_parse) k (uri_decode url_parse max_token cfg0 (nat_of_int k) fileb) in
        let want = print_expected (build url_parse) k (uri_entries (List.map fst items) []) in
        (pred, verdict (obs = want) ("expected " ^ want), n >= 2)
      end
  | _ -> ("unknown-case", "BAD:unknown-case", false)

let () = run_cases_oracle predict
