open Model
open Conv
open A07lib
open A07zcfg

(* passes field: "<p>" or "<p>L" (provider with preload: the deliveries must be the same) *)
let passes_of (p : string) : int =
  let p = fst (split_cfg p) in
  let p = (match String.index_opt p '%' with Some i -> String.sub p 0 i | None -> p) in
  let p = (match String.index_opt p '@' with Some i -> String.sub p 0 i | None -> p) in
  let p = (match String.index_opt p '!' with Some i -> String.sub p 0 i | None -> p) in
  let n = String.length p in
  if n > 0 && p.[n - 1] = 'L' then int_of_string (String.sub p 0 (n - 1)) else int_of_string p

(* "@<digits>": the instance schedule of the case, if any *)
let sched_of (p : string) : int list option =
  let p = fst (split_cfg p) in
  let p = (match String.index_opt p '%' with Some i -> String.sub p 0 i | None -> p) in
  match String.index_opt p '@' with
  | None -> None
  | Some i ->
      let s = String.sub p (i + 1) (String.length p - i - 1) in
      Some (List.init (String.length s) (fun j -> Char.code s.[j] - 48))

(* a schedule must make exactly k Acquires (an event of an instance that holds nothing) *)
let sched_acquires (evs : int list) : int =
  let holding = Hashtbl.create 8 in
  List.fold_left (fun n i ->
    if Hashtbl.mem holding i then (Hashtbl.remove holding i; n)
    else (Hashtbl.replace holding i (); n + 1)) 0 evs

(* the model's run under the schedule: the deliveries go through the extracted schedule model
   (fresh reader object per delivery); each is printed as it is seen when its instance shoots *)
let sched_run (p : string) (k : int) (body_of : 'e -> n list) (with_body : 'e -> n list -> 'e)
    (rs : 'e sres list) : 'e sres list option =
  match sched_of p with
  | None -> Some rs
  | Some evs ->
      if sched_acquires evs <> k || List.exists (fun i -> i < 0 || i > 9) evs then None
      else begin
        let rec split acc = function
          | SDeliver e :: r -> split (e :: acc) r
          | rest -> (List.rev acc, rest) in
        let (es, rest) = split [] rs in
        let ds = List.map (fun e -> (e, body_of e)) es in
        let obs = sched_obs Fresh (List.map nat_of_int evs) ds in
        Some (List.map (function
                | Some (e, b) -> SDeliver (with_body e b)
                | None -> SErr EUnexpected) obs @ rest)
      end

let entry_body (e : entry) = e.e_body
let entry_with_body (e : entry) b = { e with e_body = b }
let rentry_body (e : rentry) = e.rb_buf
let rentry_with_body (e : rentry) b = { e with rb_buf = b }

let count_req toks = List.length (List.filter (function TR _ -> true | _ -> false) toks)

(* non-trivial: at least two requests and the case meets the hypotheses of the round-trip
   theorem (wf) *)
let finish obs k pred want n wf =
  (pred, verdict (obs = want) ("expected " ^ want), n >= 2 && wf)

(* cases with configured default headers ("^..." in the passes field).  [lift]: the deliveries of the
   decoder model with the configured map merged in as the decoder does it; [bld]: BuildRequest of the
   model; [bld_s]: the request the specification expects for an entry as the file says it. *)
let cfg_case p k obs n wf (hs : n list list) lift body_of with_body bld bld_s rs es =
  match config_headers hs [] with
  | Inr _ -> ("newerr", verdict (obs = "newerr") "expected newerr", false)
  | Inl cfg ->
      let ms = mws_of p in
      if not (mws_init_ok ms) then ("err", verdict (obs = "err") "expected err", false)
      else begin
        let pred = (match sched_run p k body_of with_body (lift cfg rs) with
                    | Some rs -> print_run_b (bld ms) k rs | None -> "bad-schedule") in
        let want = print_expected_b (bld_s ms cfg) k es in
        finish obs k pred want n wf
      end

let predict (c : string) (obs : string) : string * string * bool =
  match split_blank c with
  | "uri" :: p :: fin :: file :: toks ->
      let toks = List.map parse_tok toks in
      let items = List.map (function
        | TH (k, v, l, (kl, kt, vl, vt)) -> (UHeader (kl, k, kt, vl, v, vt), lay_of l)
        | TR (u, t, l, _) -> (UReq (u, t), lay_of l)
        | TB l -> (UBlank, lay_of l)) toks in
      let fileb = bytes_of_hex file in
      if render_uri items (bool_of_field fin) <> fileb then ("render-mismatch", "BAD:render-mismatch", false)
      else begin
        let n = count_req toks in
        let k = passes_of p * n + 1 in
        let wf = List.for_all (wf_uitem url_parse max_token) items in
        match snd (split_cfg p) with
        | Some hs ->
            cfg_case p k obs n wf hs line_run_cfg mentry_body mentry_with_body bld_mentry bld_spec
              (uri_decode url_parse max_token cfg0 (nat_of_int k) fileb) (uri_entries (List.map fst items) [])
        | None ->
        let pred = (match sched_run p k entry_body entry_with_body (uri_decode url_parse max_token cfg0 (nat_of_int k) fileb) with
                    | Some rs -> print_run bld_entry k rs | None -> "bad-schedule") in
        let want = print_expected bld_entry k (uri_entries (List.map fst items) []) in
        (pred, verdict (obs = want) ("expected " ^ want), n >= 2 && wf)
      end
  | "uripost" :: p :: fin :: file :: toks ->
      let toks = List.map parse_tok toks in
      let items = List.map (function
        | TH (k, v, l, (kl, kt, vl, vt)) -> (PHeader (kl, k, kt, vl, v, vt), lay_of l)
        | TR (u, t, l, b) -> (PReq (u, t, b), lay_of l)
        | TB l -> (PBlank, lay_of l)) toks in
      let fileb = bytes_of_hex file in
      if render_uripost items (bool_of_field fin) <> fileb then ("render-mismatch", "BAD:render-mismatch", false)
      else begin
        let n = count_req toks in
        let k = passes_of p * n + 1 in
        match snd (split_cfg p) with
        | Some hs ->
            cfg_case p k obs n (List.for_all (wf_pitem url_parse) items) hs line_run_cfg mentry_body mentry_with_body
              bld_mentry bld_spec (uripost_decode url_parse cfg0 (nat_of_int k) fileb) (uripost_entries (List.map fst items) [])
        | None ->
        let pred = (match sched_run p k entry_body entry_with_body (uripost_decode url_parse cfg0 (nat_of_int k) fileb) with
                    | Some rs -> print_run bld_entry k rs | None -> "bad-schedule") in
        let want = print_expected bld_entry k (uripost_entries (List.map fst items) []) in
        finish obs k pred want n (List.for_all (wf_pitem url_parse) items)
      end
  | "raw" :: p :: fin :: file :: toks ->
      let toks = List.map parse_tok toks in
      let items = List.map (function
        | TR (_, t, l, b) -> (RReq (t, b), lay_of l)
        | TB l -> (RBlank, lay_of l)
        | TH _ -> failwith "header line in raw case") toks in
      let fileb = bytes_of_hex file in
      if render_raw items (bool_of_field fin) <> fileb then ("render-mismatch", "BAD:render-mismatch", false)
      else begin
        let n = count_req toks in
        let k = passes_of p * n + 1 in
        match snd (split_cfg p) with
        | Some hs ->
            cfg_case p k obs n (List.for_all wf_ritem items) hs raw_run_cfg mrentry_body mrentry_with_body
              bld_mraw bld_raw_spec (raw_decode cfg0 (nat_of_int k) fileb) (raw_entries (List.map fst items))
        | None ->
        let pred = (match sched_run p k rentry_body rentry_with_body (raw_decode cfg0 (nat_of_int k) fileb) with
                    | Some rs -> print_run bld_raw k rs | None -> "bad-schedule") in
        let want = print_expected bld_raw k (raw_entries (List.map fst items)) in
        finish obs k pred want n (List.for_all wf_ritem items)
      end
  | "json" :: p :: arr :: file :: toks ->
      let ents = List.map parse_entity toks in
      let fileb = bytes_of_hex file in
      let n = List.length ents in
      let k = passes_of p * n + 1 in
      let is_arr = bool_of_field arr in
      (* the JSON text is an oracle: it must decode to the entities of the case *)
      let oracle_ok = (match json_file fileb with
        | JArr (true, t) -> is_arr && t = toks
        | JStream (true, t) -> (not is_arr) && t = toks
        | JMiss -> true
        | _ -> false) in
      if not oracle_ok then ("json-oracle-mismatch", "BAD:json-oracle-mismatch", false)
      else begin
        let es = List.filter_map (fun d -> match entity_entry url_parse d with Inl e -> Some e | Inr _ -> None) ents in
        match snd (split_cfg p) with
        | Some hs ->
            (match config_headers hs [] with
             | Inr _ -> ("newerr", verdict (obs = "newerr") "expected newerr", false)
             | Inl cfg when not (mws_init_ok (mws_of p)) -> ("err", verdict (obs = "err") "expected err", false)
             | Inl cfg ->
                 let ms = mws_of p in
                 let run rs = (match sched_run p k mentry_body mentry_with_body rs with
                               | Some rs -> print_run_b (bld_mentry ms) k rs | None -> "bad-schedule") in
                 let pred =
                   if is_arr then
                     (match json_array_decode_cfg url_parse cfg cfg0 (nat_of_int k) ents with
                      | None -> "newerr"
                      | Some rs -> run rs)
                   else run (json_stream_decode_cfg url_parse cfg cfg0 (nat_of_int k) ents JEof) in
                 let want = if List.length es <> n then "entity-rejected" else print_expected_b (bld_spec ms cfg) k es in
                 finish obs k pred want n (List.length es = n))
        | None ->
        let pred =
          if is_arr then
            (match json_array_decode url_parse cfg0 (nat_of_int k) ents with
             | None -> "newerr"
             | Some rs -> (match sched_run p k entry_body entry_with_body rs with
                           | Some rs -> print_run bld_entry k rs | None -> "bad-schedule"))
          else (match sched_run p k entry_body entry_with_body (json_stream_decode url_parse cfg0 (nat_of_int k) ents JEof) with
                | Some rs -> print_run bld_entry k rs | None -> "bad-schedule") in
        let want = if List.length es <> n then "entity-rejected" else print_expected bld_entry k es in
        finish obs k pred want n (List.length es = n)
      end
  | _ -> ("unknown-case", "BAD:unknown-case", false)

let () = run_cases_oracle predict
