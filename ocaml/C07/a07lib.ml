(* Shared driver code for the ammo decoder models (C07, C13): oracle answers obtained in
   batches from the Go harness (`$A07_ORACLE oracle <queries> <answers>`), printing of
   model results in the harness' observation syntax. *)
open Model
open Conv

(* faster hex conversions than Conv's (megabyte bodies): the 256 byte values are shared
   instead of being rebuilt per byte *)
let ntab : n array = Array.init 256 n_of_int
let hextab : string array = Array.init 256 (Printf.sprintf "%02x")
let hexval (c : char) : int =
  match c with
  | '0' .. '9' -> Char.code c - 48
  | 'a' .. 'f' -> Char.code c - 87
  | 'A' .. 'F' -> Char.code c - 55
  | _ -> failwith "bad hex digit"
let bytes_of_hex (s : string) : n list =
  if s = "-" || s = "" then []
  else begin
    let len = String.length s / 2 in
    let rec go i acc =
      if i < 0 then acc
      else go (i - 1) (ntab.(hexval s.[2 * i] * 16 + hexval s.[2 * i + 1]) :: acc) in
    go (len - 1) []
  end
let rec int_of_pos (p : positive) : int =
  match p with XH -> 1 | XO q -> 2 * int_of_pos q | XI q -> 2 * int_of_pos q + 1
let int_of_byte (x : n) : int = match x with N0 -> 0 | Npos p -> int_of_pos p
let hex_of_bytes (l : n list) : string =
  if l = [] then "-"
  else begin
    let b = Buffer.create 1024 in
    List.iter (fun x -> Buffer.add_string b hextab.(int_of_byte x land 255)) l;
    Buffer.contents b
  end

let tbl : (string, string) Hashtbl.t = Hashtbl.create 1024
let misses : (string, unit) Hashtbl.t = Hashtbl.create 64
let missed = ref false   (* set by every unanswered query *)

let ask (kind : string) (b : n list) : string option =
  let q = kind ^ " " ^ hex_of_bytes b in
  match Hashtbl.find_opt tbl q with
  | Some a -> Some a
  | None -> Hashtbl.replace misses q (); missed := true; None

(* net/url.Parse + http.NewRequest *)
let url_parse (u : n list) : (n list * n list) option =
  match ask "url" u with
  | None -> None
  | Some a -> (match split_blank a with
               | ["1"; s; h] -> Some (bytes_of_hex s, bytes_of_hex h)
               | _ -> None)

let write_lines path ls =
  let oc = open_out path in
  List.iter (fun l -> output_string oc l; output_char oc '\n') ls;
  close_out oc

(* ask the harness for every answer missed so far; true when something was added *)
let resolve (base : string) : bool =
  if Hashtbl.length misses = 0 then false
  else begin
    let qs = Hashtbl.fold (fun q () acc -> q :: acc) misses [] in
    let qf = base ^ ".oq" and af = base ^ ".oa" in
    write_lines qf qs;
    let bin = try Sys.getenv "A07_ORACLE" with Not_found -> failwith "A07_ORACLE not set" in
    let cmd = Filename.quote bin ^ " oracle " ^ Filename.quote qf ^ " " ^ Filename.quote af in
    if Sys.command cmd <> 0 then failwith "oracle command failed";
    let ans = read_lines af in
    if List.length ans <> List.length qs then failwith "oracle answer count";
    List.iter2 (fun q a -> Hashtbl.replace tbl q a) qs ans;
    Hashtbl.reset misses;
    (try Sys.remove qf; Sys.remove af with _ -> ());
    true
  end

let run_cases_oracle (f : string -> string -> string * string * bool) =
  let cases = read_lines Sys.argv.(1) in
  let obs = if Array.length Sys.argv > 2 then read_lines Sys.argv.(2) else [] in
  let obs = Array.of_list obs in
  (* a case is evaluated again only while it still misses an oracle answer *)
  let cases_a = Array.of_list cases in
  let res : (string * string * bool) option array = Array.make (Array.length cases_a) None in
  let eval_pending () =
    Array.iteri (fun i c ->
      if res.(i) = None then begin
        missed := false;
        let o = if i < Array.length obs then obs.(i) else "" in
        let r = (try f c o with e -> ("model-exception:" ^ Printexc.to_string e, "BAD:model-exception", false)) in
        if not !missed then res.(i) <- Some r
      end) cases_a in
  let rec round k =
    eval_pending ();
    if k < 10 && resolve Sys.argv.(1) then round (k + 1)
    else begin
      (* whatever still misses an answer is evaluated as it is *)
      Array.iteri (fun i c ->
        if res.(i) = None then begin
          let o = if i < Array.length obs then obs.(i) else "" in
          res.(i) <- Some (try f c o with e -> ("model-exception:" ^ Printexc.to_string e, "BAD:model-exception", false))
        end) cases_a;
      Array.to_list (Array.map (function Some r -> r | None -> ("", "BAD:unevaluated", false)) res)
    end in
  List.iter (fun (p, v, nt) ->
    print_string p; print_char '\t'; print_string v; print_char '\t';
    print_string (if nt then "1" else "0"); print_newline ()) (round 0)

(* ---------- printing ---------- *)
let cmp_bytes (a : n list) (b : n list) = compare (List.map int_of_byte a) (List.map int_of_byte b)

let print_req (r : reqsum) : string =
  let hs = List.sort (fun (a, _) (b, _) -> cmp_bytes a b) r.r_headers in
  let h = if hs = [] then "-"
    else String.concat ";" (List.map (fun (k, v) -> hex_of_bytes k ^ "=" ^ hex_of_bytes v) hs) in
  Printf.sprintf "D:%s:%s:%s:%s:%s:%s" (hex_of_bytes r.r_method) (hex_of_bytes r.r_url)
    (hex_of_bytes r.r_host) h (hex_of_bytes r.r_body) (hex_of_bytes r.r_tag)

(* a run of k Scan calls as the harness prints it; [bld] materialises a delivery *)
let print_run (bld : 'e -> string option) (k : int) (rs : 'e sres list) : string =
  let rec go n rs acc =
    match rs with
    | [] -> List.rev ((if n >= k then "more" else "truncated") :: acc)
    | SDeliver e :: r ->
        (match bld e with
         | Some q -> go (n + 1) r (q :: acc)
         | None -> List.rev ("invalid" :: acc))
    | SErr _ :: _ -> List.rev ("err" :: acc)
    | SPanic :: _ -> List.rev ("panic" :: acc)
    | SNoAmmo :: _ -> List.rev ("noammo" :: acc)
    | (SPassLimit | SAmmoLimit) :: _ -> List.rev ("ok" :: acc)
    | SOutOfFuel :: _ -> List.rev ("outoffuel" :: acc)
  in
  String.concat " " (go 0 rs [])

(* the specification side: k deliveries of the expected entries, cyclically *)
let print_expected (bld : 'e -> string option) (k : int) (es : 'e list) : string =
  print_run bld k (List.map (fun e -> SDeliver e) (cycle_take (nat_of_int k) es es))

(* Ammo.BuildRequest through the url oracle *)
let bld_entry (e : entry) : string option =
  match build url_parse e with Some q -> Some (print_req q) | None -> None

(* RawAmmo.BuildRequest: http.ReadRequest is an oracle; its answer is the printed request
   with an empty tag field, the tag comes from the ammo header line *)
let bld_raw (e : rentry) : string option =
  match ask "req" e.rb_buf with
  | None -> None
  | Some a ->
      (match split_blank a with
       | ["1"; d] ->
           let i = String.rindex d ':' in
           Some (String.sub d 0 (i + 1) ^ hex_of_bytes e.rb_tag)
       | _ -> None)

(* ---------- case tokens ---------- *)
let colon s = String.split_on_char ':' s
let hx = bytes_of_hex

type tok =
  | TH of n list * n list * (n list * n list * bool) * (n list * n list * n list * n list)
  | TR of n list * n list * (n list * n list * bool) * n list
  | TB of (n list * n list * bool)

let parse_tok (t : string) : tok =
  match colon t with
  | ["H"; k; v; l; tr; cr; kl; kt; vl; vt] -> TH (hx k, hx v, (hx l, hx tr, cr = "1"), (hx kl, hx kt, hx vl, hx vt))
  | ["R"; a; b; l; tr; cr; body] -> TR (hx a, hx b, (hx l, hx tr, cr = "1"), hx body)
  | ["B"; _; _; l; tr; cr] -> TB (hx l, hx tr, cr = "1")
  | _ -> failwith ("bad token " ^ t)

let lay_of (l, t, cr) = { l_lead = l; l_trail = t; l_cr = cr }

let parse_entity (t : string) : entity =
  match colon t with
  | ["E"; host; m; uri; tag; body; hs] ->
      let hl = if hs = "-" then [] else
        List.map (fun kv -> match String.split_on_char '=' kv with
                            | [k; v] -> (hx k, hx v) | _ -> failwith "bad header") (String.split_on_char ';' hs) in
      { j_host = hx host; j_method = hx m; j_uri = hx uri; j_headers = hl; j_tag = hx tag; j_body = hx body }
  | _ -> failwith ("bad entity " ^ t)

(* encoding/json on the whole file, as jsonline.go uses it *)
type jfile = JTokErr | JArr of bool * string list | JStream of bool * string list | JMiss
let json_file (file : n list) : jfile =
  match ask "json" file with
  | None -> JMiss
  | Some a ->
      (match split_blank a with
       | "T" :: _ -> JTokErr
       | "A" :: st :: toks -> JArr (st = "eof", toks)
       | "S" :: st :: toks -> JStream (st = "eof", toks)
       | _ -> JMiss)
