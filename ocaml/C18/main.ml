(* Driver of the extracted registry model (property C18).
   Case  : c18 ret cfg cerr perr def rt req hf k ffail cfail pfail
   Obs   : see harness/cmd/hC18/main.go *)
open Model
open Conv

exception Unparsable of string

let set_of s = if s = "-" || s = "" then [] else List.map int_of_string (String.split_on_char ',' s)

let oracle_of ff cf pf : oracle =
  let mem l n = List.mem (int_of_nat n) l in
  { o_dflt = (fun n -> let i = int_of_nat n in { va = n_of_int (100 + i); vb = n_of_int (200 + i); vc = n_of_int 0 });
    o_fill = (fun n seen -> let i = int_of_nat n in { va = seen.va; vb = n_of_int (300 + i); vc = n_of_int (400 + i) });
    o_ffail = mem ff; o_cfail = mem cf; o_pfail = mem pf }

let case_of (f : string list) : case * oracle =
  match f with
  | ["c18"; ret; cfg; cerr; perr; def; rt; req; hf; k; ff; cf; pf] ->
      let sh = { sh_ret = (if ret = "P" then RPlugin else RFactory);
                 sh_cfg = (match cfg with "N" -> NoCfg | "S" -> CStruct | _ -> CPtr);
                 sh_cerr = bool_of_field cerr; sh_perr = bool_of_field perr;
                 sh_def = (match def with "-" -> DefNone | "V" -> DefVal | _ -> DefNil);
                 sh_rt = (if rt = "M" then TImpl else TIface); sh_named = (rt = "J") } in
      let rq = (match req with "N" -> ReqNew | "F0" -> ReqFactory (false, false) | "F1" -> ReqFactory (true, false)
                             | "G0" -> ReqFactory (false, true) | _ -> ReqFactory (true, true)) in
      ({ cs_shape = sh; cs_req = rq; cs_hf = bool_of_field hf; cs_k = nat_of_int (int_of_string k) },
       oracle_of (set_of ff) (set_of cf) (set_of pf))
  | _ -> raise (Unparsable "case")

(* ---- printing ---- *)
let s_nat n = string_of_int (int_of_nat n)
let s_v (v : cfgv) = Printf.sprintf "%s,%s,%s" (string_of_n v.va) (string_of_n v.vb) (string_of_n v.vc)
let s_arg = function
  | ANone -> "-"
  | ANil -> "nil"
  | AConf c -> Printf.sprintf "#%s=%s" (s_nat c.c_id) (s_v c.c_val)
  | AVal v -> "=" ^ s_v v
let s_ev = function
  | EvDefault n -> "D" ^ s_nat n
  | EvFill (n, FTEmpty, v) -> Printf.sprintf "F%s:E:%s" (s_nat n) (s_v v)
  | EvFill (n, FTConf id, v) -> Printf.sprintf "F%s:#%s:%s" (s_nat n) (s_nat id) (s_v v)
  | EvCtor (n, a) -> Printf.sprintf "C%s:%s" (s_nat n) (s_arg a)
  | EvProd (m, n) -> Printf.sprintf "P%s@%s" (s_nat m) (s_nat n)
let s_evs l = if l = [] then "." else String.concat " " (List.map s_ev l)
let s_err = function EFill n -> "fill" ^ s_nat n | ECtor n -> "ctor" ^ s_nat n | EProd n -> "prod" ^ s_nat n
let s_out = function
  | OOk p -> Printf.sprintf "ok:c%sp%s:%s" (s_nat p.p_ctor) (match p.p_prod with None -> "-" | Some m -> s_nat m) (s_arg p.p_arg)
  | OErr e -> "err:" ^ s_err e
  | OPanic e -> "panic:" ^ s_err e
let s_op (evs, out) = s_evs evs ^ " => " ^ s_out out
let s_obs = function
  | ObsRegPanic -> "regpanic"
  | ObsNew calls -> String.concat " | " ("new" :: List.map s_op calls)
  | ObsFactory (cev, cerr, calls) ->
      String.concat " | " (("fac " ^ s_evs cev ^ " => " ^ (match cerr with None -> "ok" | Some e -> "err:" ^ s_err e)) :: List.map s_op calls)

(* Identities are abstract: the harness numbers pointers by first appearance in the event
   log, the model by allocation.  Renumber the model's by first appearance before printing. *)
let canon_obs (ob : obs) : obs =
  let tbl = Hashtbl.create 16 in
  let id (n : nat) : nat =
    let k = int_of_nat n in
    match Hashtbl.find_opt tbl k with
    | Some v -> v
    | None -> let v = nat_of_int (Hashtbl.length tbl) in Hashtbl.add tbl k v; v in
  let arg = function AConf c -> AConf { c with c_id = id c.c_id } | a -> a in
  let ev = function
    | EvFill (n, FTConf i, v) -> EvFill (n, FTConf (id i), v)
    | EvCtor (n, a) -> EvCtor (n, arg a)
    | e -> e in
  let out = function OOk p -> OOk { p with p_arg = arg p.p_arg } | o -> o in
  let op (evs, o) = let evs' = List.map ev evs in (evs', out o) in
  match ob with
  | ObsRegPanic -> ObsRegPanic
  | ObsNew calls -> ObsNew (List.map op calls)
  | ObsFactory (cev, e, calls) -> let cev' = List.map ev cev in ObsFactory (cev', e, List.map op calls)

(* ---- parsing of an observation ---- *)
let nat_s s = match int_of_string_opt s with Some i when i >= 0 -> nat_of_int i | _ -> raise (Unparsable ("number " ^ s))
let p_v s = match String.split_on_char ',' s with
  | [a; b; c] -> { va = n_of_string a; vb = n_of_string b; vc = n_of_string c }
  | _ -> raise (Unparsable ("value " ^ s))
let after s i = String.sub s i (String.length s - i)
let p_arg s =
  if s = "-" then ANone else if s = "nil" then ANil
  else if String.length s > 0 && s.[0] = '=' then AVal (p_v (after s 1))
  else if String.length s > 0 && s.[0] = '#' then
    (match String.index_opt s '=' with
     | Some i -> AConf { c_id = nat_s (String.sub s 1 (i - 1)); c_val = p_v (after s (i + 1)) }
     | None -> raise (Unparsable ("arg " ^ s)))
  else raise (Unparsable ("arg " ^ s))
let p_ev s =
  if s = "" then raise (Unparsable "empty event") else
  match s.[0] with
  | 'D' -> EvDefault (nat_s (after s 1))
  | 'F' -> (match String.split_on_char ':' (after s 1) with
            | [n; "E"; v] -> EvFill (nat_s n, FTEmpty, p_v v)
            | [n; t; v] when String.length t > 1 && t.[0] = '#' -> EvFill (nat_s n, FTConf (nat_s (after t 1)), p_v v)
            | _ -> raise (Unparsable ("event " ^ s)))
  | 'C' -> (match String.index_opt s ':' with
            | Some i -> EvCtor (nat_s (String.sub s 1 (i - 1)), p_arg (after s (i + 1)))
            | None -> raise (Unparsable ("event " ^ s)))
  | 'P' -> (match String.split_on_char '@' (after s 1) with
            | [m; n] -> EvProd (nat_s m, nat_s n)
            | _ -> raise (Unparsable ("event " ^ s)))
  | _ -> raise (Unparsable ("event " ^ s))
let p_evs s = if s = "." then [] else List.map p_ev (String.split_on_char ' ' s)
let p_err s =
  let pre p = String.length s > String.length p && String.sub s 0 (String.length p) = p in
  if pre "fill" then EFill (nat_s (after s 4))
  else if pre "ctor" then ECtor (nat_s (after s 4))
  else if pre "prod" then EProd (nat_s (after s 4))
  else raise (Unparsable ("error " ^ s))
let p_out s =
  let pre p = String.length s >= String.length p && String.sub s 0 (String.length p) = p in
  if pre "err:" then OErr (p_err (after s 4))
  else if pre "panic:" then OPanic (p_err (after s 6))
  else if pre "ok:c" then
    (match String.index_opt s 'p', String.index_from_opt s 3 ':' with
     | Some i, Some j when i < j ->
         let pr = String.sub s (i + 1) (j - i - 1) in
         OOk { p_ctor = nat_s (String.sub s 4 (i - 4)); p_prod = (if pr = "-" then None else Some (nat_s pr)); p_arg = p_arg (after s (j + 1)) }
     | _ -> raise (Unparsable ("outcome " ^ s)))
  else raise (Unparsable ("outcome " ^ s))
let split_on_str sep s = Str.split_delim (Str.regexp_string sep) s
let p_op s = match split_on_str " => " s with
  | [e; o] -> (p_evs e, p_out o)
  | _ -> raise (Unparsable ("op " ^ s))
let p_obs s =
  if s = "regpanic" then ObsRegPanic else
  match split_on_str " | " s with
  | "new" :: calls -> ObsNew (List.map p_op calls)
  | h :: calls when String.length h > 4 && String.sub h 0 4 = "fac " ->
      (match split_on_str " => " (after h 4) with
       | [e; "ok"] -> ObsFactory (p_evs e, None, List.map p_op calls)
       | [e; o] when String.length o > 4 && String.sub o 0 4 = "err:" -> ObsFactory (p_evs e, Some (p_err (after o 4)), List.map p_op calls)
       | _ -> raise (Unparsable ("creation " ^ h)))
  | _ -> raise (Unparsable "observation")

(* hook cases: the fill is the real decoder (no fill events are recorded); the verdict compares
   every product with the specification-side function expected_arg *)
let replace_all (a : string) (b : string) (s : string) : string = Str.global_replace (Str.regexp_string a) b s

let predict_hook (f : string list) (obs : string) : string * string * bool =
  let go cfg def req ub k ua =
      let sh0 = { sh_ret = RPlugin; sh_cfg = (if cfg = "S" then CStruct else CPtr); sh_cerr = true; sh_perr = false;
                 sh_def = (if def = "-" then DefNone else DefVal); sh_rt = TImpl; sh_named = false } in
      let sh = sh0 in
      (* what the user code does: default V gives a = 100+n, W gives a = 5000+n (violating the
         validate tag max=1000); the decoder overlays the keys of the section and then validates *)
      let overlay seen = { va = (if ua = "-" then seen.va else n_of_string ua);
                           vb = (if ub = "-" then seen.vb else n_of_string ub); vc = seen.vc } in
      let dflt n = let i = int_of_nat n in
        { va = n_of_int ((if def = "W" then 5000 else 100) + i); vb = n_of_int (200 + i); vc = n_of_int 0 } in
      let invalid = (let a0 = (if ua <> "-" then int_of_string ua else if def = "W" then 5000 else if def = "V" then 100 else 0) in a0 > 1000) in
      let o = { o_dflt = dflt; o_fill = (fun _ seen -> overlay seen); o_ffail = (fun _ -> invalid);
                o_cfail = (fun _ -> false); o_pfail = (fun _ -> false) } in
      let kk = int_of_string k in
      let cs = { cs_shape = sh; cs_req = (if req = "N" then ReqNew else ReqFactory (req <> "F0", false)); cs_hf = true; cs_k = nat_of_int kk } in
      let nofill = List.filter (function EvFill _ -> false | _ -> true) in
      let strip = List.map (fun (e, out) -> (nofill e, out)) in
      let pred = s_obs (canon_obs (match run_case cs o with
                        | ObsNew calls -> ObsNew (strip calls)
                        | ObsFactory (cev, e, calls) -> ObsFactory (nofill cev, e, strip calls)
                        | x -> x)) in
      (* the real decoder's error is not one of the instrumented ones *)
      let pred = Str.global_replace (Str.regexp "err:fill[0-9]+") "err:config" pred in
      let has_def = (def <> "-") in
      let op_ok (evs, out) =
        match out with
        | OOk p ->
            let defs = List.filter_map (function EvDefault n -> Some n | _ -> None) evs in
            let ctors = List.filter_map (function EvCtor (c, a) -> Some (c, a) | _ -> None) evs in
            let base = (match defs with [n] when has_def -> Some (dflt n) | [] when not has_def -> Some vzero | _ -> None) in
            (match base, ctors with
             | Some b, [(c, a)] ->
                 let want = overlay b in
                 c = p.p_ctor && a = p.p_arg && p.p_prod = None &&
                 (match a with AConf cf -> sh.sh_cfg = CPtr && cf.c_val = want | AVal v -> sh.sh_cfg = CStruct && v = want | _ -> false)
             | _ -> false)
        | _ -> false in
      (* an invalid configuration: the error is the result and nothing is constructed *)
      let op_err (evs, out) =
        (match out with OErr _ -> true | _ -> false) && List.for_all (function EvCtor _ | EvProd _ -> false | _ -> true) evs in
      let distinct l = List.length (List.sort_uniq compare l) = List.length l in
      let calls_ok calls =
        List.length calls = kk && List.for_all op_ok calls &&
        distinct (List.concat_map (fun (evs, _) -> List.filter_map (function EvDefault n -> Some (int_of_nat n) | _ -> None) evs) calls) &&
        distinct (List.concat_map (fun (evs, _) -> List.filter_map (function EvCtor (_, AConf c) -> Some (int_of_nat c.c_id) | _ -> None) evs) calls) in
      let no_ctor = List.for_all (function EvCtor _ | EvProd _ -> false | _ -> true) in
      let why = if invalid then "an invalid configuration (default overlaid by the section fails validation) did not reach the caller as the error"
                else "product not built from a fresh default overlaid by the decoded settings" in
      let v =
        (match p_obs (replace_all "err:config" "err:fill0" obs) with
         | ObsNew calls when req = "N" ->
             verdict (if invalid then List.length calls = kk && List.for_all op_err calls else calls_ok calls) why
         | ObsFactory (cev, ce, calls) when req <> "N" ->
             (* creation may decode a trial config; it must not construct anything *)
             verdict (no_ctor cev &&
                      (if invalid then
                         (* the error reaches the caller: at creation, or from every call *)
                         (match ce with Some _ -> calls = [] | None -> List.length calls = kk && kk > 0 && List.for_all op_err calls)
                       else ce = None && calls_ok calls)) why
         | _ -> "BAD:unexpected-form"
         | exception Unparsable what -> "BAD:outside-the-model(" ^ what ^ ")") in
      (pred, v, true) in
  match f with
  | ["hook"; cfg; def; req; ub; k] -> go cfg def req ub k "-"
  | ["hook"; cfg; def; req; ub; k; ua] -> go cfg def req ub k ua
  | _ -> ("unknown-case", "BAD:unknown-case", false)

(* kind cases: a constructor registered through the helper of its kind in core/register *)
let kind_index = function
  | "provider" -> Some 0 | "limiter" -> Some 1 | "gun" -> Some 2 | "aggregator" -> Some 3
  | "datasource" -> Some 4 | "datasink" -> Some 5 | _ -> None

let predict_kind (f : string list) (obs : string) : string * string * bool =
  match f with
  | ["kind"; kind; cfg; def; req; ub; k; ua] ->
      (match kind_index kind with
       | Some _ ->
           (* the helpers hand every argument on unchanged (C18_register_helpers; the bridge
              Gen/RegisterHelpers_bridge.v ties the table to register.go): the registry sees the
              shape the user registered *)
           let obs' = replace_all "panic:config" "err:config" obs in
           predict_hook ["hook"; cfg; def; req; ub; k; ua] obs'
       | None -> ("unknown-case", "BAD:unknown-case", false))
  | _ -> ("unknown-case", "BAD:unknown-case", false)

(* sec cases: config sections (right and wrong ones) through the real hooks; reg cases: lookup *)
let predict_sec (f : string list) (obs : string) : string * string * bool =
  match f with
  | ["sec"; form; tys; b; k; req; cfg; def] when String.length tys = 3 ->
      let tk c = (match c with 's' -> TkName true | 'u' -> TkName false | 'n' -> TkNonString | _ -> TkAbsent) in
      let sec = { sc_form = (match form with "S" -> FStrMap | "U" -> FUntypedMap | _ -> FNotMap);
                  sc_types = [tk tys.[0]; tk tys.[1]; tk tys.[2]]; sc_badkey = (k = "1") } in
      if section_ok_b sec then
        predict_hook ["hook"; cfg; def; req; (if b = "1" then "7" else "-"); (if req = "N" then "1" else "2"); "-"] obs
      else begin
        (* the model agrees that such a section never reaches the registry *)
        let sh = { sh_ret = RPlugin; sh_cfg = CPtr; sh_cerr = true; sh_perr = false; sh_def = DefVal; sh_rt = TImpl; sh_named = false } in
        let model_err = (match create_by_section sh true (oracle_of [] [] []) { s_alloc = O; s_def = O; s_fill = O; s_ctor = O; s_prod = O } sec with Inl _ -> true | Inr _ -> false) in
        let want = (if req = "N" then "new | . => err:config" else "fac . => err:config") in
        let pred = (if model_err then want else "model-accepts-the-section") in
        (pred, verdict (obs = want) "a wrong config section (not a map / key that is no string / no, several or a non-string type key / unknown name) did not reach the caller as the error result with nothing run", true)
      end
  | _ -> ("unknown-case", "BAD:unknown-case", false)

let predict_reg (f : string list) (obs : string) : string * string * bool =
  match f with
  | ["reg"; "ptrtype"; _] -> ("regpanic", verdict (obs = "regpanic") "RegisterPtr accepted a value that is no pointer", true)
  | ["reg"; what; req] ->
      let content = (if what = "noname" then [(O, [O])] else []) in
      let sh = { sh_ret = RPlugin; sh_cfg = CPtr; sh_cerr = true; sh_perr = false; sh_def = DefVal; sh_rt = TImpl; sh_named = false } in
      let model_err = (not (registered_b content O (S O))) &&
        (match new_by_name content O (S O) sh true (oracle_of [] [] []) { s_alloc = O; s_def = O; s_fill = O; s_ctor = O; s_prod = O } with Inl _ -> true | Inr _ -> false) in
      let want = (if req = "N" then "new | . => err:lookup" else "fac . => err:lookup") in
      ((if model_err then want else "model-finds-the-entry"),
       verdict (obs = want) "creation by a (plugin type, name) that is not registered did not yield the error result with nothing run", true)
  | _ -> ("unknown-case", "BAD:unknown-case", false)

(* conc cases: products created concurrently.  The model (Model/RegistryConc.v) is run on a
   schedule that replays the order of default invocations read off the observation (every other
   step order gives the same products: C18_concurrent_products); the verdict is conc_b on the
   implementation's records.  The function-valued state of the model (threads, heap) is kept in
   arrays between steps and handed to the model as lookup functions (extensionally the same state). *)
let run_memo (sh : shape) (o : oracle) (d : nat -> tdesc) (total : int) (sched : nat list) : nat -> cthread =
  let tarr = Array.make (total + 1) thread0 in
  let harr = Array.make (total + 2) vzero in
  let tf = fun x -> let i = int_of_nat x in if i < Array.length tarr then tarr.(i) else thread0 in
  let hf = fun x -> let i = int_of_nat x in if i < Array.length harr then harr.(i) else vzero in
  let g = ref { cs_alloc = O; cs_def = O; cs_heap = hf } in
  List.iter (fun t ->
    let ti = int_of_nat t in
    if ti < Array.length tarr then begin
      let a0 = int_of_nat (!g).cs_alloc in
      let r0 = int_of_nat (tarr.(ti)).ct_res in
      let (g1, t1) = run_sched sh o d [t] !g tf in
      let nt = t1 t in
      let ha = g1.cs_heap (nat_of_int a0) in
      let hr = g1.cs_heap (nat_of_int r0) in
      tarr.(ti) <- nt;
      if a0 < Array.length harr then harr.(a0) <- ha;
      if r0 < Array.length harr && r0 <> a0 then harr.(r0) <- hr;
      g := { cs_alloc = g1.cs_alloc; cs_def = g1.cs_def; cs_heap = hf }
    end) sched;
  tf

let predict_conc (f : string list) (obs : string) : string * string * bool =
  match f with
  | ["conc"; via; mode; cfg; def; gs; ks; own] ->
      let gg = int_of_string gs and kk = int_of_string ks in
      let np = gg * kk in
      let ntrial = (if mode = "F" then (if own = "1" then gg else 1) else 0) in
      let total = np + ntrial in
      let has_def = (def <> "-") in
      let sh = { sh_ret = RPlugin; sh_cfg = (if cfg = "S" then CStruct else CPtr); sh_cerr = true; sh_perr = false;
                 sh_def = (if has_def then DefVal else DefNone); sh_rt = TIface; sh_named = false } in
      let o = oracle_of [] [] [] in
      let user_b gi = if own = "1" then 1000 + gi else 7 in
      (* thread t < np is product (t / kk, t mod kk); the others are the trial configs of factory creations *)
      let goroutine t = if t < np then t / kk else (if own = "1" then t - np else 0) in
      let d (t : nat) : tdesc =
        let ti = int_of_nat t in
        { td_fill = (fun v -> { va = v.va; vb = n_of_int (user_b (goroutine ti)); vc = (if via = "r" then n_of_int 1 else v.vc) });
          td_trial = (ti >= np) } in
      let toks = (match String.split_on_char ' ' obs with "conc" :: r -> List.filter (fun x -> x <> "") r | _ -> []) in
      (* a record: a,b,c or a,b,c#id *)
      let p_rec (s : string) : (cfgv * int option) option =
        match String.split_on_char '#' s with
        | [v] -> (try Some (p_v v, None) with _ -> None)
        | [v; i] -> (try Some (p_v v, Some (int_of_string i)) with _ -> None)
        | _ -> None in
      let recs = List.mapi (fun t s -> (t, p_rec s)) toks in
      let n_of_rec v = int_of_n v.va - 100 in
      (* order of the default invocations: product threads by the default value they got, the
         trial configs take the invocations no product shows *)
      let order =
        if not has_def then List.init total (fun t -> t)
        else begin
          let slot = Array.make total (-1) in
          List.iter (fun (t, r) -> match r with
            | Some (v, _) -> let n = n_of_rec v in if n >= 0 && n < total && slot.(n) < 0 && t < np then slot.(n) <- t
            | None -> ()) recs;
          let used = Array.make total false in
          Array.iter (fun t -> if t >= 0 then used.(t) <- true) slot;
          let free = ref (List.filter (fun t -> t >= np) (List.init total (fun t -> t))) in
          let ord = ref [] in
          Array.iter (fun t ->
            if t >= 0 then ord := t :: !ord
            else (match !free with x :: r -> free := r; used.(x) <- true; ord := x :: !ord | [] -> ())) slot;
          let rest = List.filter (fun t -> not used.(t)) (List.init total (fun t -> t)) in
          List.rev !ord @ rest
        end in
      let tf = run_memo sh o d total (sched_of_order (List.map nat_of_int order)) in
      let model_recs = observe_conc d (nat_of_int total) tf in
      let ids = Hashtbl.create 64 in
      let canon i = (match Hashtbl.find_opt ids i with Some v -> v | None -> let v = Hashtbl.length ids in Hashtbl.add ids i v; v) in
      let s_rec (r : crec) = match r.cr_arg with
        | AVal v -> s_v v
        | AConf c -> Printf.sprintf "%s#%d" (s_v c.c_val) (canon (int_of_nat c.c_id))
        | _ -> "X" in
      let pred = String.concat " " ("conc" :: List.map s_rec model_recs) in
      let complete = List.length recs = np && List.for_all (fun (_, r) -> r <> None) recs in
      let obs_recs = List.filter_map (fun (t, r) -> match r with
        | Some (v, id) ->
            let arg = (match id with Some i -> AConf { c_id = nat_of_int i; c_val = v } | None -> AVal v) in
            let dn = (if has_def then Some (nat_of_int (let n = n_of_rec v in if n >= 0 then n else 1000000 + t)) else None) in
            Some { cr_tid = nat_of_int t; cr_def = dn; cr_arg = arg }
        | None -> None) recs in
      let v =
        if not complete then "BAD:a concurrent creation failed or yielded no product"
        else verdict (conc_b sh o d obs_recs) "concurrent products: a product was not built from its own default overlaid by its own settings (or shares a default value / a config with another product)" in
      (pred, v, gg > 1)
  | _ -> ("unknown-case", "BAD:unknown-case", false)

(* hookn cases: a plugin whose config holds a nested plugin, decoded by the real hooks. *)
let predict_hookn (f : string list) (obs : string) : string * string * bool =
  match f with
  | ["hookn"; req; k] ->
      let kk = int_of_string k in
      let inner_sh = { sh_ret = RPlugin; sh_cfg = CPtr; sh_cerr = true; sh_perr = false; sh_def = DefVal; sh_rt = TImpl; sh_named = false } in
      let o0 = oracle_of [] [] [] in
      let o = { o0 with o_fill = (fun _ seen -> { va = seen.va; vb = n_of_int 6; vc = seen.vc }) } in
      (* the inner plugin of the g-th decode of the config data: New on the inner registration *)
      let inner g = let ng = nat_of_int g in
        expected_arg inner_sh true o { s_alloc = ng; s_def = ng; s_fill = ng; s_ctor = ng; s_prod = O } in
      let round g ci co =
        (Printf.sprintf "D%d C%d:%s C%d:outer=5/c%d" g ci (s_arg (inner g)) co ci,
         Printf.sprintf "ok:c%dp-:outer=5/c%d" co ci) in
      let pred =
        if req = "N" then
          String.concat " | " ("new" :: List.init kk (fun j -> let (e, o) = round j (2 * j) (2 * j + 1) in e ^ " => " ^ o))
        else
          (* NewFactory decodes one trial config (constructing its inner plugin), then one per call *)
          String.concat " | " ((Printf.sprintf "fac D0 C0:%s => ok" (s_arg (inner 0))) ::
                               List.init kk (fun j -> let (e, o) = round (j + 1) (2 * j + 1) (2 * j + 2) in e ^ " => " ^ o)) in
      (* specification: every call yields a product whose inner plugin was constructed during that
         call from a fresh default overlaid by the decoded b = 6; inner plugins pairwise distinct *)
      let ops = (match split_on_str " | " obs with _ :: r -> r | [] -> []) in
      let check_op op =
        match split_on_str " => " op with
        | [e; out] ->
            let toks = String.split_on_char ' ' e in
            let outer = List.filter (fun t -> try let i = String.index t ':' in String.length t > i + 7 && String.sub t (i + 1) 6 = "outer=" with Not_found -> false) toks in
            (match outer with
             | [t] ->
                 let i = String.index t ':' in
                 let co = String.sub t 1 (i - 1) in
                 let rest = String.sub t (i + 1) (String.length t - i - 1) in   (* outer=5/c<ci> *)
                 (match String.split_on_char '/' rest with
                  | ["outer=5"; ci] when String.length ci > 1 ->
                      let cin = String.sub ci 1 (String.length ci - 1) in
                      let inner_ev = List.filter (fun t -> String.length t > String.length cin + 2 && String.sub t 0 (String.length cin + 3) = "C" ^ cin ^ ":#") toks in
                      let defs = List.filter (fun t -> String.length t > 1 && t.[0] = 'D') toks in
                      (match inner_ev, defs with
                       | [ie], [d] ->
                           let n = int_of_string (String.sub d 1 (String.length d - 1)) in
                           let eq = String.index ie '=' in
                           let content = String.sub ie (eq + 1) (String.length ie - eq - 1) in
                           let id = String.sub ie (String.index ie '#' + 1) (eq - String.index ie '#' - 1) in
                           if content = Printf.sprintf "%d,6,0" (100 + n) && out = Printf.sprintf "ok:c%sp-:%s" co rest
                           then Some (cin, id) else None
                       | _ -> None)
                  | _ -> None)
             | _ -> None)
        | _ -> None in
      let res = List.map check_op ops in
      let good = List.for_all (fun x -> x <> None) res && List.length ops = kk in
      let distinct l = List.length (List.sort_uniq compare l) = List.length l in
      let inners = List.filter_map (fun x -> x) res in
      let ok = good && distinct (List.map fst inners) && distinct (List.map snd inners)
               && (req = "N" || (match split_on_str " | " obs with h :: _ -> (match split_on_str " => " h with [_; "ok"] -> true | _ -> false) | [] -> false)) in
      (pred, verdict ok "a product was not built from its own freshly decoded config (nested plugin)", kk > 1)
  | _ -> ("unknown-case", "BAD:unknown-case", false)

(* nest cases: overlapping creations of the same registered entry *)
let s_round (r : reround) =
  let (ie, io) = r.re_inner in
  String.concat " " (List.map s_ev r.re_before @ ["["] @ List.map s_ev ie @ ["=>"; s_out io; "]"] @ List.map s_ev r.re_after)
  ^ " => " ^ s_out r.re_out

let canon_nest (ob : nest_obs) : nest_obs =
  let tbl = Hashtbl.create 16 in
  let id (n : nat) : nat =
    let k = int_of_nat n in
    match Hashtbl.find_opt tbl k with
    | Some v -> v
    | None -> let v = nat_of_int (Hashtbl.length tbl) in Hashtbl.add tbl k v; v in
  let arg = function AConf c -> AConf { c with c_id = id c.c_id } | a -> a in
  let ev = function
    | EvFill (n, FTConf i, v) -> EvFill (n, FTConf (id i), v)
    | EvCtor (n, a) -> EvCtor (n, arg a)
    | e -> e in
  let out = function OOk p -> OOk { p with p_arg = arg p.p_arg } | o -> o in
  let evs l = List.map ev l in
  let op (e, o) = let e' = evs e in (e', out o) in
  let round r =
    let b = evs r.re_before in let i = op r.re_inner in let a = evs r.re_after in
    { re_before = b; re_inner = i; re_after = a; re_out = out r.re_out } in
  match ob with
  | NestNew rounds -> NestNew (List.map round rounds)
  | NestFactory (cev, ci, ce, rounds) ->
      let cev' = evs cev in let ci' = op ci in NestFactory (cev', ci', ce, List.map round rounds)

let s_nest = function
  | NestNew rounds -> String.concat " | " ("nestnew" :: List.map s_round rounds)
  | NestFactory (cev, (ie, io), ce, rounds) ->
      String.concat " | "
        ((String.concat " " (["nestfac"] @ List.map s_ev cev @ ["["] @ List.map s_ev ie @ ["=>"; s_out io; "]"])
          ^ " => " ^ (match ce with None -> "ok" | Some e -> "err:" ^ s_err e)) :: List.map s_round rounds)

(* "<before> [ <inner evs> => <inner out> ] <after>" *)
let p_nested (s : string) : event list * op * event list =
  match split_on_str " [ " (" " ^ s) with
  | [b; rest] ->
      (match split_on_str " ]" rest with
       | [inner; a] ->
           let toks x = List.filter (fun t -> t <> "") (String.split_on_char ' ' x) in
           (List.map p_ev (toks b), p_op inner, List.map p_ev (toks a))
       | _ -> raise (Unparsable ("nested " ^ s)))
  | _ -> raise (Unparsable ("nested " ^ s))

let p_round (s : string) : reround =
  (* the outer outcome follows the LAST " => " *)
  let parts = split_on_str " => " s in
  let n = List.length parts in
  if n < 2 then raise (Unparsable ("round " ^ s)) else
  let out = List.nth parts (n - 1) in
  let body = String.concat " => " (List.filteri (fun i _ -> i < n - 1) parts) in
  let (b, i, a) = p_nested body in
  { re_before = b; re_inner = i; re_after = a; re_out = p_out out }

let p_nest (s : string) : nest_obs =
  match split_on_str " | " s with
  | "nestnew" :: rounds -> NestNew (List.map p_round rounds)
  | h :: rounds when String.length h > 8 && String.sub h 0 8 = "nestfac " ->
      let parts = split_on_str " => " (after h 8) in
      let n = List.length parts in
      if n < 2 then raise (Unparsable "creation") else
      let res = List.nth parts (n - 1) in
      let body = String.concat " => " (List.filteri (fun i _ -> i < n - 1) parts) in
      let (b, i, a) = p_nested body in
      if a <> [] then raise (Unparsable "creation constructs") else
      let ce = (if res = "ok" then None
                else if String.length res > 4 && String.sub res 0 4 = "err:" then Some (p_err (after res 4))
                else raise (Unparsable ("creation " ^ res))) in
      NestFactory (b, i, ce, List.map p_round rounds)
  | _ -> raise (Unparsable "observation")

let predict_nest (f : string list) (obs : string) : string * string * bool =
  match f with
  | "nest" :: _mode :: rest ->
      let (cs, o) = case_of ("c18" :: (match rest with
                       | [ret; cfg; cerr; perr; def; rt; req; k; ff; cf; pf] -> [ret; cfg; cerr; perr; def; rt; req; "1"; k; ff; cf; pf]
                       | _ -> raise (Unparsable "case"))) in
      let pred = s_nest (canon_nest (run_nest cs.cs_shape cs.cs_req o cs.cs_k)) in
      let v =
        (match p_nest obs with
         | ob -> verdict (nest_b cs.cs_shape cs.cs_req o ob) "a creation overlapping another one of the same entry was not built from its own config"
         | exception Unparsable what -> "BAD:outside-the-model(" ^ what ^ ")") in
      (pred, v, true)
  | _ -> ("unknown-case", "BAD:unknown-case", false)

(* set cases: the user's settings (keys of the section besides type) through the real hooks, for
   every constructor shape and requested form.  Model: run_case with the fill of parseConf
   (hook_oracle, Model/RegistryDecode.v); verdict: settings_accepted_b decides between "error result,
   nothing constructed" (C18_settings_rejected) and "products built from the default overlaid by the
   settings" (C18_settings_new_config / C18_settings_factory_config). *)
let predict_set (f : string list) (obs : string) : string * string * bool =
  match f with
  | ["set"; ret; cfg; cerr; def; rt; req; k; a; b; c; others] ->
      let empty = (cfg = "E" || cfg = "Q") in
      let sh = { sh_ret = (if ret = "P" then RPlugin else RFactory);
                 sh_cfg = (match cfg with "N" -> NoCfg | "P" -> CPtr | _ -> CStruct);
                 sh_cerr = bool_of_field cerr; sh_perr = false;
                 sh_def = (if def = "-" then DefNone else DefVal);
                 sh_rt = (if rt = "M" then TImpl else TIface); sh_named = false } in
      let opt s = if s = "-" then None else Some (n_of_string s) in
      let nother = if others = "-" then 0 else List.length (String.split_on_char ',' others) in
      let u = { set_a = opt a; set_b = opt b; set_c = opt c; set_other = nat_of_int nother } in
      let fl = decode_target sh empty in
      let dflt n = let i = int_of_nat n in { va = n_of_int (100 + i); vb = n_of_int (200 + i); vc = n_of_int 0 } in
      (* the validator: field a of Cfg carries max=1000 (defaults are valid) *)
      let invalid = (fl = FldABC) && (a <> "-" && int_of_string a > 1000) in
      let o0 = { o_dflt = dflt; o_fill = (fun _ v -> v); o_ffail = (fun _ -> invalid);
                 o_cfail = (fun _ -> false); o_pfail = (fun _ -> false) } in
      let o = hook_oracle fl u o0 in
      let kk = int_of_string k in
      let we = (req <> "F0") in
      let cs = { cs_shape = sh; cs_req = (if req = "N" then ReqNew else ReqFactory (we, false)); cs_hf = true; cs_k = nat_of_int kk } in
      let nofill = List.filter (function EvFill _ -> false | _ -> true) in
      let strip = List.map (fun (e, out) -> (nofill e, out)) in
      let pred = s_obs (canon_obs (match run_case cs o with
                        | ObsNew calls -> ObsNew (strip calls)
                        | ObsFactory (cev, e, calls) -> ObsFactory (nofill cev, e, strip calls)
                        | x -> x)) in
      let pred = Str.global_replace (Str.regexp "\\(err\\|panic\\):fill[0-9]+") "\\1:config" pred in
      let accepted = settings_accepted_b fl u && not invalid in
      let has_def = (def <> "-") && sh.sh_cfg <> NoCfg in
      let defs evs = List.filter_map (function EvDefault n -> Some n | _ -> None) evs in
      let ctors evs = List.filter_map (function EvCtor (c, a) -> Some (c, a) | _ -> None) evs in
      let prods evs = List.filter_map (function EvProd (m, n) -> Some (m, n) | _ -> None) evs in
      let base evs = (match defs evs with [n] when has_def -> Some (dflt n) | [] when not has_def -> Some vzero | _ -> None) in
      let arg_ok a b =
        (match sh.sh_cfg, a with
         | NoCfg, ANone -> true
         | CStruct, AVal v -> v = overlay fl u b
         | CPtr, AConf cf -> cf.c_val = overlay fl u b
         | _ -> false) in
      (* a round that gets a config and calls the constructor *)
      let round_ok evs =
        (match base evs, ctors evs with
         | Some b, [(c, a)] when arg_ok a b -> Some (c, a)
         | _ -> None) in
      let op_plugin (evs, out) =
        (match out, round_ok evs with
         | OOk p, Some (c, a) -> prods evs = [] && p.p_ctor = c && p.p_arg = a && p.p_prod = None
         | _ -> false) in
      let op_facnew (evs, out) =
        (match out, round_ok evs, prods evs with
         | OOk p, Some (c, a), [(m, n)] -> n = c && p.p_ctor = c && p.p_arg = a && p.p_prod = Some m
         | _ -> false) in
      let op_err routed (evs, out) =
        (match out with OErr _ -> routed | OPanic _ -> not routed | _ -> false) && no_construction evs in
      let distinct l = List.length (List.sort_uniq compare l) = List.length l in
      let all_distinct (rounds : event list list) =
        let evs = List.concat rounds in
        distinct (List.map int_of_nat (defs evs)) &&
        distinct (List.map (fun (c, _) -> int_of_nat c) (ctors evs)) &&
        distinct (List.map (fun (m, _) -> int_of_nat m) (prods evs)) &&
        distinct (List.filter_map (function (_, AConf cf) -> Some (int_of_nat cf.c_id) | _ -> None) (ctors evs)) in
      let why = if accepted then "product not built from the registered default overlaid by the section's settings"
                else if invalid then "an invalid configuration (default overlaid by the settings fails validation) did not reach the caller as the error"
                else "settings with a key that names no field of the constructor's config (no config: any key) did not reach the caller as the error result with nothing constructed" in
      let v =
        (match p_obs (replace_all "panic:config" "panic:fill0" (replace_all "err:config" "err:fill0" obs)) with
         | ObsNew calls when req = "N" ->
             verdict (List.length calls = kk &&
                      (if accepted then List.for_all (if sh.sh_ret = RPlugin then op_plugin else op_facnew) calls && all_distinct (List.map fst calls)
                       else List.for_all (op_err true) calls)) why
         | ObsFactory (cev, ce, calls) when req <> "N" ->
             verdict
               (if accepted then
                  ce = None && List.length calls = kk &&
                  (match sh.sh_ret with
                   | RPlugin -> no_construction cev && List.for_all op_plugin calls && all_distinct (cev :: List.map fst calls)
                   | RFactory ->
                       (match round_ok cev with
                        | Some (c, a) ->
                            prods cev = [] &&
                            List.for_all (fun (evs, out) ->
                              match evs, out with
                              | [EvProd (m, n)], OOk p -> n = c && p.p_ctor = c && p.p_arg = a && p.p_prod = Some m
                              | _ -> false) calls &&
                            all_distinct (List.map fst calls)
                        | None -> false))
                else
                  no_construction cev &&
                  (match ce with
                   | Some _ -> calls = []
                   (* a plugin constructor's config is decoded per call: reporting the error from every call is within the property *)
                   | None -> sh.sh_ret = RPlugin && kk > 0 && List.length calls = kk && List.for_all (op_err we) calls)) why
         | _ -> "BAD:unexpected-form"
         | exception Unparsable what -> "BAD:outside-the-model(" ^ what ^ ")") in
      (pred, v, true)
  | _ -> ("unknown-case", "BAD:unknown-case", false)


(* ---------- ovl cases: config structs with map / slice / nested-struct fields (Model/RegistryOverlay.v) ---------- *)
type tr = TNull | TNum of int | TMap of (string * tr) list | TSub of (string * tr) list | TList of tr list | TPtr of (string * tr) list option

let intern_tbl : (string, int) Hashtbl.t = Hashtbl.create 64
let intern_names : (int, string) Hashtbl.t = Hashtbl.create 64
let intern (s : string) : n =
  match Hashtbl.find_opt intern_tbl s with
  | Some i -> n_of_int i
  | None -> let i = Hashtbl.length intern_tbl in Hashtbl.add intern_tbl s i; Hashtbl.add intern_names i s; n_of_int i
let name_of (k : n) : string = match Hashtbl.find_opt intern_names (int_of_n k) with Some s -> s | None -> "?"

let split_top (sep : char) (s : string) : string list =
  let out = ref [] and depth = ref 0 and start = ref 0 in
  String.iteri (fun i c ->
    match c with
    | '{' | '[' | '(' -> incr depth
    | '}' | ']' | ')' -> decr depth
    | c when c = sep && !depth = 0 -> out := String.sub s !start (i - !start) :: !out; start := i + 1
    | _ -> ()) s;
  List.rev (String.sub s !start (String.length s - !start) :: !out)

let rec p_tree (s : string) : tr =
  let len = String.length s in
  if s = "~" then TNull
  else if len = 0 then raise (Unparsable "empty value")
  else if s = "&nil" then TPtr None
  else if s.[0] = '&' then (match p_tree (String.sub s 1 (len - 1)) with TSub kv -> TPtr (Some kv) | _ -> raise (Unparsable ("pointer " ^ s)))
  else if (s.[0] = '{' && s.[len - 1] = '}') || (s.[0] = '(' && s.[len - 1] = ')') then begin
    let inner = String.sub s 1 (len - 2) in
    let kvs = if inner = "" then [] else List.map p_kv (String.split_on_char ';' inner) in
    if s.[0] = '{' then TMap kvs else TSub kvs
  end
  else if s.[0] = '[' && s.[len - 1] = ']' then begin
    let inner = String.sub s 1 (len - 2) in
    TList (if inner = "" then [] else List.map p_tree (String.split_on_char ';' inner))
  end
  else match int_of_string_opt s with Some i when i >= 0 -> TNum i | _ -> raise (Unparsable ("value " ^ s))
and p_kv (kv : string) : string * tr =
  match String.index_opt kv '=' with
  | Some i when i > 0 -> (String.sub kv 0 i, p_tree (String.sub kv (i + 1) (String.length kv - i - 1)))
  | _ -> raise (Unparsable ("key=value " ^ kv))
let p_fields (s : string) : (string * tr) list = if s = "-" then [] else List.map p_kv (split_top ',' s)

let t_num = function TNum i -> i | _ -> raise (Unparsable "number expected")
(* the default of invocation number n (every number + 1000 n), or the zero value of the struct *)
let fval_of (zero : bool) (bump : int) (t : tr) : fval =
  let nn i = n_of_int (if zero then 0 else i + bump) in
  match t with
  | TNum i -> FNum (nn i)
  | TMap kv -> FMap (if zero then [] else List.map (fun (k, v) -> (intern k, nn (t_num v))) kv)
  | TList l -> FList (if zero then [] else List.map (fun v -> nn (t_num v)) l)
  | TSub kv -> FSub (List.map (fun (k, v) -> (intern k, nn (t_num v))) kv)
  | TPtr (Some kv) -> FPtr (zero, List.map (fun (k, v) -> (intern k, nn (t_num v))) kv)
  | TPtr None -> FPtr (true, [])
  | TNull -> raise (Unparsable "nil in a config")
let uval_of (t : tr) : uval =
  match t with
  | TNull -> UNull
  | TNum i -> UNum (n_of_int i)
  | TMap kv -> UMap (List.map (fun (k, v) -> (intern k, (match v with TNull -> None | v -> Some (n_of_int (t_num v))))) kv)
  | TList l -> UList (List.map (fun v -> n_of_int (t_num v)) l)
  | TSub _ | TPtr _ -> raise (Unparsable "struct in a section")
let s_amap (sorted : bool) (m : (n * n) list) : string =
  let l = List.map (fun (k, v) -> (name_of k, string_of_n v)) m in
  let l = if sorted then List.sort compare l else l in
  String.concat ";" (List.map (fun (k, v) -> k ^ "=" ^ v) l)
let s_fval = function
  | FNum x -> string_of_n x
  | FMap m -> "{" ^ s_amap true m ^ "}"
  | FList l -> "[" ^ String.concat ";" (List.map string_of_n l) ^ "]"
  | FSub m -> "(" ^ s_amap false m ^ ")"
  | FPtr (true, _) -> "&nil"
  | FPtr (false, m) -> "&(" ^ s_amap false m ^ ")"
let s_cfg (c : (n * fval) list) : string = String.concat "," (List.map (fun (k, v) -> name_of k ^ "=" ^ s_fval v) c)
let p_cfg (s : string) : (n * fval) list = List.map (fun (k, t) -> (intern k, fval_of false 0 t)) (p_fields s)

type oev = ODef of int | OCtor of int * string | OProd of int
type oout = OutOk of string | OutFac | OutErr | OutPanic
let p_oev (s : string) : oev =
  let num t = match int_of_string_opt t with Some i -> i | None -> raise (Unparsable ("event " ^ s)) in
  if String.length s < 2 then raise (Unparsable ("event " ^ s))
  else match s.[0] with
    | 'D' -> ODef (num (after s 1))
    | 'P' -> OProd (num (after s 1))
    | 'C' -> (match String.index_opt s ':' with
              | Some i -> OCtor (num (String.sub s 1 (i - 1)), after s (i + 1))
              | None -> raise (Unparsable ("event " ^ s)))
    | _ -> raise (Unparsable ("event " ^ s))
let p_oround (s : string) : oev list * oout =
  match split_on_str " => " s with
  | [evs; out] ->
      ((if evs = "." then [] else List.map p_oev (String.split_on_char ' ' evs)),
       (if out = "ok" then OutFac else if out = "err" then OutErr else if out = "panic" then OutPanic
        else if String.length out > 3 && String.sub out 0 3 = "ok:" then OutOk (after out 3)
        else raise (Unparsable ("outcome " ^ out))))
  | _ -> raise (Unparsable ("round " ^ s))
(* (is a factory observation, creation round, product rounds) *)
let p_oobs (s : string) : bool * (oev list * oout) option * (oev list * oout) list =
  match split_on_str " | " s with
  | "new" :: rounds -> (false, None, List.map p_oround rounds)
  | first :: rounds when String.length first > 4 && String.sub first 0 4 = "fac " ->
      (true, Some (p_oround (after first 4)), List.map p_oround rounds)
  | _ -> raise (Unparsable "observation")

let s_oround (evs, out) = (if evs = [] then "." else String.concat " " evs) ^ " => " ^ out

let predict_ovl (f : string list) (obs : string) : string * string * bool =
  match f with
  | ["ovl"; ret; _cfg; def; req; k; dflt_s; sec_s] ->
      let has_def = (def = "V") in
      let dtree = p_fields dflt_s in
      let dflt n = List.map (fun (k, t) -> (intern k, fval_of (not has_def) (1000 * n) t)) dtree in
      let sec = List.map (fun (k, t) -> (intern k, uval_of t)) (p_fields sec_s) in
      let kk = int_of_string k in
      let accepted = ovl_accepted_b (dflt 0) sec in
      let d i = if has_def then ["D" ^ string_of_int i] else [] in
      let e i = dec_cfg (dflt i) sec in
      let idx = List.init kk (fun i -> i) in
      (* the model's prediction: the registry model (run_case, proved: C18_spec) run with a fill that
         keeps only WHICH default invocation a config was made from and fails exactly when the settings
         are not acceptable; the content of a config made from default invocation n is then the decoder
         of Model/RegistryOverlay.v applied to that default: dec_cfg (dflt n) sec *)
      let _ = d in
      let sh = { sh_ret = (if ret = "P" then RPlugin else RFactory);
                 sh_cfg = (if _cfg = "P" then CPtr else CStruct);
                 sh_cerr = false; sh_perr = false;
                 sh_def = (if has_def then DefVal else DefNone); sh_rt = TIface; sh_named = false } in
      let o = { o_dflt = (fun n -> { va = n_of_int (int_of_nat n); vb = N0; vc = N0 }); o_fill = (fun _ v -> v);
                o_ffail = (fun _ -> (match e 0 with None -> true | Some _ -> false));
                o_cfail = (fun _ -> false); o_pfail = (fun _ -> false) } in
      let cs = { cs_shape = sh; cs_req = (if req = "N" then ReqNew else ReqFactory (req = "F1", false)); cs_hf = true; cs_k = nat_of_int kk } in
      let content = function
        | AVal v -> (match e (int_of_n v.va) with Some c -> s_cfg c | None -> "undecodable")
        | AConf cf -> (match e (int_of_n cf.c_val.va) with Some c -> s_cfg c | None -> "undecodable")
        | ANone -> "-" | ANil -> "nil" in
      let m_evs evs = List.filter_map (function
        | EvDefault n -> Some ("D" ^ s_nat n)
        | EvFill _ -> None
        | EvCtor (i, a) -> Some ("C" ^ s_nat i ^ ":" ^ content a)
        | EvProd (m, _) -> Some ("P" ^ s_nat m)) evs in
      let m_out = function OOk p -> "ok:" ^ content p.p_arg | OErr _ -> "err" | OPanic _ -> "panic" in
      let m_op (evs, out) = s_oround (m_evs evs, m_out out) in
      let _ = idx in
      let pred = (match run_case cs o with
                  | ObsNew ops -> "new" ^ String.concat "" (List.map (fun op -> " | " ^ m_op op) ops)
                  | ObsFactory (cev, ce, ops) ->
                      "fac " ^ s_oround (m_evs cev, (match ce with None -> "ok" | Some _ -> "err")) ^
                      String.concat "" (List.map (fun op -> " | " ^ m_op op) ops)
                  | ObsRegPanic -> "regpanic") in
      (* the verdict: the specification on the implementation's observation *)
      let defs evs = List.filter_map (function ODef n -> Some n | _ -> None) evs in
      let ctors evs = List.filter_map (function OCtor (i, c) -> Some (i, c) | _ -> None) evs in
      let prods evs = List.filter_map (function OProd m -> Some m | _ -> None) evs in
      let quiet evs = ctors evs = [] && prods evs = [] in
      let base evs = (match defs evs with [n] when has_def -> Some (dflt n) | [] when not has_def -> Some (dflt 0) | _ -> None) in
      (* a round that makes a config and hands it to the constructor: the config is the round's default overlaid by the settings *)
      let made evs = (match base evs, ctors evs with
                      | Some b, [(i, c)] when cfg_agrees_b b sec (p_cfg c) -> Some (i, c)
                      | _ -> None) in
      let distinct l = List.length (List.sort_uniq compare l) = List.length l in
      let fresh rounds = let evs = List.concat rounds in distinct (defs evs) && distinct (List.map fst (ctors evs)) && distinct (prods evs) in
      let product_round (evs, out) =
        (match made evs, out with
         | Some (_, c), OutOk c' -> c' = c && List.length (prods evs) = (if ret = "F" then 1 else 0)
         | _ -> false) in
      let why = if accepted then "product not built from the registered default overlaid by the section's settings (maps key by key, nested structs field by field, absent / nil keys leave the default)"
                else "settings with a key that names no field of the config (also inside a nested struct) or a value of the wrong kind did not reach the caller as the error result with nothing constructed" in
      let v =
        (match p_oobs obs with
         | (false, None, rounds) when req = "N" ->
             verdict (List.length rounds = kk &&
                      (if accepted then List.for_all product_round rounds && fresh (List.map fst rounds)
                       else List.for_all (fun (evs, out) -> quiet evs && out = OutErr) rounds)) why
         | (true, Some (cev, cout), rounds) when req <> "N" ->
             verdict
               (if accepted then
                  cout = OutFac && List.length rounds = kk &&
                  (if ret = "P" then quiet cev && List.for_all product_round rounds && fresh (cev :: List.map fst rounds)
                   else (match made cev with
                         | Some (_, c) -> prods cev = [] &&
                                          List.for_all (fun (evs, out) -> (match evs with [OProd _] -> true | _ -> false) && out = OutOk c) rounds &&
                                          fresh (List.map fst rounds)
                         | None -> false))
                else
                  quiet cev &&
                  (match cout with
                   | OutErr -> rounds = []
                   | OutFac -> ret = "P" && kk > 0 && List.length rounds = kk &&
                               List.for_all (fun (evs, out) -> quiet evs && out = (if req = "F0" then OutPanic else OutErr)) rounds
                   | _ -> false)) why
         | _ -> "BAD:unexpected-form"
         | exception Unparsable what -> "BAD:outside-the-model(" ^ what ^ ")") in
      (pred, v, true)
  | _ -> ("unknown-case", "BAD:unknown-case", false)

(* ---------- nm cases: registered names are byte strings, found exactly ---------- *)
let predict_nm (f : string list) (obs : string) : string * string * bool =
  match f with
  | ["nm"; _via; req; names; want] ->
      let l = List.mapi (fun i h -> (bytes_of_hex h, nat_of_int i)) (String.split_on_char ',' names) in
      let v = bytes_of_hex want in
      (match nregister_all [] l with
       | None -> ("unknown-case", "BAD:unknown-case", false)
       | Some r ->
           let res = create_named r v in
           let pred = (match res, req with
                       | NReaches e, "N" -> "new | . => ok:" ^ s_nat e
                       | NReaches e, _ -> "fac . => ok | . => ok:" ^ s_nat e
                       | _, "N" -> "new | . => err"
                       | _, _ -> "fac . => err") in
           let none = (if v = [] then NEmpty else NUnknown) in
           let of_out = function
             | OutOk e -> (match int_of_string_opt e with Some i when i >= 0 -> Some (NReaches (nat_of_int i)) | _ -> None)
             | OutErr -> Some none
             | _ -> None in
           let seen = (match p_oobs obs with
                       | (false, None, [([], out)]) when req = "N" -> of_out out
                       | (true, Some ([], OutErr), []) when req <> "N" -> Some none
                       | (true, Some ([], OutFac), [([], out)]) when req <> "N" -> (match out with OutOk _ -> of_out out | _ -> None)
                       | _ -> None
                       | exception Unparsable _ -> None) in
           let why = (match res with
                      | NReaches _ -> "the name did not reach the constructor registered under exactly this name"
                      | _ -> "a name that is not registered (as spelt) did not yield the error result") in
           (pred, (match seen with Some x -> verdict (named_spec_b l v x) why | None -> "BAD:" ^ why), true))
  | _ -> ("unknown-case", "BAD:unknown-case", false)

(* ftype cases: which Go types are requested factory forms *)
let gotype_of = function
  | "f0" | "g0" -> Some { gt_func = true; gt_in = O; gt_outs = [TyIface O] }
  | "f1" | "g1" -> Some { gt_func = true; gt_in = O; gt_outs = [TyIface O; TyError] }
  | "impl" -> Some { gt_func = true; gt_in = O; gt_outs = [TyOther] }
  | "int2" -> Some { gt_func = true; gt_in = O; gt_outs = [TyIface O; TyOther] }
  | "in1" -> Some { gt_func = true; gt_in = S O; gt_outs = [TyIface O] }
  | "in1e" -> Some { gt_func = true; gt_in = S O; gt_outs = [TyIface O; TyError] }
  | "three" -> Some { gt_func = true; gt_in = O; gt_outs = [TyIface O; TyError; TyError] }
  | "none" -> Some { gt_func = true; gt_in = O; gt_outs = [] }
  | "notfunc" | "iface" -> Some { gt_func = false; gt_in = O; gt_outs = [] }
  | "err0" -> Some { gt_func = true; gt_in = O; gt_outs = [TyError] }
  | "err1" -> Some { gt_func = true; gt_in = O; gt_outs = [TyError; TyError] }
  | "other0" -> Some { gt_func = true; gt_in = O; gt_outs = [TyIface (S O)] }
  | "other1" -> Some { gt_func = true; gt_in = O; gt_outs = [TyIface (S O); TyError] }
  | "errfirst" -> Some { gt_func = true; gt_in = O; gt_outs = [TyError; TyIface O] }
  | _ -> None

let predict_ftype (f : string list) (obs : string) : string * string * bool =
  match f with
  | ["ftype"; t; registered; name] ->
      (match gotype_of t with
       | None -> ("unknown-case", "BAD:unknown-case", false)
       | Some gt ->
           let content = (if registered = "1" then [(O, [O])] else []) in
           let n = (if name = "x" then O else S O) in
           let s_k = function Some (TyIface O) -> "1:I" | Some (TyIface _) -> "1:O" | Some TyError -> "1:E" | Some TyOther -> "1:?" | None -> "0:-" in
           let s_fq = function FqPanic -> "panic" | FqLookupErr -> "err:lookup" | FqReaches _ -> "ok" in
           (* the model, as the code goes *)
           let pred = Printf.sprintf "fpt=%s lookup=%s nf=%s" (s_k (factory_plugin_type gt))
                        (if lookup_factory content gt then "1" else "0") (s_fq (new_factory_request content gt n)) in
           (* the specification: the two factory forms (C18_factory_forms, C18_factory_request) *)
           let form = factory_form gt in
           let type_known = (match form with Some (TyIface p, _) -> List.exists (fun (t, _) -> t = p) content | _ -> false) in
           let want = Printf.sprintf "fpt=%s lookup=%s nf=%s" (s_k (match form with Some (k, _) -> Some k | None -> None))
                        (if type_known then "1" else "0")
                        (match form with
                         | None -> "panic"
                         | Some (TyIface p, _) -> if registered_b content p n then "ok" else "err:lookup"
                         | Some _ -> "err:lookup") in
           (pred, verdict (obs = want) "a Go type is not treated by FactoryPluginType / LookupFactory / NewFactory as the factory forms func() P, func() (P, error) say", true))
  | _ -> ("unknown-case", "BAD:unknown-case", false)

let predict_plain (c : string) (obs : string) : string * string * bool =
  let (cs, o) = case_of (split_blank c) in
  let pred = s_obs (canon_obs (run_case cs o)) in

  let v =
    match p_obs obs with
    | ob ->
        if spec_b cs o ob then "ok"
        else "BAD:" ^ String.concat "+" (List.filter (fun x -> x <> "")
               [ (if configured_b cs o ob then "" else "configured");
                 (if errors_b cs o ob then "" else "errors");
                 (if fresh_b cs o ob then "" else "fresh") ])
    | exception Unparsable what -> "BAD:outside-the-model(" ^ what ^ ")"
  in
  (* non-trivial: a config is involved or some user code fails, and at least one product or error exists *)
  let nt = (cs.cs_shape.sh_cfg <> NoCfg || String.length c > 0 && not (String.length c >= 6 && String.sub c (String.length c - 6) 6 = " - - -")) && int_of_nat cs.cs_k > 0 in
  (pred, v, nt)

let predict (c : string) (obs : string) : string * string * bool =
  if String.length c > 5 && String.sub c 0 5 = "nest " then predict_nest (split_blank c) obs else
  if String.length c > 5 && String.sub c 0 5 = "hook " then predict_hook (split_blank c) obs else
  if String.length c > 6 && String.sub c 0 6 = "hookn " then predict_hookn (split_blank c) obs else
  if String.length c > 5 && String.sub c 0 5 = "kind " then predict_kind (split_blank c) obs else
  if String.length c > 5 && String.sub c 0 5 = "conc " then predict_conc (split_blank c) obs else
  if String.length c > 4 && String.sub c 0 4 = "sec " then predict_sec (split_blank c) obs else
  if c = "reg setdefault N" then begin
    (* plugin.SetDefaultRegistry: package-level Register / New on the registry that was set; judged as the plain case *)
    let suffix = " ; default=1 old=err:lookup" in
    let ls = String.length suffix and lo = String.length obs in
    let plain = "c18 P P 1 0 V M N 1 1 - - -" in
    if lo > ls && String.sub obs (lo - ls) ls = suffix then
      let (p, v, nt) = predict_plain plain (String.sub obs 0 (lo - ls)) in (p ^ suffix, v, nt)
    else
      let (p, _, nt) = predict_plain plain obs in
      (p ^ suffix, "BAD:after SetDefaultRegistry the package-level functions do not work on the registry that was set", nt)
  end else
  if String.length c > 4 && String.sub c 0 4 = "reg " then predict_reg (split_blank c) obs else
  if String.length c > 6 && String.sub c 0 6 = "ftype " then predict_ftype (split_blank c) obs else
  if String.length c > 4 && String.sub c 0 4 = "set " then predict_set (split_blank c) obs else
  if String.length c > 4 && String.sub c 0 4 = "ovl " then predict_ovl (split_blank c) obs else
  if String.length c > 3 && String.sub c 0 3 = "nm " then predict_nm (split_blank c) obs else
  predict_plain c obs

let () = run_cases predict
