(* Conversions between text / zarith integers and the datatypes extracted from Coq
   (nat, positive, N, Z stay the extracted inductive types; no Extract Constant). *)
(* zarith's Z is captured BEFORE `open Model`: an extracted model that uses Coq's Z library
   contains a module named Z which would shadow it. Drivers use ZT (or Zt) for zarith. *)
module ZT = Z
module Zt = Z
open Model

let rec pos_of_zt (x : ZT.t) : positive =
  if ZT.equal x ZT.one then XH
  else if ZT.is_even x then XO (pos_of_zt (ZT.shift_right x 1))
  else XI (pos_of_zt (ZT.shift_right x 1))

let rec zt_of_pos (p : positive) : ZT.t =
  match p with
  | XH -> ZT.one
  | XO q -> ZT.shift_left (zt_of_pos q) 1
  | XI q -> ZT.succ (ZT.shift_left (zt_of_pos q) 1)

let n_of_zt (x : ZT.t) : n = if ZT.sign x <= 0 then N0 else Npos (pos_of_zt x)
let zt_of_n (x : n) : ZT.t = match x with N0 -> ZT.zero | Npos p -> zt_of_pos p
let z_of_zt (x : ZT.t) : z =
  if ZT.sign x = 0 then Z0 else if ZT.sign x > 0 then Zpos (pos_of_zt x) else Zneg (pos_of_zt (ZT.neg x))
let zt_of_z (x : z) : ZT.t = match x with Z0 -> ZT.zero | Zpos p -> zt_of_pos p | Zneg p -> ZT.neg (zt_of_pos p)

let n_of_int (i : int) : n = n_of_zt (ZT.of_int i)
let int_of_n (x : n) : int = ZT.to_int (zt_of_n x)
let z_of_int (i : int) : z = z_of_zt (ZT.of_int i)
let int_of_z (x : z) : int = ZT.to_int (zt_of_z x)
let rec nat_of_int (i : int) : nat = if i <= 0 then O else S (nat_of_int (i - 1))
let rec int_of_nat (x : nat) : int = match x with O -> 0 | S k -> 1 + int_of_nat k

let n_of_string s = n_of_zt (ZT.of_string s)
let z_of_string s = z_of_zt (ZT.of_string s)
let string_of_n x = ZT.to_string (zt_of_n x)
let string_of_z x = ZT.to_string (zt_of_z x)

(* byte strings travel as lower-case hex, "-" for empty; in the model they are list N *)
let bytes_of_hex (s : string) : n list =
  if s = "-" || s = "" then []
  else begin
    let len = String.length s / 2 in
    List.init len (fun i -> n_of_int (int_of_string ("0x" ^ String.sub s (2 * i) 2)))
  end

let hex_of_bytes (l : n list) : string =
  if l = [] then "-"
  else String.concat "" (List.map (fun b -> Printf.sprintf "%02x" (int_of_n b)) l)

let bool_of_field s = (s = "1")
let field_of_bool b = if b then "1" else "0"

let split_blank (s : string) : string list = String.split_on_char ' ' s

let read_lines (path : string) : string list =
  let ic = open_in path in
  let rec go acc =
    match input_line ic with
    | l -> if l = "" || l.[0] = '#' then go acc else go (l :: acc)
    | exception End_of_file -> close_in ic; List.rev acc
  in
  go []

(* main loop.  argv.(1) = cases file, argv.(2) = observations of the implementation (aligned).
   For every case print:  <model prediction> TAB <ok|BAD:reason> TAB <1|0 non-trivial>
   where the middle field is the verdict of the executable specification evaluated on the
   IMPLEMENTATION's observation (not on the model's prediction). *)
let run_cases (f : string -> string -> string * string * bool) =
  let cases = read_lines Sys.argv.(1) in
  let obs = if Array.length Sys.argv > 2 then read_lines Sys.argv.(2) else [] in
  let rec go cs os =
    match cs with
    | [] -> ()
    | c :: cr ->
        let o, orest = (match os with [] -> ("", []) | o :: r -> (o, r)) in
        let (p, v, nt) = try f c o with e -> ("model-exception:" ^ Printexc.to_string e, "BAD:model-exception", false) in
        print_string p; print_char '\t'; print_string v; print_char '\t';
        print_string (if nt then "1" else "0"); print_newline ();
        go cr orest
  in
  go cases obs

let verdict (b : bool) (why : string) = if b then "ok" else "BAD:" ^ why
