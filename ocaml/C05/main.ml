(* Driver of the extracted pool/engine model (coq/Model/Pool.v) for property C05.

   case:  run|guns <cancel> <pool> [<pool> ...]          (see harness/cmd/hC05/main.go)
   obs:   R=<nil|ctx|f.<cause>|hang> W=<0|1> G=<0|1> K=<n|-> N=<n> Q=<..> A=<..> C=<created> L=<closed> T=<tokens>
          K = Provider.Run / Aggregator.Run / Gun.Shoot calls of this run that had not returned when Engine.Wait
              returned (- when it did not return); the model's K is what [outstanding_at_wait] says of the history
          N = Provider.Run + Aggregator.Run calls made; the model's N is [total_comp_runs] of the final state
          Q = per pool what Provider.Run returned, A = per pool number of Shoot calls: predicted by the model of the
              grpc/json provider's read loop (Model/GrpcJsonStart.v, [gj_start]) for gj-* pools that run to their end
              undisturbed, echoed otherwise
   A <p>.src token (the ammo file handed its broken element to the grpc/json provider) counts as a failure of that
   provider when the specification [gj_spec_fails] says this configuration has to report it.

   The history tokens (the order in which the REAL await loops, pool fronts and Engine.Run
   took their steps, read from the engine's own log) are turned into the model's events and
   replayed by [grun current]; the prediction is what the model's final state says about
   R/W/G/C/L (followed by the echoed history when every event was enabled in the model).
   The caller's cancel takes effect somewhere between the X0 and X1 tokens; every position of
   that window is tried (see below).
   The verdict is the executable specification (spec_outcome_b / spec_term_b / spec_guns_b)
   evaluated on the implementation's observation.  Its inputs are read off the history up to
   the E.ret marker: the failures that had occurred (results carrying a failure AND the
   <p>.!<cause> entries the mocks log when they fail -- the ground truth does not depend on
   what the engine made of the failure), whether Engine.Run had received nil from every pool,
   and whether the caller had cancelled (ambiguous inside the window: either reading accepted). *)
open Model
open Conv

let cause_of = function
  | "prov" -> CProv | "aggr" -> CAggr | "gun" -> CGunFactory | "warm" -> CWarmUp
  | "sched" -> CSchedFactory | "bind" -> CBind | "panic" -> CShootPanic | _ -> COther

let cause_name = function
  | CProv -> "prov" | CAggr -> "aggr" | CGunFactory -> "gun" | CWarmUp -> "warm"
  | CSchedFactory -> "sched" | CBind -> "bind" | CShootPanic -> "panic" | COther -> "other"

let res_name = function RNil -> "nil" | RCtx -> "ctx" | RFail c -> "f." ^ cause_name c

let res_of_string s =
  if s = "nil" then Some RNil else if s = "ctx" then Some RCtx
  else if String.length s > 2 && String.sub s 0 2 = "f." then Some (RFail (cause_of (String.sub s 2 (String.length s - 2))))
  else None

(* nil | ctx | ooa | f <cause> *)
let parse_err (l : string list) : err * string list =
  match l with
  | "nil" :: r -> (ENil, r)
  | "ctx" :: r -> (ECtx, r)
  | "ooa" :: r -> (EOutOfAmmo, r)
  | "f" :: c :: r -> (EFail (cause_of c), r)
  | _ -> failwith "bad error token"

let choice_of = function [ "u" ] -> ChSuppress | _ -> ChSend

(* one token -> (event option, failure that the token reports) *)
let event_of_token (t : string) : gevent option * (int * cause) option =
  match String.split_on_char '.' t with
  | [ "X0" ] | [ "X1" ] -> (None, None)
  | [ "E"; "ret" ] -> (None, None)
  | [ "E"; "c" ] -> (Some GvEngCtx, None)
  | [ "E"; p ] -> (Some (GvEngRecv (nat_of_int (int_of_string p))), None)
  | [ p; "pre"; o ] ->
      let pi = int_of_string p in
      let o', f = (match o with
        | "ok" -> (PreOk, None) | "gun" -> (PreGunFail, Some (pi, CGunFactory))
        | "warm" -> (PreWarmFail, Some (pi, CWarmUp)) | "sched" -> (PreSchedFail, Some (pi, CSchedFactory))
        | _ -> failwith "bad pre token") in
      (Some (GvPool (nat_of_int pi, PvPre o')), f)
  | [ p; w ] when String.length w > 1 && w.[0] = '!' ->
      (None, Some (int_of_string p, cause_of (String.sub w 1 (String.length w - 1))))
  | [ _; "src" ] | [ _; "wu" ] -> (None, None)
  | _ :: "rfl" :: _ -> (None, None)
  | [ p; "sf" ] -> (Some (GvPool (nat_of_int (int_of_string p), PvSchedFin)), None)
  | [ p; "fc" ] -> (Some (GvPool (nat_of_int (int_of_string p), PvFrontCtx)), None)
  | [ p; "fz" ] -> (Some (GvPool (nat_of_int (int_of_string p), PvFrontClosed)), None)
  | p :: kind :: rest ->
      let pi = int_of_string p in
      let mk m e ch =
        (Some (GvPool (nat_of_int pi, PvMsg (m, ch))), (match e with EFail c -> Some (pi, c) | _ -> None)) in
      (match kind with
       | "P" -> let e, r = parse_err rest in mk (ProvRes e) e (choice_of r)
       | "A" -> let e, r = parse_err rest in mk (AggrRes e) e (choice_of r)
       | "S" -> (match rest with
           | n :: rest' -> let e, r = parse_err rest' in mk (StartRes (nat_of_int (int_of_string n), e)) e (choice_of r)
           | _ -> failwith "bad S token")
       | "R" -> (match rest with
           | id :: rest' -> let e, r = parse_err rest' in mk (RunRes (nat_of_int (int_of_string id), e)) e (choice_of r)
           | _ -> failwith "bad R token")
       | _ -> failwith ("bad token " ^ t))
  | _ -> failwith ("bad token " ^ t)

let field (obs : string list) (k : string) : string =
  let pre = k ^ "=" in
  let n = String.length pre in
  match List.find_opt (fun f -> String.length f >= n && String.sub f 0 n = pre) obs with
  | Some f -> String.sub f n (String.length f - n)
  | None -> ""

let rec pair_list = function [] -> [] | (a, b) :: r -> (nat_of_int a, b) :: pair_list r

(* ---- pools whose provider is the real grpc/json provider: gj-<poison>-<passes>-<limit>-<coe>-<maxsize> ---- *)
type gj = { g_cf : jconf; g_file : jfile; g_unlimited_schedule : bool; g_instances : int }

let pool_fields (spec : string) : string array = Array.of_list (String.split_on_char ',' spec)

let pool_fault (spec : string) : string = let f = pool_fields spec in if Array.length f > 4 then f.(4) else "none"

let gj_of_pool (spec : string) : gj option =
  let f = pool_fields spec in
  if Array.length f < 8 then None
  else match String.split_on_char '-' f.(4) with
    | [ "gj"; poison; passes; limit; coe; _maxsize ] ->
        let po = (match poison with "json" -> PoJson | "io" | "long" -> PoRead | _ -> PoNone) in
        let k = nat_of_int (int_of_string f.(5)) and m = nat_of_int (max 0 (int_of_string f.(2))) in
        Some { g_cf = { j_limit = nat_of_int (int_of_string limit); j_passes = nat_of_int (int_of_string passes); j_coe = (coe = "1") };
               g_file = gj_file k m po; g_unlimited_schedule = (f.(3) = "-1"); g_instances = int_of_string f.(0) }
    | _ -> None

(* ---- pools whose provider is the real JSON decode provider: jd-<poison>-<passes>-<limit>-<style> (Model/JsonDecode.v) ---- *)
type jd = { d_items : jitem list; d_passes : int; d_limit : int; d_style : string; d_chunked : bool;
            d_unlimited_schedule : bool; d_instances : int }

let jd_of_pool (spec : string) : jd option =
  let f = pool_fields spec in
  if Array.length f < 8 then None
  else match String.split_on_char '-' f.(4) with
    | [ "jd"; poison; passes; limit; style ] ->
        let po = (match poison with "bad" -> JpBad | "blank" -> JpBlank | _ -> JpNone) in
        let k = nat_of_int (int_of_string f.(5)) and m = nat_of_int (max 0 (int_of_string f.(2))) in
        Some { d_items = jd_items k m po; d_passes = int_of_string passes; d_limit = int_of_string limit; d_style = style;
               d_chunked = (f.(6) = "1"); d_unlimited_schedule = (f.(3) = "-1"); d_instances = int_of_string f.(0) }
    | _ -> None

(* the model's run of such a pool: an object that does not decode is met in the first pass (part A: the reads of one
   pass); healthy data on a source that can be sought is read pass after pass (part B) *)
let jd_seekable (j : jd) : bool = (j.d_style = "f" || j.d_style = "s")
let jd_eof_with_data (j : jd) : bool = (j.d_style = "e" || j.d_style = "s")

let jd_model (j : jd) : (jdres * int) option =
  let has_bad = jd_spec_fails j.d_items in
  if jd_seekable j && not has_bad && j.d_passes <> 1 then begin
    let a = int_of_nat (jd_count_ammo j.d_items) in
    if j.d_passes = 0 && j.d_limit = 0 && a > 0 then None
    else
      (* a source that hands its last data out with io.EOF: at most all of the pass's ammo are still undecoded when the
         end comes (short reads: fewer; the model of the tree does not depend on it, the guard keeps the io.EOF back) *)
      let pend = if jd_eof_with_data j then a else 0 in
      let (r, d) = jd_passes (nat_of_int 10000) jd_current (nat_of_int j.d_passes) (nat_of_int j.d_limit) (nat_of_int a)
                     (nat_of_int pend) (j.d_items <> []) (nat_of_int 0) (nat_of_int 0) (nat_of_int 0) in
      Some (r, int_of_nat d)
  end else begin
    let chunks = if j.d_chunked then List.map (fun i -> [ i ]) j.d_items else (if j.d_items = [] then [] else [ j.d_items ]) in
    let (r, d) = jd_pass jd_current (nat_of_int j.d_limit) (jd_eof_with_data j) chunks false (nat_of_int 0) in
    Some (r, int_of_nat d)
  end

(* ---- pools whose gun is the real grpc gun: gw-<ver><sc>[p]-<dial>-<list>-<svc>.<svc>... ---- *)
type gw = { w_rf : reflsrv; w_cp : cpconf }

let code_of_outcome (o : string) : int option =
  if String.length o > 1 && (o.[0] = 'e' || o.[0] = 'r') then int_of_string_opt (String.sub o 1 (String.length o - 1)) else None

let gw_of_pool (spec : string) : gw option =
  let f = pool_fields spec in
  if Array.length f < 8 then None
  else match String.split_on_char '-' f.(4) with
    | [ "gw"; versc; dial; lst; svcs ] ->
        let sc = (let t = String.sub versc 1 (String.length versc - 1) in
                  let t = if String.length t > 0 && t.[String.length t - 1] = 'p' then String.sub t 0 (String.length t - 1) else t in
                  try int_of_string t with _ -> 0) in
        let outcome o =
          if String.length o >= 2 && String.sub o 0 2 = "ok" then gw_methods (nat_of_int (try int_of_string (String.sub o 2 (String.length o - 2)) with _ -> 0))
          else if o = "nosym" then RsErr code_not_found           (* an answer without the service: the not-found class *)
          else match code_of_outcome o with
            | Some c -> RsErr (nat_of_int c)
            | None -> RsErr (nat_of_int 2) in                      (* garbage / wrongtype: an error of another class *)
        let outs = if svcs = "none" || svcs = "" then [] else List.map outcome (String.split_on_char '.' svcs) in
        Some { w_rf = { rf_connect = (dial <> "dead");
                        rf_list = (match code_of_outcome lst with Some c -> Some (nat_of_int c) | None -> None);
                        rf_services = gw_services outs };
               w_cp = { cp_enabled = (sc > 0); cp_number = nat_of_int (max 0 (sc - 1)) } }
    | _ -> None

let wcause_name = function
  | WcConnect -> "f.conn" | WcList _ -> "f.list" | WcResolve (s, _) -> "f.res." ^ string_of_int (int_of_nat s)
  | WcPoolNew | WcPoolConnect -> "f.pool"

let table_name (t : (nat * nat) list) : string =
  match List.sort_uniq compare (List.map (fun (s, m) -> (int_of_nat s, int_of_nat m)) t) with
  | [] -> "none"
  | l -> String.concat "+" (List.map (fun (s, m) -> Printf.sprintf "%d:%d" s m) l)

(* ---- pools whose aggregator is the real encoder aggregator: the operations it performed on its encoder / sink
   (observable V, run-length coded: o/O open, e/E encode, f/F flush, c/C close; capital = failed) as an environment of
   Model/EncAggrRun.v: every Encode / Flush but the last Flush is an event of the loops, the last Flush is the deferred
   final one ---- *)
let ea_of_v (v : string) (dropped : bool) : earun option =
  if v = "-" || v = "none" || v = "" then None
  else begin
    let items = List.concat_map (fun it ->
      if String.length it < 2 then []
      else let n = (try int_of_string (String.sub it 1 (String.length it - 1)) with _ -> 1) in
           List.init n (fun _ -> it.[0])) (String.split_on_char '.' v) in
    let opened = List.mem 'o' items in
    let close_ok = not (List.mem 'C' items) in
    let ops = List.filter (fun ch -> ch = 'e' || ch = 'E' || ch = 'f' || ch = 'F') items in
    (* the last flush is the deferred one *)
    let arr = Array.of_list ops in
    let last = ref (-1) in
    Array.iteri (fun i ch -> if ch = 'f' || ch = 'F' then last := i) arr;
    let loop_ops = List.filteri (fun i _ -> i <> !last) ops in
    let final_ok = (!last < 0) || arr.(!last) = 'f' in
    let to_op ch = (match ch with 'e' -> OpEncode true | 'E' -> OpEncode false | 'f' -> OpFlush true | _ -> OpFlush false) in
    Some (ea_of_trace opened (List.map to_op loop_ops) final_ok close_ok dropped)
  end

let ecause_name = function
  | EcOpen -> "open" | EcEncode -> "enc" | EcFlush -> "flush" | EcFinal -> "final" | EcClose -> "close" | EcDropped -> "dropped"

let ea_result_name (l : ecause list) : string = match l with [] -> "nil" | _ -> String.concat "+" (List.map ecause_name l)

(* ---- pools whose gun / schedule factory is built by the real plugin registry: pg-<gun|sched>-<shape>[n][f] ---- *)
type pg = { p_what : string; p_shape : string; p_nil : bool }

let pg_of_pool (spec : string) : pg option =
  let f = pool_fields spec in
  if Array.length f < 8 then None
  else match String.split_on_char '-' f.(4) with
    | [ "pg"; what; sh ] ->
        let sh = ref sh and nl = ref false in
        let continue = ref true in
        while !continue do
          let n = String.length !sh in
          if n > 0 && !sh.[n - 1] = 'n' then (nl := true; sh := String.sub !sh 0 (n - 1))
          else if n > 0 && !sh.[n - 1] = 'f' then sh := String.sub !sh 0 (n - 1)
          else continue := false
        done;
        Some { p_what = what; p_shape = !sh; p_nil = !nl }
    | _ -> None

(* one call: what the registered constructor returned (ok | nil | err | - = not called: its config could not be
   filled) -> the model's arguments of [factory_call] *)
let pg_call ?(num_out = 2) (g : pg) (c : string) : bool * nat option * pval list =
  let direct = if num_out = 2 then (g.p_shape = "ie" || g.p_shape = "fie") else g.p_shape = "i1" in
  let conf = if c = "-" then Some (nat_of_int 2) else None in
  let objnil = (c = "nil") || (c = "err" && g.p_nil) in
  let e = if c = "err" then Some (nat_of_int 1) else None in
  let out = (match g.p_shape with
    | "pe" | "cpe" | "fpe" -> [ VImpl objnil; VErr e ]
    | "ie" | "cie" | "fie" -> [ VPlug objnil; VErr e ]
    | "i1" -> [ VPlug objnil ]
    | _ -> [ VImpl objnil ]) in
  (direct, conf, out)

let fres_name = function FrOk n -> if n then "nil" else "ok" | FrErr _ -> "err" | FrPanic _ -> "perr" | FrCrash -> "crash"

let predict (c : string) (obs : string) : string * string * bool =
  match split_blank c with
  | kind :: cancel :: pool_specs when kind = "run" || kind = "guns" ->
      let npools = List.length pool_specs in
      let of_ = split_blank obs in
      let toks = (match field of_ "T" with "" -> [] | s -> String.split_on_char ',' s) in
      let parsed = List.map event_of_token toks in
      let arr = Array.of_list (List.combine toks parsed) in
      let nt = Array.length arr in
      let index_of t = let r = ref (-1) in Array.iteri (fun i (x, _) -> if !r < 0 && x = t then r := i) arr; !r in
      let i0 = index_of "X0" in
      let i1 = (let i = index_of "X1" in if i < 0 then i0 else i) in
      let ret_idx = (let i = index_of "E.ret" in if i < 0 then nt else i) in
      (* the step with which Engine.Run decided its result: the last E.* entry before E.ret *)
      let d_idx = (let r = ref (-1) in
                   for i = 0 to min (nt - 1) (ret_idx - 1) do
                     let (t, _) = arr.(i) in
                     if String.length t > 2 && String.sub t 0 2 = "E." then r := i
                   done; !r) in
      (* number of instances each start loop started in this run: the StartRes of that pool *)
      let n_inst = Array.make npools 0 in
      Array.iter (fun (_, (ev, _)) -> match ev with
        | Some (GvPool (p, PvMsg (StartRes (n, _), _))) -> if int_of_nat p < npools then n_inst.(int_of_nat p) <- int_of_nat n
        | _ -> ()) arr;
      let cfg = List.map nat_of_int (Array.to_list n_inst) in
      let g0 = ginit cfg in
      let r_obs = field of_ "R" in
      (* The cancel takes effect somewhere between the X0 and X1 entries (cancel() is called in
         between); Engine.Run logs its E.<p> entry before it looks at ctx.Done, so when X0 falls
         between that entry and E.ret the cancel may also precede the look.  Every position of that
         window is a legitimate reading of the log; the first one that the model accepts and that
         reproduces the observed result is used (the first accepted one otherwise). *)
      let events_with_cancel_at k =
        let l = ref [] in
        for i = nt - 1 downto 0 do
          (match fst (snd arr.(i)) with Some ev -> l := ev :: !l | None -> ());
          if i = k then l := GvCancel :: !l
        done;
        !l in
      let candidates =
        if i0 < 0 then [ -1 ]
        else begin
          let lo = if d_idx >= 0 && d_idx < i0 && i0 < ret_idx then d_idx else i0 in
          let rec range a b = if a > b then [] else a :: range (a + 1) b in
          (* k = position of the token before which the cancel is inserted *)
          range i0 i1 @ (if lo < i0 then [ lo ] else [])
        end in
      let run_candidate k =
        let events = if k < 0 then events_with_cancel_at (-1) else events_with_cancel_at k in
        (events, grun current cfg g0 events) in
      (* Q / A: the grpc/json pools that run to their end undisturbed (the caller does not cancel during the run,
         no other pool can fail and cancel the engine's context, only the provider ends the pool) are predicted by
         the model of the provider's read loop; everything else is echoed *)
      let specs = Array.of_list pool_specs in
      let undisturbed p =
        (cancel = "none" || cancel = "after") &&
        (let ok = ref true in
         Array.iteri (fun q sp -> if q <> p && pool_fault sp <> "none" then ok := false) specs; !ok) in
      let obs_list k = (match field of_ k with "" -> [||] | s -> Array.of_list (String.split_on_char ',' s)) in
      let q_obs = obs_list "Q" and a_obs = obs_list "A" in
      (* pools whose provider is a decode provider on the scan decoder (scan-<poison>, k, m): Model/ScanDecode.v *)
      let scan_of_pool p =
        let f = pool_fields specs.(p) in
        if Array.length f >= 8 && String.length f.(4) > 5 && String.sub f.(4) 0 5 = "scan-" then begin
          let po = (match String.sub f.(4) 5 (String.length f.(4) - 5) with "io" | "long" -> SpScan | "bad" -> SpBad | _ -> SpNone) in
          let k = (try int_of_string f.(5) with _ -> 0) and m = max 0 (try int_of_string f.(2) with _ -> 0) in
          Some (sd_file (nat_of_int k) (nat_of_int m) po, f.(3) = "-1", int_of_string f.(0))
        end else None in
      let gj_pred p =
        match scan_of_pool p with
        | Some ((chunks, end_err), unlimited, ninst) when undisturbed p && unlimited && ninst >= 1 ->
            (match dp_run (nat_of_int (List.length chunks + 1)) sd_current chunks end_err (nat_of_int 0) with
             | (PNil, d) -> Some ("nil", Some (int_of_nat d))
             | (PFail, _) -> Some ("f.prov", None)
             | (POutOfFuel, _) -> None)
        | Some _ -> None
        | None ->
        match jd_of_pool specs.(p) with
        | Some j when undisturbed p && j.d_unlimited_schedule && j.d_instances >= 1 ->
            (match jd_model j with
             | Some (JdNil, d) -> Some ("nil", Some d)
             | Some (JdFail, _) -> Some ("f.prov", None)
             | _ -> None)
        | Some _ -> None
        | None ->
        match gj_of_pool specs.(p) with
        | Some g when undisturbed p && g.g_unlimited_schedule && g.g_instances >= 1
                      && (int_of_nat g.g_cf.j_passes <> 0 || int_of_nat g.g_cf.j_limit <> 0) ->
            let (r, d) = gj_start (gj_fuel g.g_cf) g.g_cf g.g_file None in
            (match r with
             | JNil -> Some ("nil", Some (int_of_nat d))
             | JOutOfFuel | JCancelled -> None
             | _ -> Some ("f.prov", None))
        | _ -> None in
      let q_pred = String.concat "," (List.init npools (fun p ->
        match gj_pred p with Some (q, _) -> q | None -> if p < Array.length q_obs then q_obs.(p) else "-")) in
      let a_pred = String.concat "," (List.init npools (fun p ->
        match gj_pred p with Some (_, Some d) -> string_of_int d | _ -> if p < Array.length a_obs then a_obs.(p) else "-")) in
      (* U / M: what the real grpc gun's WarmUp returned and the method table a bound gun got, predicted by the model
         of the warm-up (Model/GrpcWarmUp.v, [warm_up tree_policy]) for every gw pool whose WarmUp was entered *)
      let u_obs = obs_list "U" and m_obs = obs_list "M" in
      let entered p = List.mem (Printf.sprintf "%d.wu" p) toks in
      let gw_pred p = match gw_of_pool specs.(p) with
        | Some w when entered p ->
            (match warm_up tree_policy w.w_rf w.w_cp with
             | WOk (t, _) -> Some ("nil", Some (table_name t))
             | WFail cz -> Some (wcause_name cz, None))
        | _ -> None in
      let u_pred = String.concat "," (List.init npools (fun p ->
        match gw_pred p with Some (u, _) -> u | None -> if p < Array.length u_obs then u_obs.(p) else "-")) in
      let m_pred = String.concat "," (List.init npools (fun p ->
        let o = if p < Array.length m_obs then m_obs.(p) else "-" in
        match gw_pred p with Some (_, Some t) when o <> "-" -> t | Some (_, None) -> "-" | _ -> o)) in
      (* E: what the real encoder aggregator's Run returned, predicted by the model of its run loop
         (Model/EncAggrRun.v, [ea_run tree_epolicy]) on the operations it performed (V) *)
      let e_obs = obs_list "E" and v_obs = obs_list "V" and f_obs = obs_list "F" in
      let ea_env p = if p < Array.length v_obs && p < Array.length e_obs && e_obs.(p) <> "-" then
          (* whether the reporter dropped samples (its queue ran full) is part of the environment: read off the result *)
          ea_of_v v_obs.(p) (List.mem "dropped" (String.split_on_char '+' e_obs.(p)))
        else None in
      let e_pred = String.concat "," (List.init npools (fun p ->
        match ea_env p with
        | Some env -> ea_result_name (ea_run tree_epolicy env)
        | None -> if p < Array.length e_obs then e_obs.(p) else "-")) in
      (* F: per call of a factory built by the real plugin registry, what the registered constructor returned and what
         the factory made of it, predicted by the model (Model/PlugFactory.v, [factory_call tree_cvprog]) *)
      let pg_calls p =
        match pg_of_pool specs.(p) with
        | Some g when p < Array.length f_obs && f_obs.(p) <> "-" && f_obs.(p) <> "none" ->
            Some (g, List.map (fun it -> match String.split_on_char '/' it with [ c; f ] -> (c, f) | _ -> (it, "?"))
                       (String.split_on_char '.' f_obs.(p)))
        | _ -> None in
      let f_pred = String.concat "," (List.init npools (fun p ->
        match pg_calls p with
        | Some (g, calls) ->
            String.concat "." (List.map (fun (c, _) ->
              let (direct, conf, out) = pg_call g c in
              c ^ "/" ^ fres_name (factory_call tree_cvprog (nat_of_int 2) direct conf out)) calls)
        | None -> if p < Array.length f_obs then f_obs.(p) else "-")) in
      let describe (events, res) =
        match res with
        | None ->
            let i = (match first_disabled current cfg g0 events O with Some i -> int_of_nat i | None -> -1) in
            (false, "", Printf.sprintf "REJECTED: event %d of the recorded history is not possible in the model" i)
        | Some g ->
            let r = (match g.eng with None -> "hang" | Some er -> res_name er.er_res) in
            let k = (match outstanding_at_wait current cfg g0 events with Some k -> string_of_int (int_of_nat k) | None -> "-") in
            (true, r, Printf.sprintf "R=%s W=%s G=%s K=%s N=%d Q=%s A=%s U=%s M=%s E=%s V=%s F=%s C=%d L=%d T=%s" r
              (field_of_bool (wait_returns g)) (field_of_bool (terminal g && not (any_panicked g)))
              k (int_of_nat (total_comp_runs g)) q_pred a_pred u_pred m_pred e_pred (field of_ "V") f_pred
              (int_of_nat (total_created g)) (int_of_nat (total_closed g)) (String.concat "," toks)) in
      let results = List.map (fun k -> describe (run_candidate k)) candidates in
      let pred =
        match List.find_opt (fun (ok, r, _) -> ok && r = r_obs) results with
        | Some (_, _, p) -> p
        | None -> (match List.find_opt (fun (ok, _, _) -> ok) results with
                   | Some (_, _, p) -> p
                   | None -> (match results with (_, _, p) :: _ -> p | [] -> "no-candidate")) in
      (* inputs of the specification, read off the history up to the moment Run returned *)
      let before = Array.to_list (Array.sub arr 0 ret_idx) in
      (* the ammo file of a grpc/json pool handed its broken element over: a failure of that provider when the
         specification says this configuration has to report it (and nothing but the provider can end the pool) *)
      let src_fail (t : string) : (int * cause) option =
        match String.split_on_char '.' t with
        | [ p; "src" ] ->
            let pi = int_of_string p in
            (match (if pi < npools then gj_of_pool specs.(pi) else None) with
             | Some g when (cancel = "none" || cancel = "after") && g.g_unlimited_schedule && gj_spec_fails g.g_cf g.g_file ->
                 Some (pi, CProv)
             | _ ->
             (* the JSON decode provider was handed an object that does not decode; no limit, nothing else ends the pool *)
             match (if pi < npools then jd_of_pool specs.(pi) else None) with
             | Some j when (cancel = "none" || cancel = "after") && j.d_unlimited_schedule && j.d_limit = 0
                           && jd_spec_fails j.d_items -> Some (pi, CProv)
             | _ -> None)
        | _ -> None in
      (* the real grpc gun's WarmUp was entered against an endpoint that, by the specification [gw_spec_fails], a warm-up
         cannot succeed against (no connection, no list of services, a listed service whose descriptors are refused
         with anything but NOT_FOUND): the warm-up of that pool failed *)
      let wu_fail (t : string) : (int * cause) option =
        match String.split_on_char '.' t with
        | [ p; "wu" ] ->
            let pi = int_of_string p in
            (match (if pi < npools then gw_of_pool specs.(pi) else None) with
             | Some w when gw_spec_fails w.w_rf -> Some (pi, CWarmUp)
             | _ -> None)
        | _ -> None in
      let src_fail t = match src_fail t with Some f -> Some f | None -> wu_fail t in
      let fails = List.filter_map (fun (t, (_, f)) -> match f with Some _ -> f | None -> src_fail t) before in
      (* Engine.Run had received a nil result from every pool when it returned *)
      let has t = List.exists (fun (x, _) -> x = t) before in
      let all_nil = List.for_all (fun p -> has (Printf.sprintf "%d.fz" p) && has (Printf.sprintf "E.%d" p))
                      (List.init npools (fun p -> p)) in
      (* recv<k> plans: the caller's cancel() is made, and has returned (X1), inside the engine's own log call of the
         E.<p> entry, i.e. after the receive and before the look at ctx.Done that decides the result: cancelled for sure *)
      let is_recv = String.length cancel > 4 && String.sub cancel 0 4 = "recv" in
      let sure_cancelled = i0 >= 0 && d_idx >= 0 && (i1 < d_idx || (is_recv && d_idx < i0 && i1 < ret_idx)) in
      let sure_not_cancelled = i0 < 0 || i0 > ret_idx in
      let all_fails = List.filter_map (fun (_, f) -> f) parsed @ List.filter_map src_fail toks in
      let o = { o_res = (match res_of_string r_obs with Some r -> r | None -> RNil);
                o_wait = (field of_ "W" = "1"); o_settled = (field of_ "G" = "1");
                o_created = nat_of_int (try int_of_string (field of_ "C") with _ -> 0);
                o_closed = nat_of_int (try int_of_string (field of_ "L") with _ -> 0) } in
      let fl = pair_list fails in
      (* "succeeds only if every pool ran out of ammo or schedule": a successful run whose grpc/json pool could only
         end by running out of ammo must have shot everything file and configuration ask for (spec side:
         [gj_spec_delivered], no failure to report) *)
      let short_pool =
        if r_obs <> "nil" then None
        else List.find_map (fun p ->
          match gj_of_pool specs.(p) with
          | Some g when undisturbed p && g.g_unlimited_schedule && g.g_instances >= 1
                        && (int_of_nat g.g_cf.j_passes <> 0 || int_of_nat g.g_cf.j_limit <> 0)
                        && not (gj_spec_fails g.g_cf g.g_file) ->
              let want = int_of_nat (gj_spec_delivered g.g_cf g.g_file) in
              let shot = (try int_of_string a_obs.(p) with _ -> -1) in
              if shot <> want then Some (p, shot, want) else None
          | _ -> None) (List.init npools (fun p -> p)) in
      (* the same for the JSON decode provider: data and configuration say how much there is to shoot ([jd_spec_delivered]) *)
      let short_jd =
        if r_obs <> "nil" then None
        else List.find_map (fun p ->
          match jd_of_pool specs.(p) with
          | Some j when undisturbed p && j.d_unlimited_schedule && j.d_instances >= 1 && not (jd_spec_fails j.d_items)
                        && not (jd_seekable j && j.d_passes = 0 && j.d_limit = 0 && int_of_nat (jd_count_ammo j.d_items) > 0) ->
              let want = int_of_nat (jd_spec_delivered (jd_seekable j) (nat_of_int j.d_passes) (nat_of_int j.d_limit) j.d_items) in
              let shot = (try int_of_string a_obs.(p) with _ -> -1) in
              if shot <> want then Some (p, shot, want, jd_seekable j && jd_eof_with_data j) else None
          | _ -> None) (List.init npools (fun p -> p)) in
      (* the warm-up as a component: what the real gun's WarmUp returned against what the specification says of the
         endpoint -- it has to fail iff [gw_spec_fails], and the failure has to carry the FIRST thing that went wrong
         ([gw_spec_cause]) *)
      let bad_warm = List.find_map (fun p ->
        match gw_of_pool specs.(p) with
        | Some w when entered p && p < Array.length u_obs && u_obs.(p) <> "-" ->
            let want = (match gw_spec_cause w.w_rf with Some cz -> wcause_name cz | None -> "nil") in
            let got = u_obs.(p) in
            if got = want then None
            else if got = "nil" then Some (Printf.sprintf "BAD:outcome:warm-up-nil-despite-failure:grpc-gun pool=%d has-to-report=%s" p want)
            else if want = "nil" then Some (Printf.sprintf "BAD:outcome:warm-up-failed-without-cause:grpc-gun pool=%d reported=%s" p got)
            else Some (Printf.sprintf "BAD:outcome:warm-up-cause-not-the-first-failure:grpc-gun pool=%d reported=%s first=%s" p got want)
        | _ -> None) (List.init npools (fun p -> p)) in
      (* the aggregator as a component: what the real encoder aggregator's Run returned against what the specification
         says of the operations it performed -- an error iff something went wrong ([ea_spec_fails]), carrying the FIRST
         thing that went wrong ([ea_spec_first]) *)
      let bad_aggr = List.find_map (fun p ->
        match ea_env p with
        | Some env ->
            let got = e_obs.(p) in
            let first = (match ea_spec_first env with Some cz -> ecause_name cz | None -> "nil") in
            let got_first = (match String.split_on_char '+' got with x :: _ -> x | [] -> got) in
            if got = "nil" && ea_spec_fails env then
              Some (Printf.sprintf "BAD:outcome:aggregator-nil-despite-failure:encoder-aggregator pool=%d has-to-report=%s ops=%s" p first v_obs.(p))
            else if got <> "nil" && not (ea_spec_fails env) then
              Some (Printf.sprintf "BAD:outcome:aggregator-failed-without-cause:encoder-aggregator pool=%d reported=%s ops=%s" p got v_obs.(p))
            else if got <> "nil" && got_first <> first then
              Some (Printf.sprintf "BAD:outcome:aggregator-cause-not-the-first-failure:encoder-aggregator pool=%d reported=%s first=%s" p got first)
            else None
        | None -> None) (List.init npools (fun p -> p)) in
      (* gun / schedule creation through the plugin registry: every call of the factory against the specification
         [factory_spec] -- a failed creation (constructor error, config fill error) is the factory's error *)
      let bad_factory = List.find_map (fun p ->
        match pg_calls p with
        | Some (g, calls) ->
            List.find_map (fun (c, f) ->
              let (direct, conf, out) = pg_call g c in
              let want = fres_name (factory_spec (nat_of_int 2) (if direct then None else conf) out) in
              if f = want then None
              else if want = "err" then
                Some (Printf.sprintf "BAD:outcome:factory-nil-despite-creation-failure:%s-factory-of-the-plugin-registry pool=%d shape=%s constructor=%s factory=%s" g.p_what p g.p_shape c f)
              else Some (Printf.sprintf "BAD:outcome:factory-result-not-the-constructors:%s-factory-of-the-plugin-registry pool=%d shape=%s constructor=%s factory=%s want=%s" g.p_what p g.p_shape c f want))
              calls
        | None -> None) (List.init npools (fun p -> p)) in
      (* a provider reading a finite file once cannot hand out more ammo than the file holds: pools whose provider is
         provider.DecodeProvider on provider.NewScanDecoder (scan-<poison>: k ammo lines, the broken element, m more) *)
      let beyond_file = List.find_map (fun p ->
        let f = pool_fields specs.(p) in
        if Array.length f >= 8 && String.length f.(4) > 5 && String.sub f.(4) 0 5 = "scan-" then begin
          let lines = (try int_of_string f.(5) with _ -> 0) + max 0 (try int_of_string f.(2) with _ -> 0) in
          let shot = (try int_of_string a_obs.(p) with _ -> 0) in
          if shot > lines then Some (p, shot, lines) else None
        end else None) (List.init npools (fun p -> p)) in
      let verdict =
        if kind = "guns" then begin
          if spec_guns_b o then "ok"
          else begin
            (* which guns stayed open: the warm-up gun of every pool that got one and the guns whose Bind
               failed are never handed to an instance; anything beyond those is a gun of a started instance *)
            let warm = List.length (List.filter (fun t -> match String.split_on_char '.' t with
              | [ _; "pre"; ("ok" | "warm" | "sched") ] -> true | _ -> false) toks) in
            let bindf = List.length (List.filter (fun (ev, f) -> ev <> None && (match f with Some (_, CBind) -> true | _ -> false)) parsed) in
            let unclosed = int_of_nat o.o_created - int_of_nat o.o_closed in
            Printf.sprintf "BAD:guns-unclosed:%s created=%s closed=%s"
              (if unclosed <> warm + bindf then "gun-of-a-started-instance"
               else if bindf > 0 then "warm-up-gun+gun-whose-Bind-failed" else "warm-up-gun")
              (field of_ "C") (field of_ "L")
          end
        end
        else if beyond_file <> None then
          (match beyond_file with
           | Some (p, shot, lines) ->
               Printf.sprintf "BAD:outcome:shots-beyond-the-end-of-the-ammo-file:scan-decoder-provider pool=%d shots=%d ammo-in-the-file=%d run=%s" p shot lines r_obs
           | None -> "ok")
        else if res_of_string r_obs = None then "BAD:run-hang Engine.Run did not return (" ^ r_obs ^ ")"
        else if not ((not sure_not_cancelled && spec_outcome_b fl true all_nil o.o_res) ||
                     (not sure_cancelled && spec_outcome_b fl false all_nil o.o_res)) then begin
          let cancelled = not sure_not_cancelled in
          let fs = String.concat "+" (List.sort_uniq compare (List.map (fun (_, c) -> cause_name c) fails)) in
          let from_wu = List.exists (fun (t, _) -> wu_fail t <> None) before in
          let from_src = (not from_wu) && List.exists (fun (t, _) -> src_fail t <> None) before in
          let from_jd = from_src && List.exists (fun (t, _) -> match src_fail t with
            | Some (pi, _) -> pi < npools && jd_of_pool specs.(pi) <> None | None -> false) before in
          match o.o_res with
          | RNil -> if not all_nil then "BAD:outcome:nil-before-natural-end"
                    else "BAD:outcome:nil-despite-failure:" ^ fs ^ (if from_src then (if from_jd then ":json-decode-provider-swallowed-an-object-that-does-not-decode" else ":grpcjson-provider-swallowed-a-broken-ammo-file") else "")
                         ^ (if from_wu then ":grpc-gun-warm-up-swallowed-a-refused-reflection-request" else "")
          | RCtx -> "BAD:outcome:ctx-error-without-cancel"
          | RFail c -> if cancelled then "BAD:outcome:failure-returned-after-cancel:" ^ cause_name c
                       else "BAD:outcome:cause-not-among-failures:" ^ cause_name c ^ ":occurred=" ^ fs
        end
        else if bad_warm <> None then
          (match bad_warm with Some m -> m | None -> "ok")
        else if bad_aggr <> None then
          (match bad_aggr with Some m -> m | None -> "ok")
        else if bad_factory <> None then
          (match bad_factory with Some m -> m | None -> "ok")
        else if short_pool <> None then
          (match short_pool with
           | Some (p, shot, want) ->
               Printf.sprintf "BAD:outcome:nil-before-out-of-ammo:grpcjson-provider pool=%d shots=%d file-and-config-ask-for=%d" p shot want
           | None -> "ok")
        else if short_jd <> None then
          (match short_jd with
           | Some (p, shot, want, sw) ->
               Printf.sprintf "BAD:outcome:nil-%s:json-decode-provider%s pool=%d shots=%d data-and-config-ask-for=%d"
                 (if shot < want then "before-out-of-ammo" else "after-more-shots-than-asked-for")
                 (if sw then ":source-that-can-be-sought-hands-its-last-data-out-with-EOF" else "") p shot want
           | None -> "ok")
        else if not o.o_wait then begin
          let pre = List.filter_map (fun t -> match String.split_on_char '.' t with
            | [ _; "pre"; o ] when o <> "ok" -> Some ("pre." ^ o) | _ -> None) toks in
          "BAD:wait-hang:" ^ (match pre with [] -> "await-loop" | p :: _ -> p)
        end
        else if not (spec_stopped_b (nat_of_int (try int_of_string (field of_ "K") with _ -> 0))) then
          (* Engine.Wait returned while something the run had started was still executing *)
          Printf.sprintf "BAD:wait-early:started-calls-still-executing n=%s component-runs=%s" (field of_ "K") (field of_ "N")
        else if not o.o_settled then "BAD:goroutines-left"
        else "ok" in
      let nontrivial = all_fails <> [] || List.mem "X0" toks || npools > 1 || cancel <> "none" in
      (pred, verdict, nontrivial)
  | [ "fact"; num_out; shape; _k; _calls ] ->
      (* a factory built by the real plugin registry, called outside the engine: every call against the model
         ([factory_call tree_cvprog], prediction) and the specification ([factory_spec], verdict) *)
      let num_out = int_of_string num_out in
      let fobs = field (split_blank obs) "F" in
      (match pg_of_pool (Printf.sprintf "0,0,0,0,pg-gun-%s,0,0,0" shape) with
       | None -> ("unknown-case", "BAD:unknown-case", false)
       | Some g ->
           let calls = if fobs = "" || fobs = "none" then []
             else List.map (fun it -> match String.split_on_char '/' it with [ c; f ] -> (c, f) | _ -> (it, "?")) (String.split_on_char '.' fobs) in
           let pred = String.concat "." (List.map (fun (c, _) ->
             let (direct, conf, out) = pg_call ~num_out g c in
             c ^ "/" ^ fres_name (factory_call tree_cvprog (nat_of_int num_out) direct conf out)) calls) in
           let bad = List.find_map (fun (c, f) ->
             let (direct, conf, out) = pg_call ~num_out g c in
             let want = fres_name (factory_spec (nat_of_int num_out) (if direct then None else conf) out) in
             if f = want then None
             else if want = "err" || want = "perr" then
               Some (Printf.sprintf "BAD:outcome:factory-nil-despite-creation-failure:gun-factory-of-the-plugin-registry numOut=%d shape=%s constructor=%s factory=%s want=%s" num_out shape c f want)
             else Some (Printf.sprintf "BAD:outcome:factory-result-not-the-constructors:gun-factory-of-the-plugin-registry numOut=%d shape=%s constructor=%s factory=%s want=%s" num_out shape c f want)) calls in
           ("F=" ^ (if calls = [] then fobs else pred), (match bad with Some m -> m | None -> "ok"),
            List.exists (fun (c, _) -> c = "err" || c = "-") calls))
  | _ -> ("unknown-case", "BAD:unknown-case", false)

let () = run_cases predict
