(* Driver of the extracted C16 model (scenario: HCL = YAML). Case format: see harness/cmd/hC16/main.go. *)
open Model
open Conv

let string_of_str (l : n list) : string =
  let b = Buffer.create 16 in
  List.iter (fun c -> Buffer.add_char b (Char.chr (int_of_n c land 255))) l;
  Buffer.contents b
let str_of_hex = bytes_of_hex
let hex_of_str = hex_of_bytes

let q_of_string (s : string) : q =
  match String.split_on_char '/' s with
  | [a; b] -> { qnum = z_of_string a; qden = pos_of_zt (ZT.of_string b) }
  | [a] -> { qnum = z_of_string a; qden = XH }
  | _ -> failwith "bad rational"

let parse_tree (s : string) : value =
  let i = ref 0 in
  let len = String.length s in
  let until stop =
    let j = ref !i in
    while !j < len && not (String.contains stop s.[!j]) do incr j done;
    let r = String.sub s !i (!j - !i) in
    i := !j; r in
  let rec value () : value =
    let c = s.[!i] in
    incr i;
    match c with
    | 'n' -> VNull
    | 't' -> VBool true
    | 'f' -> VBool false
    | 'i' -> VInt (z_of_string (until ",)"))
    | 'r' -> VFloat (q_of_string (until ",)"))
    | 's' -> VStr (str_of_hex (until ",)"))
    | 'l' ->
        incr i;
        let acc = ref [] in
        while s.[!i] <> ')' do
          acc := value () :: !acc;
          if s.[!i] = ',' then incr i
        done;
        incr i;
        VList (List.rev !acc)
    | 'm' ->
        incr i;
        let acc = ref [] in
        while s.[!i] <> ')' do
          let k = str_of_hex (until ":") in
          incr i;
          let v = value () in
          acc := (k, v) :: !acc;
          if s.[!i] = ',' then incr i
        done;
        incr i;
        VMap (List.rev !acc)
    | _ -> failwith "bad tree token"
  in
  value ()

(* canonical dump: as harness/internal/a16schema DumpDetailed (plugins opened, empty = nil) *)
let rec dump (c : cval) : string =
  match c with
  | CNil -> "N"
  | CBool b -> if b then "b1" else "b0"
  | CInt z -> "i" ^ string_of_z z
  | CFloat q -> "r" ^ string_of_z q.qnum ^ "/" ^ ZT.to_string (zt_of_pos q.qden)
  | CStr s -> "s" ^ hex_of_str s
  | CStruct l -> "{" ^ String.concat ";" (List.map dump l) ^ "}"
  | CSlice [] -> "N"
  | CSlice l -> "[" ^ String.concat ";" (List.map dump l) ^ "]"
  | CMap [] -> "N"
  | CMap kvs ->
      let l = List.map (fun (k, v) -> (string_of_str k, hex_of_str k ^ "=" ^ dump v)) kvs in
      let l = List.sort (fun (a, _) (b, _) -> compare a b) l in
      "<" ^ String.concat ";" (List.map snd l) ^ ">"
  | CAny v -> (match v with VNull -> "N" | _ -> "A")
  | CPlugin (name, _, conf) -> "P" ^ hex_of_str name ^ (match conf with CNil -> "N" | c' -> dump c')

let no_env (_ : n list) : n list option = None
let no_prop (_ : n list) (_ : n list) : n list option = None
let no_orc (_ : okind) (_ : n list) : z option = None
let no_orcq (_ : n list) : q option = None

let show (r : cval res) : string =
  match r with Ok c -> dump c | Err _ -> "err" | Fuel -> "fuel"

(* config.DecodeAndValidate into AmmoConfig (the C17 decoder on the regenerated schema) *)
let dv (t : value) : cval res =
  with_ctor (fun t -> decode_and_validate no_env no_prop no_orc no_orcq gen_registry model_factory_lazy (fuel_for t)
                        gen_ammo_schema gen_ammo_default t) t

(* the YAML front-end: ParseAmmoConfig = DecodeMap (decoder + the guard on scenario weights, Model/ScenarioGuard.v) *)
let decode_tree (t : value) : string = show (read_yaml dv gen_ammo_schema t)
(* the HCL front-end: ConvertHCLToAmmo = DecodeMap after the tag-driven marshalling *)
let decode_hcl (hv : hval list) : string = show (read_hcl dv gen_ammo_schema gen_hcl_root hv)

(* what gohcl makes of the description: the HCL-side struct value, read off the documented tree by yaml key *)
let rec to_hval (k : hkind) (v : value) : hval =
  match k, v with
  | _, VNull -> HAbsent
  | HStr, VStr s -> HS s
  | HInt, VInt z -> HI z
  | HBool, VBool b -> HB b
  | HStrList, VList l -> HL (List.map (fun x -> match x with VStr s -> s | _ -> []) l)
  | HStrMap, VMap kvs -> HM (List.map (fun (k', x) -> (k', (match x with VStr s -> s | _ -> []))) kvs)
  | HStruct fs, VMap kvs -> HR (fields_of fs kvs)
  | HStructList fs, VList l -> HRs (List.map (fun x -> match x with VMap kvs -> fields_of fs kvs | _ -> []) l)
  | _, _ -> HAbsent
and fields_of (fs : hfield list) (kvs : (n list * value) list) : hval list =
  List.map (fun f ->
    match List.find_opt (fun (k', _) -> k' = h_yaml f) kvs with
    | Some (_, x) -> to_hval (h_kind f) x
    | None ->
        (* a field gohcl cannot leave nil (plain attribute of list/map type, repeated block) is the empty value *)
        (match h_kind f with
         | HStrList -> if h_optional f then HAbsent else HL []
         | HStrMap -> if h_optional f then HAbsent else HM []
         | HStructList _ -> HRs []
         | _ -> HAbsent)) fs

(* ---- case kind loc: the locals stage (Model/HclLocals.v); expression encoding: see harness/cmd/hC16/locals.go *)
let str_of_string (x : string) : n list = List.init (String.length x) (fun i -> n_of_int (Char.code x.[i]))

let rec lexpr_of (v : value) : lexpr =
  match v with
  | VStr x -> ELit (LS x)
  | VNull -> ELit LNull
  | VList (VInt tag :: rest) ->
      (match int_of_z tag, rest with
       | 0, [VStr name] -> ERef name
       | 1, [a; b] -> ECat (lexpr_of a, lexpr_of b)
       | 2, [a; b] -> EConcat (lexpr_of a, lexpr_of b)
       | 3, [a; b] -> EMerge (lexpr_of a, lexpr_of b)
       | 4, [a; b] -> ECoalesce (lexpr_of a, lexpr_of b)
       | _ -> failwith "bad expression")
  | VList l -> ELit (LL (List.map (fun x -> match x with VStr y -> y | _ -> failwith "bad list literal") l))
  | VMap kvs -> ELit (LM (List.map (fun (k, x) -> (k, (match x with VStr y -> y | _ -> failwith "bad map literal"))) kvs))
  | _ -> failwith "bad expression"

let value_of_lval (v : lval) : value =
  match v with
  | LS x -> VStr x
  | LL l -> VList (List.map (fun x -> VStr x) l)
  | LM kvs -> VMap (List.map (fun (k, x) -> (k, VStr x)) kvs)
  | LNull -> VNull

let get_field (obs : string) (p : string) : string =
  match List.find_opt (fun x -> String.length x > String.length p && String.sub x 0 (String.length p) = p) (split_blank obs) with
  | Some x -> String.sub x (String.length p) (String.length x - String.length p)
  | None -> "?"

let predict_loc (btok : string) (bodytok : string) (obs : string) : string * string * bool =
  let blocks = (match parse_tree btok with
                | VList l -> List.map (fun b -> match b with VMap kvs -> List.map (fun (k, e) -> (k, lexpr_of e)) kvs | _ -> failwith "bad block") l
                | _ -> failwith "bad blocks") in
  let body = (match parse_tree bodytok with VMap kvs -> kvs | _ -> failwith "bad body") in
  let field k kvs = List.find_opt (fun (k', _) -> k' = str_of_string k) kvs in
  let reqs = (match field "reqs" body with Some (_, VList l) -> List.map (fun r -> match r with VMap kvs -> kvs | _ -> failwith "bad request") l | _ -> []) in
  let steps = (match field "steps" body with Some (_, e) -> lexpr_of e | None -> failwith "no steps") in
  let req_keys = ["uri"; "headers"; "tag"; "body"] in
  (* the body attributes in a fixed order, with the place each value goes to; uri is a plain string field, the others
     can be nil (pointer, map, slice): null leaves them out *)
  let slots = List.concat (List.mapi (fun i r ->
      List.filter_map (fun k -> match field k r with Some (_, e) -> Some ((i, k), (k <> "uri", lexpr_of e)) | None -> None) req_keys) reqs) in
  let exprs = List.map snd slots @ [(true, steps)] in
  let describe (vals : lval option list) : value =
    let n = List.length slots in
    let req_vals = List.combine (List.map fst slots) (List.filteri (fun i _ -> i < n) vals) in
    let rs = List.mapi (fun i _ ->
        VMap ([(str_of_string "name", VStr (str_of_string ("r" ^ string_of_int i))); (str_of_string "method", VStr (str_of_string "GET"))]
              @ List.filter_map (fun ((j, k), v) ->
                    match v with Some v when j = i -> Some (str_of_string k, value_of_lval v) | _ -> None) req_vals)) reqs in
    VMap [(str_of_string "requests", VList rs);
          (str_of_string "scenarios", VList [VMap ([(str_of_string "name", VStr (str_of_string "s"))]
                                                   @ (match List.nth vals n with
                                                      | Some v -> [(str_of_string "requests", value_of_lval v)]
                                                      | None -> []))])] in
  let get = get_field obs in
  (* prediction: the code-shaped model (accumulator loop); verdict: the specification (nearest definition above) *)
  let pred = (match parse_hcl_fields blocks exprs with
              | Some vals -> Printf.sprintf "y=%s hl== hi==" (decode_tree (describe vals))
              | None -> "y=- hl=err hi=-") in
  let v, nt =
    (match spec_fields blocks exprs with
     | Some vals ->
         let dy = decode_tree (describe vals) in
         ((if get "y=" = "panic" || get "hl=" = "panic" || get "hi=" = "panic" then "BAD:panic"
           else if get "y=" <> dy then "BAD:yaml-of-the-evaluated-locals-program-not-as-specified"
           else if get "hl=" <> "=" then "BAD:hcl-locals-blocks-differ-from-yaml"
           else if get "hi=" <> "=" then "BAD:hcl-with-locals-written-out-differs-from-yaml"
           else "ok"), dy <> "err")
     | None ->
         ((if get "hl=" = "err" then "ok"
           else if get "hl=" = "panic" then "BAD:panic"
           else "BAD:hcl-accepts-a-local-without-a-value"), true)) in
  (pred, v, nt)

let predict (c : string) (obs : string) : string * string * bool =
  match split_blank c with
  | ["loc"; btok; bodytok] -> predict_loc btok bodytok obs
  | ["scn"; tok] ->
      let tree = parse_tree tok in
      let dy = decode_tree tree in
      let hv = (match tree with VMap kvs -> fields_of gen_hcl_root kvs | _ -> []) in
      let dh = decode_hcl hv in
      let same a = if a = dy then "=" else a in
      let pred = Printf.sprintf "y=%s yml== h=%s hl=%s e== ya==" dy (same dh) (same dh) in
      let parts = split_blank obs in
      let get p = (match List.find_opt (fun x -> String.length x > String.length p && String.sub x 0 (String.length p) = p) parts with
                   | Some x -> String.sub x (String.length p) (String.length x - String.length p) | None -> "?") in
      let v =
        if get "y=" = "panic" || get "h=" = "panic" || get "hl=" = "panic" then "BAD:panic"
        else if get "yml=" <> "=" then "BAD:yml-file-differs-from-yaml"
        else if get "h=" <> "=" then "BAD:hcl-differs-from-yaml"
        else if get "hl=" <> "=" then "BAD:hcl-with-locals-differs-from-yaml"
        else if get "e=" <> "=" then "BAD:edited-file-hcl-differs-from-yaml"
        else if get "ya=" <> "=" then "BAD:yaml-with-anchors-and-flow-style-differs-from-yaml"
        else "ok" in
      (* non-trivial: a description the YAML front-end accepts, or one that the decoder alone would accept and the
         guard of the shared entry point refuses (both front-ends must refuse it) *)
      (pred, v, get "y=" <> "err" || (match dv tree with Ok _ -> true | _ -> false))
  | ["ext"; namehex; how; tok] ->
      (* format selection by the file name (Model/ScenarioGuard.v format_of / read_file).  how: m = the file holds the
         description in the syntax its name selects; x = in the OTHER syntax (must be refused: the name decides, not
         the content); a = there is no such file *)
      let tree = parse_tree tok in
      let name = str_of_hex namehex in
      let hv = (match tree with VMap kvs -> fields_of gen_hcl_root kvs | _ -> []) in
      let expected =
        (match how with
         | "m" -> show (read_file dv gen_ammo_schema gen_hcl_root name tree hv)
         | _ -> "err") in
      let r = get_field obs "r=" in
      let v = if r = "panic" then "BAD:panic"
              else if r = expected then "ok"
              else (match how, format_of name with
                    | "m", Some FHcl -> "BAD:file-named-hcl-not-read-as-hcl"
                    | "m", Some FYaml -> "BAD:file-named-yaml-or-yml-not-read-as-yaml"
                    | "m", None -> "BAD:file-of-another-extension-accepted"
                    | "x", _ -> "BAD:format-chosen-by-content-not-by-name"
                    | _, _ -> "BAD:missing-file-accepted") in
      ("r=" ^ expected, v, how <> "a")
  | ["prv"; kind; _tok] ->
      (* the ammo the provider hands out (harness/cmd/hC16/prv.go).  Whether the provider accepts the description and
         how many ammo it yields is NOT modelled here (the y field is echoed); judged: both HCL renderings yield exactly
         the ammo of the YAML one, or are refused as it is *)
      let get = get_field obs in
      let y = get "y=" in
      let who = if kind = "g" then "grpc" else "http" in
      let v =
        if y = "panic" || y = "hang" || get "h=" = "panic" || get "hl=" = "panic" || get "h=" = "hang" || get "hl=" = "hang"
        then "BAD:" ^ who ^ "-provider-panic-or-hang"
        else if get "h=" <> "=" then "BAD:" ^ who ^ "-provider-ammo-of-hcl-differs-from-yaml"
        else if get "hl=" <> "=" then "BAD:" ^ who ^ "-provider-ammo-of-hcl-with-locals-differs-from-yaml"
        else if get "yl=" <> "=" then "BAD:" ^ who ^ "-provider-ammo-of-yaml-in-another-layout-differs-from-yaml"
        else if get "hh=" <> "=" then "BAD:" ^ who ^ "-provider-ammo-of-hcl-in-another-layout-differs-from-yaml"
        else "ok" in
      (Printf.sprintf "y=%s h== hl== yl== hh==" y, v, y <> "err")
  | ["lay"; _seed; tok] ->
      (* the layout of the file as a generated dimension (harness/cmd/hC16/layout.go): key / block order, scalar styles
         incl. literal block scalars and heredocs, what the file ends with.  Every block scalar / heredoc the printers
         wrote is listed in bs= as style:text:string; the extracted read_block / heredoc_value (Model/BlockScalar.v)
         must read each text as that string (the printer is held to the model), and chomp_for must agree that a clip /
         strip header was admissible; then every layout has to mean what the fixed layout means *)
      let tree = parse_tree tok in
      let dy = decode_tree tree in
      let get = get_field obs in
      let audit_ok =
        (match get "bs=" with
         | "-" -> true
         | a ->
             List.for_all (fun e ->
                 match String.split_on_char ':' e with
                 | [st; text; want] ->
                     let text = str_of_hex text and want = str_of_hex want in
                     (match st with
                      | "s" -> read_block Strip text = want && chomp_for want = Strip
                      | "c" -> read_block Clip text = want && chomp_for want = Clip
                      | "k" -> read_block Keep text = want
                      | "h" -> heredoc_value text = Some want && read_block Keep text = want
                      | _ -> false)
                 | _ -> false) (String.split_on_char ',' a)) in
      let fields = ["y1="; "y2="; "y3="; "h1="; "h2="] in
      let v =
        if not audit_ok then "BAD:bad-case-layout-printer-wrote-a-block-the-model-reads-otherwise"
        else if List.exists (fun f -> get f = "panic") ("y=" :: fields) then "BAD:panic"
        else if get "y1=" <> "=" || get "y2=" <> "=" then "BAD:yaml-in-another-layout-differs-from-yaml"
        else if get "y3=" <> "=" then "BAD:yml-in-another-layout-differs-from-yaml"
        else if get "h1=" <> "=" then "BAD:hcl-in-another-layout-differs-from-yaml"
        else if get "h2=" <> "=" then "BAD:hcl-with-locals-in-another-layout-differs-from-yaml"
        else "ok" in
      (Printf.sprintf "y=%s y1== y2== y3== h1== h2== bs=%s" dy (get "bs="), v,
       get "y=" <> "err" || (match dv tree with Ok _ -> true | _ -> false))
  | _ -> ("bad-case", "BAD:bad-case", false)

let () = run_cases predict
