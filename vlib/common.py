"""Shared machinery of the /verif checks (python3, stdlib only).

A check plugin (checks/Cxx.py) defines  run(ctx) -> None  and uses the helpers below:
  ctx.build_harness(name)            go build -tags verif of harness/cmd/<name> against /repo now
  ctx.coq(targets)                   (re)generate _CoqProject, source gate, make the .vo targets
  ctx.properties()                   recompile Properties/Cxx.v, count theorems, capture Print Assumptions
  ctx.ocaml_model(name)              compile extracted model + hand-written driver -> build/bin/<name>
  ctx.violation(key, what, replay)   record a violation (suppressed iff key listed in known_findings.json)
  ctx.broken(what, detail)           record a broken proof/bridge/correspondence (tie no longer checks)
  ctx.finish(coverage)               write evidence, print verdict lines, exit
"""
import fcntl
import glob
import hashlib
import json
import os
import re
import shutil
import subprocess
import sys
import time

VERIF = os.path.dirname(os.path.dirname(os.path.abspath(__file__)))
REPO = os.environ.get("VERIF_REPO", "/repo")
COQ = os.path.join(VERIF, "coq")
BUILD = os.path.join(VERIF, "build")
BIN = os.path.join(BUILD, "bin")
LOGS = os.path.join(BUILD, "logs")
HARNESS = os.path.join(VERIF, "harness")

GOENV = {
    "GOFLAGS": "-mod=mod",
    "GOPROXY": "off",
    "GOSUMDB": "off",
    "GOTOOLCHAIN": "local",
    "CGO_ENABLED": os.environ.get("CGO_ENABLED", "0"),
}


def goenv(extra=None):
    e = dict(os.environ)
    e.update(GOENV)
    if extra:
        e.update(extra)
    return e


def sh(cmd, cwd=None, env=None, timeout=None, stdin=None, check=False):
    """Run a command (list or shell string); returns (rc, stdout+stderr text)."""
    shell = isinstance(cmd, str)
    try:
        p = subprocess.run(cmd, cwd=cwd, env=env, shell=shell, stdin=stdin,
                           stdout=subprocess.PIPE, stderr=subprocess.STDOUT,
                           timeout=timeout)
        out = p.stdout.decode("utf-8", "replace")
        rc = p.returncode
    except subprocess.TimeoutExpired as ex:
        out = (ex.stdout or b"").decode("utf-8", "replace") + "\n[timeout after %ss]" % timeout
        rc = 124
    if check and rc != 0:
        raise RuntimeError("command failed (%d): %s\n%s" % (rc, cmd, out))
    return rc, out


def sh2(cmd, cwd=None, env=None, timeout=None, stdin_data=None):
    """Run a command; returns (rc, stdout, stderr) separately."""
    try:
        p = subprocess.run(cmd, cwd=cwd, env=env, shell=isinstance(cmd, str),
                           input=stdin_data, stdout=subprocess.PIPE, stderr=subprocess.PIPE,
                           timeout=timeout)
        return p.returncode, p.stdout.decode("utf-8", "replace"), p.stderr.decode("utf-8", "replace")
    except subprocess.TimeoutExpired as ex:
        return 124, (ex.stdout or b"").decode("utf-8", "replace"), \
            (ex.stderr or b"").decode("utf-8", "replace") + "\n[timeout after %ss]" % timeout


class Lock:
    def __init__(self, name):
        os.makedirs(BUILD, exist_ok=True)
        self.path = os.path.join(BUILD, name + ".lock")

    def __enter__(self):
        self.f = open(self.path, "w")
        fcntl.flock(self.f, fcntl.LOCK_EX)
        return self

    def __exit__(self, *a):
        fcntl.flock(self.f, fcntl.LOCK_UN)
        self.f.close()


# ----------------------------------------------------------------------------------------
# Source gate: no axioms, no admits, no kernel switches anywhere in the development.

FORBIDDEN_WORDS = [
    r"\bAdmitted\b", r"\badmit\b", r"\bAxiom\b", r"\bAxioms\b", r"\bParameter\b", r"\bParameters\b",
    r"\bConjecture\b", r"\bConjectures\b", r"\bAdmit\s+Obligations\b", r"\bgive_up\b",
    r"Unset\s+Guard\s+Checking", r"Unset\s+Positivity\s+Checking", r"Unset\s+Universe\s+Checking",
    r"\bbypass_check\b", r"Local\s+Unset\s+Guard", r"\bnative_compute\b",
]
SECTION_ONLY = [r"\bVariable\b", r"\bVariables\b", r"\bHypothesis\b", r"\bHypotheses\b", r"\bContext\b"]


def strip_coq_comments(src):
    out = []
    depth = 0
    i = 0
    instr = False
    while i < len(src):
        if depth == 0 and src[i] == '"':
            instr = not instr
            out.append(src[i])
            i += 1
            continue
        if not instr and src.startswith("(*", i):
            depth += 1
            i += 2
            continue
        if not instr and depth > 0 and src.startswith("*)", i):
            depth -= 1
            i += 2
            continue
        if depth == 0:
            out.append(src[i])
        elif src[i] == "\n":
            out.append("\n")
        i += 1
    return "".join(out)


def strip_coq_strings(src):
    return re.sub(r'"[^"]*"', '""', src)


def gate_file(path):
    """Returns list of (line, message) problems."""
    src = strip_coq_strings(strip_coq_comments(open(path).read()))
    problems = []
    depth = 0
    for ln, line in enumerate(src.split("\n"), 1):
        for w in FORBIDDEN_WORDS:
            if re.search(w, line):
                problems.append((ln, "forbidden: " + w))
        # sentence-level tracking of Section/Module Type nesting (approximate, line based)
        for m in re.finditer(r"\b(Section|End)\s+([A-Za-z_][A-Za-z0-9_']*)\s*\.", line):
            if m.group(1) == "Section":
                depth += 1
            elif depth > 0:
                depth -= 1
        if depth == 0:
            for w in SECTION_ONLY:
                if re.search(r"^\s*(Local\s+|Global\s+)?" + w[2:], line):
                    problems.append((ln, "outside a Section: " + w))
    return problems


REQ_RE = re.compile(r"(?:From\s+PV\s+)?Require\s+(?:Import\s+|Export\s+)?([^.]*(?:\.[A-Za-z_][A-Za-z0-9_']*)*)\s*\.(?:\s|$)")


def dep_closure(targets):
    """.v files (absolute) in the PV project that the given .vo/.v targets depend on, transitively."""
    todo = []
    for t in targets:
        t = t[:-1] if t.endswith(".vo") else t
        todo.append(os.path.join(COQ, t))
    seen = set()
    while todo:
        f = todo.pop()
        if f in seen or not os.path.exists(f):
            continue
        seen.add(f)
        src = strip_coq_comments(open(f).read())
        for m in re.finditer(r"\bRequire\b([^.]|\.(?=[A-Za-z_]))*\.", src):
            for name in re.findall(r"\b(?:PV\.)?([A-Z][A-Za-z0-9_]*)\.([A-Za-z_][A-Za-z0-9_']*)\b", m.group(0)):
                cand = os.path.join(COQ, name[0], name[1] + ".v")
                if os.path.exists(cand):
                    todo.append(cand)
    return sorted(seen)


def gate_all(targets=None):
    """Source gate over the dependency closure of the targets (all files when targets is None)."""
    problems = []
    files = dep_closure(targets) if targets else sorted(glob.glob(os.path.join(COQ, "**", "*.v"), recursive=True))
    for path in files:
        for ln, msg in gate_file(path):
            problems.append("%s:%d: %s" % (os.path.relpath(path, VERIF), ln, msg))
    cp = os.path.join(COQ, "_CoqProject")
    if os.path.exists(cp):
        txt = open(cp).read()
        for flag in ("-type-in-type", "-impredicative-set", "-bypass", "-vos", "-vok", "-native"):
            if flag in txt:
                problems.append("_CoqProject: forbidden flag " + flag)
    return problems


# ----------------------------------------------------------------------------------------
# Coq build

def write_coqproject():
    files = []
    for sub in ("Lib", "Model", "Gen", "Proofs", "Properties", "Extract"):
        for p in sorted(glob.glob(os.path.join(COQ, sub, "*.v"))):
            files.append(os.path.relpath(p, COQ))
    txt = "-Q . PV\n-arg -w -arg -notation-overridden,-deprecated-hint-without-locality,-deprecated-instance-without-locality\n" + "\n".join(files) + "\n"
    path = os.path.join(COQ, "_CoqProject")
    old = open(path).read() if os.path.exists(path) else None
    if old != txt:
        open(path, "w").write(txt)
        return True
    return not os.path.exists(os.path.join(COQ, "Makefile"))


def coq_make(targets, timeout=1500, jobs=16):
    """Build the given .vo targets (paths relative to coq/). Returns (ok, log)."""
    os.makedirs(LOGS, exist_ok=True)
    os.makedirs(os.path.join(COQ, "extracted"), exist_ok=True)
    with Lock("coq"):
        regen = write_coqproject()
        if regen:
            rc, out = sh(["coq_makefile", "-f", "_CoqProject", "-o", "Makefile"], cwd=COQ, timeout=120)
            if rc != 0:
                return False, out
        cmd = ["timeout", str(timeout), "make", "-k", "-j%d" % jobs] + list(targets)
        rc, out = sh(cmd, cwd=COQ, timeout=timeout + 30)
        return rc == 0, out


def coq_targets_exist(targets):
    return all(os.path.exists(os.path.join(COQ, t[:-1] if t.endswith(".vo") else t)) for t in targets)


THEOREM_RE = re.compile(r"^\s*(Theorem|Lemma|Corollary|Example|Fact|Remark|Proposition)\s+([A-Za-z_][A-Za-z0-9_']*)", re.M)


def count_statements(vfile):
    src = strip_coq_comments(open(vfile).read())
    return [(m.group(1), m.group(2)) for m in THEOREM_RE.finditer(src)]


def parse_assumptions(log):
    """Parse the output of `Print Assumptions` sentences in a coqc log."""
    res = []
    closed = 0
    blocks = re.split(r"\n(?=Closed under the global context|Axioms:)", "\n" + log)
    for b in blocks:
        b = b.strip()
        if b.startswith("Closed under the global context"):
            closed += 1
        elif b.startswith("Axioms:"):
            for m in re.finditer(r"^([A-Za-z_][A-Za-z0-9_.']*)\s*:", b[len("Axioms:"):], re.M):
                if m.group(1) not in res:
                    res.append(m.group(1))
    return closed, res


# ----------------------------------------------------------------------------------------
# known findings

def load_known():
    p = os.path.join(VERIF, "known_findings.json")
    if not os.path.exists(p):
        return []
    return json.load(open(p)).get("findings", [])


# ----------------------------------------------------------------------------------------

def sync_gomod():
    """harness/go.mod = /repo/go.mod's requirements + a replace of pandora by /repo, so that the
    harness resolves every dependency to exactly the versions the repository pins (offline)."""
    src = open(os.path.join(REPO, "go.mod")).read()
    body = re.sub(r"^module\s+\S+\s*$", "", src, count=1, flags=re.M)
    txt = ("module verifharness\n" + body.rstrip("\n") +
           "\n\nrequire github.com/yandex/pandora v0.0.0\n\nreplace github.com/yandex/pandora => %s\n" % REPO)
    path = os.path.join(HARNESS, "go.mod")
    if not os.path.exists(path) or open(path).read() != txt:
        open(path, "w").write(txt)
    gosum_src = os.path.join(REPO, "go.sum")
    if os.path.exists(gosum_src):
        shutil.copyfile(gosum_src, os.path.join(HARNESS, "go.sum"))


class Ctx:
    def __init__(self, prop, tier, seed, replay=None):
        self.prop = prop
        self.tier = tier
        self.seed = seed
        self.replay = replay
        self.t0 = time.time()
        self.work = os.path.join(VERIF, "work", "%s-%s-%d" % (prop, tier, os.getpid()))
        os.makedirs(self.work, exist_ok=True)
        os.makedirs(BIN, exist_ok=True)
        os.makedirs(LOGS, exist_ok=True)
        os.makedirs(os.path.join(VERIF, "replays"), exist_ok=True)
        os.makedirs(os.path.join(VERIF, "evidence"), exist_ok=True)
        self.violations = []       # (key, what, replay_path, concrete)
        self.known_hits = {}       # key -> what
        self.brokens = []          # (what, replay_path)
        self.obligations = 0
        self.discharged = 0
        self.axioms = []
        self.closed_count = 0
        self.statements = []
        self.notes = []
        self.known = [k for k in load_known() if k.get("property") == prop]
        self.keep_work = False

    # -- logging
    def log(self, *a):
        print("[%s %6.1fs]" % (self.prop, time.time() - self.t0), *a, flush=True)

    def quick(self):
        return self.tier == "quick"

    def pick(self, q, t):
        return q if self.tier == "quick" else t

    # -- builds
    def build_harness(self, name, race=False, tags="verif"):
        """go build of harness/cmd/<name> against the current /repo tree. Returns path or None."""
        out = os.path.join(BIN, name + ("-race" if race else ""))
        cmd = ["go", "build", "-tags", tags, "-o", out]
        env = goenv()
        if race:
            cmd.insert(2, "-race")
            env["CGO_ENABLED"] = "1"
        cmd.append("./cmd/" + name)
        t = time.time()
        with Lock("gomod"):
            sync_gomod()
            rc, txt = sh(cmd, cwd=HARNESS, env=env, timeout=1200)
        self.log("go build %s: rc=%d %.1fs" % (name, rc, time.time() - t))
        if rc != 0:
            p = self.write_replay("harness-build", "go build of the correspondence harness failed against the current tree "
                                  "(the tie between model and code cannot be checked)\n\n" + txt)
            self.brokens.append(("harness %s no longer builds against /repo" % name, p))
            return None
        return out

    def coq(self, targets, what="coq build"):
        t = time.time()
        probs = gate_all(targets)
        if probs:
            p = self.write_replay("gate", "source gate refused the Coq development:\n" + "\n".join(probs))
            self.brokens.append(("source gate: " + probs[0], p))
            return False
        ok, out = coq_make(targets)
        open(os.path.join(LOGS, "%s.make.log" % self.prop), "w").write(out)
        self.log("%s: ok=%s %.1fs" % (what, ok, time.time() - t))
        if not ok:
            m = re.search(r'File "([^"]+)", line (\d+)', out)
            where = ("%s:%s" % (m.group(1), m.group(2))) if m else "?"
            ls = out.strip().split("\n")
            first = next((i for i, l in enumerate(ls) if l.startswith('File "')), None)
            err = ("\n".join(ls[first:first + 25]) + "\n...\n") if first is not None and first < len(ls) - 40 else ""
            tail = err + "\n".join(ls[-40:])
            p = self.write_replay("coq-build", "Coq build failed at %s (targets %s)\n\n%s" % (where, " ".join(targets), tail))
            self.brokens.append(("proof obligation or bridge no longer checks: " + where, p))
        return ok

    def properties(self, extra_files=()):
        """Recompile Properties/<prop>.v (always), count theorem statements, capture Print Assumptions."""
        vf = os.path.join(COQ, "Properties", self.prop + ".v")
        files = [vf] + [os.path.join(COQ, f) for f in extra_files]
        stmts = []
        for f in files:
            if os.path.exists(f):
                stmts += [(k, n, os.path.relpath(f, COQ)) for (k, n) in count_statements(f)]
        self.statements = stmts
        self.obligations = len(stmts)
        # logical names of every obligations file, for the coqchk re-check of the thorough tier
        self.obligation_modules = []
        for f in files:
            if os.path.exists(f):
                rel = os.path.relpath(f, COQ)[:-2]
                self.obligation_modules.append("PV." + rel.replace(os.sep, "."))
        for f in files:
            vo = f + "o"
            if os.path.exists(vo):
                os.remove(vo)
        targets = [os.path.relpath(f, COQ) + "o" for f in files if os.path.exists(f)]
        ok = self.coq(targets, what="properties")
        if ok:
            log = open(os.path.join(LOGS, "%s.make.log" % self.prop)).read()
            self.closed_count, self.axioms = parse_assumptions(log)
            self.discharged = self.obligations
        else:
            # the statements of the obligation files that did compile are discharged; those of the file that no
            # longer checks (and of files make did not reach) are not
            self.discharged = sum(1 for (_, _, rel) in stmts if os.path.exists(os.path.join(COQ, rel) + "o"))
        return ok

    def ocaml_model(self, name, extracted, driver_dir):
        """Compile coq/extracted/<extracted>.ml[i] (as module Model) + ocaml/common/*.ml + ocaml/<driver_dir>/*.ml."""
        src = os.path.join(COQ, "extracted")
        bdir = os.path.join(BUILD, "ocaml", name)
        os.makedirs(bdir, exist_ok=True)
        files = []
        for ext in (".mli", ".ml"):
            p = os.path.join(src, extracted + ext)
            if not os.path.exists(p):
                self.brokens.append(("extracted model %s missing" % p, self.write_replay("extract", "missing " + p)))
                return None
            shutil.copyfile(p, os.path.join(bdir, "model" + ext))
            files.append("model" + ext)
        for d in ("common", driver_dir):
            for p in sorted(glob.glob(os.path.join(VERIF, "ocaml", d, "*.ml"))):
                if os.path.basename(p) == "main.ml":
                    continue
                shutil.copyfile(p, os.path.join(bdir, os.path.basename(p)))
                files.append(os.path.basename(p))
        shutil.copyfile(os.path.join(VERIF, "ocaml", driver_dir, "main.ml"), os.path.join(bdir, "main.ml"))
        files.append("main.ml")
        out = os.path.join(BIN, name)
        h = hashlib.sha256()
        for f in files:
            h.update(open(os.path.join(bdir, f), "rb").read())
        stamp = os.path.join(bdir, "stamp")
        if os.path.exists(out) and os.path.exists(stamp) and open(stamp).read() == h.hexdigest():
            return out
        t = time.time()
        rc, txt = sh(["ocamlfind", "ocamlopt", "-w", "-a", "-inline", "50", "-package", "zarith,str", "-linkpkg", "-o", out] + files,
                     cwd=bdir, timeout=600)
        self.log("ocaml build %s: rc=%d %.1fs" % (name, rc, time.time() - t))
        if rc != 0:
            p = self.write_replay("ocaml", "ocaml build of the extracted model failed\n" + txt)
            self.brokens.append(("extracted model does not build", p))
            return None
        open(stamp, "w").write(h.hexdigest())
        return out

    def coqchk(self, timeout=2400):
        """Thorough tier: re-check Properties/<prop>.vo and everything it depends on with the
        independent checker coqchk and record the axioms it reports."""
        t = time.time()
        mods = list(getattr(self, "obligation_modules", None) or ["PV.Properties." + self.prop])
        if "PV.Properties." + self.prop not in mods:
            mods.insert(0, "PV.Properties." + self.prop)
        cmd = ["timeout", str(timeout), "coqchk", "-silent", "-o", "-Q", ".", "PV"] + mods
        rc, out = sh(cmd, cwd=COQ, timeout=timeout + 30)
        if rc != 0 and rc != 124:
            # a concurrent build may have been rewriting a .vo: once more, under the build lock
            with Lock("coq"):
                rc, out = sh(cmd, cwd=COQ, timeout=timeout + 30)
        self.log("coqchk: rc=%d %.1fs" % (rc, time.time() - t))
        summary = out[out.find("CONTEXT SUMMARY"):] if "CONTEXT SUMMARY" in out else out[-2000:]
        open(os.path.join(LOGS, "%s.coqchk.log" % self.prop), "w").write(out)
        if rc != 0:
            self.broken("coqchk rejected (or timed out on) the compiled proofs of %s" % self.prop, out[-3000:])
            return None
        m = re.search(r"\* Axioms:(.*?)\n\s*\n\* Constants/Inductives relying on type-in-type", summary, re.S)
        axioms = [a.strip() for a in (m.group(1).split("\n") if m else []) if a.strip() and a.strip() != "<none>"]
        bad = [l for l in summary.split("\n") if ("type-in-type" in l or "unsafe" in l or "positivity is assumed" in l) and "<none>" not in l]
        if bad:
            self.broken("coqchk reports disabled kernel checks", summary)
        return {"coqchk_axioms": axioms, "coqchk_modules": mods, "coqchk_wall_s": round(time.time() - t, 1)}

    # -- reporting
    def write_replay(self, tag, text):
        n = len(glob.glob(os.path.join(VERIF, "replays", "%s-*" % self.prop)))
        p = os.path.join(VERIF, "replays", "%s-%s-%d-%d-%s.txt" % (self.prop, self.tier, self.seed, n, tag))
        with open(p, "w") as f:
            f.write("# property %s  tier %s  seed %d\n" % (self.prop, self.tier, self.seed))
            f.write("# rerun: ./check %s --replay %s\n" % (self.prop, os.path.relpath(p, VERIF)))
            f.write(text if text.endswith("\n") else text + "\n")
        return p

    def known_match(self, key):
        for k in self.known:
            if k.get("status", "known") != "known":
                continue
            if k.get("key") == key:
                return k
        return None

    def violation(self, key, what, replay_text):
        """A concrete input/history on which the implementation breaks the property."""
        k = self.known_match(key)
        if k is not None:
            if key not in self.known_hits:
                self.known_hits[key] = k.get("what", what)
            return False
        if any(v[0] == key for v in self.violations):
            return True
        p = self.write_replay(re.sub(r"[^A-Za-z0-9_.-]+", "_", key)[:60], "# finding key: %s\n# %s\n%s" % (key, what, replay_text))
        self.violations.append((key, what, p))
        return True

    def broken(self, what, detail):
        p = self.write_replay("broken", "# %s\n%s" % (what, detail))
        self.brokens.append((what, p))

    def finish(self, coverage, assumptions=None, level="proof"):
        wall = time.time() - self.t0
        cov = dict(coverage)
        cov.setdefault("obligations", self.obligations)
        cov.setdefault("discharged", self.discharged)
        cov.setdefault("checker_cmd", "coqc 8.16.1 via coq_makefile (full .vo build) of coq/Properties/%s.v and its dependencies; source gate vlib/common.py:gate_all" % self.prop)
        tb = ["Coq 8.16.1 kernel (coqc; vm_compute used; native_compute not used)",
              "axioms reported by Print Assumptions under the property theorems: " + (", ".join(self.axioms) if self.axioms else "none (all %d printed 'Closed under the global context')" % self.closed_count)]
        cov.setdefault("trusted_base", tb + list(cov.pop("trusted_base_extra", [])))
        cov.setdefault("statements", ["%s %s (%s)" % s for s in self.statements])
        cov["known_findings_hit"] = sorted(self.known_hits)
        cov["broken"] = [b[0] for b in self.brokens]
        ev = {
            "property_id": self.prop,
            "tier": self.tier,
            "seed": self.seed,
            "level": level,
            "coverage": cov,
            "assumptions": assumptions or [],
            "wall_s": round(wall, 2),
            "violations": len(self.violations) + len(self.brokens),
        }
        if not self.replay:   # a replay run re-examines given cases; it is not a coverage run
            with open(os.path.join(VERIF, "evidence", self.prop + ".json"), "w") as f:
                json.dump(ev, f, indent=1, sort_keys=True)
                f.write("\n")
        for key, what in sorted(self.known_hits.items()):
            print("KNOWN-FINDING: property=%s %s [%s]" % (self.prop, what, key))
        rc = 0
        for key, what, p in self.violations:
            print("VIOLATION property=%s replay=%s" % (self.prop, p))
            print("  finding: %s -- %s" % (key, what))
            rc = 1
        if not self.violations:
            for what, p in self.brokens:
                print("VIOLATION property=%s replay=%s no-failing-input-found" % (self.prop, p))
                print("  broken: %s" % what)
                rc = 1
        else:
            for what, p in self.brokens:
                print("  also broken: %s (%s)" % (what, p))
        if rc == 0 and not self.keep_work:
            shutil.rmtree(self.work, ignore_errors=True)
        self.log("done rc=%d wall=%.1fs evaluations=%s" % (rc, wall, cov.get("evaluations")))
        sys.exit(rc)


# ----------------------------------------------------------------------------------------
# generic line-by-line comparison of implementation observations and model predictions

def read_lines(path):
    with open(path) as f:
        return [l.rstrip("\n") for l in f]


def compare_lines(cases, obs, pred):
    """Returns indices where obs != pred (all three lists are aligned)."""
    bad = []
    n = min(len(cases), len(obs), len(pred))
    for i in range(n):
        if obs[i] != pred[i]:
            bad.append(i)
    if not (len(cases) == len(obs) == len(pred)):
        bad.append(n)
    return bad


# ----------------------------------------------------------------------------------------
# The standard correspondence + specification pass.
#
#   harness gen  -> cases.txt          (corpus lines first, then generated from the seed)
#   harness run  -> obs.txt            (what the implementation did, one line per case)
#   modelrun cases.txt obs.txt -> one line per case:  pred TAB ok|BAD:why TAB nontrivial
#
# Verdict per case:
#   BAD             -> the implementation's observation violates the executable specification:
#                      concrete violation, replay = the case line  (ctx.violation)
#   ok, pred != obs -> the model no longer describes the code on this input (correspondence broken)

def corpus_lines(prop):
    out = []
    for p in sorted(glob.glob(os.path.join(VERIF, "corpus", prop, "*.txt"))):
        out += [l for l in read_lines(p) if l.strip() and not l.startswith("#")]
    return out


def correspondence(ctx, harness_bin, model_bin, key_fn=None, tier=None, what_fn=None,
                   run_timeout=1800, extra_gen_args=(), extra_run_args=(), label=""):
    tier = tier or ctx.tier
    w = ctx.work
    sfx = label or tier
    cases_p = os.path.join(w, "cases-%s.txt" % sfx)
    obs_p = os.path.join(w, "obs-%s.txt" % sfx)
    mod_p = os.path.join(w, "mod-%s.txt" % sfx)
    if ctx.replay:
        cases = [l for l in read_lines(ctx.replay) if l.strip() and not l.startswith("#")]
    else:
        gen_p = os.path.join(w, "gen-%s.txt" % sfx)
        rc, out = sh([harness_bin, "gen", "-seed", str(ctx.seed), "-tier", tier, "-out", gen_p] + list(extra_gen_args), timeout=600)
        if rc != 0:
            ctx.broken("harness gen failed", out)
            return None
        cases = corpus_lines(ctx.prop) + read_lines(gen_p)
    with open(cases_p, "w") as f:
        f.write("\n".join(cases) + ("\n" if cases else ""))
    t = time.time()
    # the quick tier's cases take about a minute; ten minutes without an end means the implementation hangs on them
    rt = min(run_timeout, 600) if tier == "quick" else run_timeout
    rc, out = sh([harness_bin, "run", "-in", cases_p, "-out", obs_p] + list(extra_run_args), timeout=rt, env=goenv())
    ctx.log("implementation run (%s): %d cases rc=%d %.1fs" % (sfx, len(cases), rc, time.time() - t))
    if rc != 0:
        ctx.keep_work = True
        ctx.harness_dead = True  # no point in widening the search: the implementation cannot be driven
        ctx.broken("harness run failed (rc=%d): the implementation could not be driven on the generated cases" % rc,
                   "\n".join(out.strip().split("\n")[-60:]))
        return None
    t = time.time()
    rc, mout, merr = sh2([model_bin, cases_p, obs_p], timeout=run_timeout)
    open(mod_p, "w").write(mout)
    ctx.log("model run (%s): rc=%d %.1fs" % (sfx, rc, time.time() - t))
    if rc != 0:
        ctx.broken("model run failed", merr[-3000:])
        return None
    obs = read_lines(obs_p)
    mod = read_lines(mod_p)
    if not (len(obs) == len(mod) == len(cases)):
        ctx.broken("line counts differ: cases=%d obs=%d model=%d" % (len(cases), len(obs), len(mod)), "")
        return None
    nontrivial = set()
    kinds = {}
    agree = 0
    disagreements = []
    bad = 0
    for c, o, m in zip(cases, obs, mod):
        parts = m.split("\t")
        pred, verdict, nt = (parts + ["", "", "0"])[:3]
        k = c.split(" ", 1)[0]
        kinds[k] = kinds.get(k, 0) + 1
        if nt == "1":
            nontrivial.add(c)
        if verdict != "ok":
            bad += 1
            key = key_fn(c, o, verdict) if key_fn else "%s:%s" % (k, verdict)
            what = what_fn(c, o, verdict) if what_fn else verdict
            ctx.violation(key, what, "%s\n# observed (implementation): %s\n# model: %s\n# specification verdict: %s\n" % (c, o, pred, verdict))
        elif pred != o:
            disagreements.append((c, o, pred))
        else:
            agree += 1
    if disagreements:
        txt = "\n".join("%s\n#   implementation: %s\n#   model:          %s" % d for d in disagreements[:20])
        ctx.broken("correspondence: model and implementation disagree on %d of %d cases (specification still satisfied on them)"
                   % (len(disagreements), len(cases)), txt)
    samples = []
    step = max(1, len(cases) // 6)
    for i in range(0, len(cases), step):
        samples.append({"case": cases[i][:400], "implementation": obs[i][:400], "model": mod[i].split("\t")[0][:400]})
    return {
        "evaluations": len(cases),
        "distinct_nontrivial": len(nontrivial),
        "traces_validated_against_impl": agree,
        "spec_failures": bad,
        "disagreements": len(disagreements),
        "case_kinds": kinds,
        "samples": samples[:8],
    }


def write_if_changed(path, text):
    if os.path.exists(path) and open(path).read() == text:
        return False
    open(path, "w").write(text)
    return True


def translate(ctx, what, outfile):
    """Run harness/cmd/translate <what> into coq/Gen/<outfile> (only touching it when it changes)."""
    tr = ctx.build_harness("translate")
    if tr is None:
        return False
    tmp = os.path.join(ctx.work, outfile)
    rc, out = sh([tr, what, REPO, tmp], timeout=300, env=goenv())
    if rc != 0:
        ctx.broken("translator '%s' could not re-read the source (construct outside its grammar)" % what, out)
        return False
    changed = write_if_changed(os.path.join(COQ, "Gen", outfile), open(tmp).read())
    if changed:
        ctx.log("regenerated Gen/%s (changed)" % outfile)
    return True


def standard(ctx, harness, extracted, driver_dir, rule, key_fn=None, what_fn=None, translators=(),
             bridge_files=(), trusted=(), assumptions=(), escalate=True, extra_cov=None, run_timeout=1800):
    """The whole check for a property that follows the standard layout:
       translators -> Gen/*.v ; Extract/Extract<prop>.v (model only) ; Properties/<prop>.v (+bridges) ;
       harness/cmd/<harness> ; ocaml/<driver_dir>/main.ml ; correspondence + executable spec."""
    cov = {"rule": rule, "evaluations": 0, "distinct_nontrivial": 0}
    ok_t = True
    for what, outfile in translators:
        ok_t = translate(ctx, what, outfile) and ok_t
    # a failing translator is recorded as broken; the model is still built (from the last generated
    # files) so that the correspondence run can look for a concrete failing input
    model_ok = ctx.coq(["Extract/Extract%s.vo" % ctx.prop], what="model+extraction")
    if model_ok:
        ctx.properties(extra_files=bridge_files)
    h = ctx.build_harness(harness)
    m = ctx.ocaml_model("m" + ctx.prop, extracted, driver_dir) if model_ok else None
    if h and m:
        st = correspondence(ctx, h, m, key_fn=key_fn, what_fn=what_fn, run_timeout=run_timeout)
        if st:
            cov.update(st)
        if escalate and ctx.brokens and not ctx.violations and ctx.quick() and not ctx.replay \
                and not getattr(ctx, "harness_dead", False):
            # a proof, bridge or the correspondence no longer checks: widen the search for a concrete failing input
            st2 = correspondence(ctx, h, m, key_fn=key_fn, what_fn=what_fn, tier="thorough", label="escalated", run_timeout=run_timeout)
            if st2:
                cov["escalated_evaluations"] = st2["evaluations"]
    if not ctx.quick() and not ctx.replay and model_ok and not ctx.brokens:
        ck = ctx.coqchk()
        if ck:
            cov.update(ck)
    if extra_cov:
        cov.update(extra_cov)
    cov["trusted_base_extra"] = list(trusted)
    ctx.finish(cov, assumptions=list(assumptions))
