"""C07 — ammo decoding fidelity (uri, uripost, raw, http/json)."""
import os

from vlib import common


def key_fn(case, obs, verdict):
    """finding family: format + the layout facts that matter + what goes wrong"""
    f = case.split(" ")
    why = verdict.split(" ")[0].replace("BAD:", "")
    fin = "final-newline" if len(f) > 2 and f[2] == "1" else "no-final-newline"
    status = obs.split(" ")[-1] if obs else "?"
    if why != "expected":
        return "%s:%s:%s" % (f[0], fin, why[:32])
    want = verdict.split(" ")[1:]
    got = obs.split(" ")
    nd_want = sum(1 for x in want if x.startswith("D:"))
    nd_got = sum(1 for x in got if x.startswith("D:"))
    first = next((i for i, (a, b) in enumerate(zip(want, got)) if a != b), min(len(want), len(got)))
    last_tok = f[-1].split(":") if len(f) > 4 else []
    if f[0] in ("uripost", "raw") and fin == "no-final-newline" and last_tok[:1] == ["R"] and last_tok[-1] == "-" \
            and not any(t[:2] in ("R:", "H:") and len(t) > 8000 for t in f[4:]) and "@" not in f[1] and "%" not in f[1]:
        return "%s:last-entry-empty-body-unterminated:entry-dropped:%s" % (f[0], status)
    kind = "count" if nd_want != nd_got else "content"
    # round-5 dimensions of the case: instance schedule (deliveries materialised after later Acquires),
    # lines longer than the 4 KiB bufio buffer; round 6: configured default headers
    dims = ""
    if len(f) > 1 and "@" in f[1]:
        dims += "+sched"
    if len(f) > 1 and "!" in f[1]:
        dims += "+release"  # decoder-level run: consumed ammo handed back with Decoder.Release
    if len(f) > 1 and "^" in f[1]:
        dims += "+cfg"      # provider configured with default headers
    if len(f) > 1 and "~" in f[1]:
        dims += "+mw"       # provider with middlewares
    if any(t[:2] in ("R:", "H:") and len(t.split(":")) > 2 and (len(t.split(":")[1]) + len(t.split(":")[2])) // 2 > 4000 for t in f[4:]):
        dims += "+longline"
    nreq = sum(1 for t in f[4:] if t[:2] in ("R:", "E:"))
    where = "first-pass" if first < nreq else "later-pass"
    return "%s%s:%s:wrong-%s-in-%s:%s" % (f[0], dims, fin, kind, where, status)


def what_fn(case, obs, verdict):
    want = verdict.split(" ")[1:]
    got = obs.split(" ")
    first = next((i for i, (a, b) in enumerate(zip(want, got)) if a != b), min(len(want), len(got)))
    return "delivery #%d differs from what the file says: expected %s, provider delivered %s" % (
        first + 1, (want[first] if first < len(want) else "<nothing>")[:160], (got[first] if first < len(got) else "<nothing>")[:160])


def run(ctx):
    # the extracted model recurses once per byte (non-tail): megabyte bodies need a deep stack
    import resource
    try:
        resource.setrlimit(resource.RLIMIT_STACK, (resource.RLIM_INFINITY, resource.RLIM_INFINITY))
    except (ValueError, OSError):
        pass
    os.environ["A07_ORACLE"] = os.path.join(common.BIN, "hC07")
    common.standard(
        ctx, harness="hC07", extracted="C07_model", driver_dir="C07",
        rule=("non-trivial: files with >= 2 requests (so order, wrap-around and per-pass header state are exercised); "
              "distinct = distinct case lines"),
        key_fn=key_fn, what_fn=what_fn,
        trusted=[
            "extraction: ExtrOcamlBasic only; OCaml driver ocaml/C07/{a07lib,main}.ml + ocaml/common/conv.ml",
            "correspondence harness harness/cmd/hC07 + harness/internal/a07ammo (real components/providers/http NewProvider over an afero mem file, Provider.Run + Acquire)",
            "oracles (Section variables of the theorems; answers of the real library obtained from `hC07 oracle` for the executable model): net/url.Parse + http.NewRequest (URL string, Host), net/http.ReadRequest (raw), encoding/json (jsonline)",
            "round 6: the value the header/date middleware writes is the wall clock: checked by the harness (http.TimeFormat, the middleware's location, an instant inside the Acquire call) and replaced by a marker; the refusing / failing-init middlewares are test doubles of the harness; decoder-level Release cases drive decoders.NewDecoder directly under GOMAXPROCS(1)",
            "modelled, not verified: bufio.Scanner/bufio.Reader buffering (modelled as exact line / chunk splitting with the 64 KiB token limit), Go map iteration order of http.Header (observations are sorted)",
        ],
        assumptions=["net/url, net/http and encoding/json behave as their oracle answers say",
                     "afero mem files read and seek like files"],
    )
