"""C07 — ammo decoding fidelity (uri, uripost, raw, http/json)."""
import os

from vlib import common


def key_fn(case, obs, verdict):
    f = case.split(" ")
    why = verdict.split(" ")[0]
    # finding family: format + layout facts that matter + what fails
    fin = "final-newline" if len(f) > 2 and f[2] == "1" else "no-final-newline"
    status = obs.split(" ")[-1] if obs else "?"
    return "%s:%s:%s:%s" % (f[0], fin, why.replace("BAD:", "")[:24], status)


def run(ctx):
    os.environ["A07_ORACLE"] = os.path.join(common.BIN, "hC07")
    common.standard(
        ctx, harness="hC07", extracted="C07_model", driver_dir="C07",
        rule=("non-trivial: files with >= 2 requests (so order, wrap-around and per-pass header state are exercised); "
              "distinct = distinct case lines"),
        key_fn=key_fn,
        trusted=[
            "extraction: ExtrOcamlBasic only; OCaml driver ocaml/C07/{a07lib,main}.ml + ocaml/common/conv.ml",
            "correspondence harness harness/cmd/hC07 + harness/internal/a07ammo (real components/providers/http NewProvider over an afero mem file, Provider.Run + Acquire)",
            "oracles (Section variables of the theorems; answers of the real library obtained from `hC07 oracle` for the executable model): net/url.Parse + http.NewRequest (URL string, Host), net/http.ReadRequest (raw), encoding/json (jsonline)",
            "modelled, not verified: bufio.Scanner/bufio.Reader buffering (modelled as exact line / chunk splitting with the 64 KiB token limit), Go map iteration order of http.Header (observations are sorted)",
        ],
        assumptions=["net/url, net/http and encoding/json behave as their oracle answers say",
                     "afero mem files read and seek like files"],
    )
