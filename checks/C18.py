"""C18 — plugin registry: every constructor shape yields rightly configured components."""
from vlib import common


def key_fn(case, obs, verdict):
    f = case.split(" ")
    if f[0] == "nest":
        return "registry-overlap:%s:%s-%s-def%s:%s:%s" % ({"r": "nested", "g": "goroutine"}.get(f[1], f[1]), f[2], f[3], f[6], f[8], "creation-spec" if "overlapping" in verdict else verdict.split("(")[0][:40])
    if f[0] == "kind":
        what = "config-error" if "invalid configuration" in verdict else "product-config"
        return "register-helper:%s:%s-def%s:%s:%s" % (f[1], f[2], f[3], f[4], what)
    if f[0] == "conc":
        return "registry-concurrent:%s:%s:%s-def%s:%s" % ({"h": "config-decode", "r": "registry"}.get(f[1], f[1]), {"N": "new", "F": "factory-calls"}.get(f[2], f[2]), f[3], f[4], "own-config")
    if f[0] == "sec":
        return "registry-section:%s:%s:%s" % ({"S": "string-map", "U": "untyped-map", "X": "not-a-map"}.get(f[1], f[1]), f[5], "section-error" if "wrong config section" in verdict else "product-config")
    if f[0] == "set":
        what = "product-config"
        if "names no field" in verdict:
            what = "stray-setting-accepted"
        elif "invalid configuration" in verdict:
            what = "config-error"
        return "registry-settings:%s-%s-def%s:%s:%s" % (f[1], f[2], f[4], f[6], what)
    if f[0] == "ovl":
        what = "stray-or-misfit-setting-accepted" if "names no field" in verdict else "product-config"
        return "registry-overlay:%s-%s-def%s:%s:%s" % (f[1], f[2], f[3], f[4], what)
    if f[0] == "nm":
        what = "wrong-or-no-entry" if "did not reach" in verdict else "unregistered-name-accepted"
        return "registry-names:%s:%s:%s" % ({"H": "config-hooks", "R": "registry"}.get(f[1], f[1]), f[2], what)
    if f[0] == "ftype":
        return "registry-factory-forms:%s:%s-%s" % (f[1], f[2], f[3])
    if f[0] == "reg":
        return "registry-lookup:%s:%s" % (f[1], f[2])
    if f[0] == "hookn":
        return "registry-hook-nested:%s:%s" % (f[1], "product-config")
    if f[0] == "hook":
        what = "config-error" if "invalid configuration" in verdict else verdict.split("(")[0]
        return "registry-hook:%s-def%s:%s:%s" % (f[1], f[2], f[3], what)
    # shape + requested form + which part of the specification fails
    what = verdict.split("(")[0]
    if "wrongtype" in obs:
        what = "factory-type"
    return "registry:%s-%s-def%s:%s:%s" % (f[1], f[2], f[5], f[7], what)


def run(ctx):
    common.standard(
        ctx, harness="hC18", extracted="C18_model", driver_dir="C18",
        rule=("non-trivial: the constructor takes a config or some user code is planned to fail, and at least one "
              "New/factory call is made; distinct = distinct case lines (full enumeration of shapes x requested form "
              "x fill/no fill x call counts x single failure positions)"),
        key_fn=key_fn,
        translators=[("register", "RegisterHelpersGen.v")],
        bridge_files=["Gen/RegisterHelpers_bridge.v"],
        trusted=[
            "translator harness/cmd/translate register (go/ast over core/register/register.go: one row per helper - declared interface, callee, what each argument is); bridge Gen/RegisterHelpers_bridge.v",
            "kind cases: register.Provider/Limiter/Gun/Aggregator/DataSource/DataSink with and without a default-config function, created through pluginconfig hooks + config.Decode into a field of the kind's interface / factory types; verdict as for hook cases (expected_arg of the shape the user registered)",
            "sec / reg cases: config sections of every form (string-keyed / untyped map / no map; each spelling of the type key absent, registered name, unknown name, non-string; a non-string key) through the real hooks, and Registry.New/NewFactory for an unregistered type or name; verdict section_ok_b / registered_b (C18_section_creation, C18_lookup_creation): wrong ones are the error result with nothing run",
            "conc cases: G goroutines released together create K products each (Registry.New / calls of one or of per-goroutine factories; through config.Decode + hooks and through a fresh plugin.Registry); the model Model/RegistryConc.v is replayed on the order of default invocations read off the observation, the verdict is conc_b (proved for every schedule: C18_concurrent_products); the driver keeps the model's function-valued state in arrays between steps",
            "set cases: the user's settings (keys of the section besides type: fields a, b, c and other keys) for every constructor shape (component / factory constructor; no config, Cfg by value / pointer, a config struct without fields by value / pointer; error result or not; default or not) and requested form (component, func() T, func() (T, error)) through core/register + the real hooks + config.Decode; model = run_case with the fill of parseConf (hook_oracle, Model/RegistryDecode.v), verdict = settings_accepted_b (a key that names no field of the constructor's config: error result, nothing constructed - C18_settings_rejected) / overlay (C18_settings_new_config, C18_settings_factory_config); the validator's verdict (max=1000 on field a) is computed by the driver",
            "ovl cases: config structs made with reflect.StructOf from a generated description (int, map[string]int, []int, nested-struct fields; registered default holding non-empty maps / slices / nested structs, 1000 n added at its n-th invocation), constructor and default function by reflect.MakeFunc, registered through core/register, created through the real hooks + config.Decode as component / func() T / func() (T, error); prediction = the extracted registry model run_case with a fill that records which default invocation a config comes from (fails exactly when the settings are not acceptable), the content of a config from default n being dec_cfg (Model/RegistryOverlay.v) of that default and the section, verdict = ovl_accepted_b / cfg_agrees_b (C18_overlay_accepts, C18_overlay_config) computed by the driver per round on the implementation's records; the round structure (defaults / constructor calls / products per round, pairwise distinct) is checked by the driver as in the set cases",
            "nm cases: 1-4 spellings of a name (case, separators, digits, blanks, non-ASCII letters) registered behind a per-case prefix, each with its own constructor; a registered spelling, a near-twin or the empty name requested through the hooks and through plugin.New / NewFactory; prediction create_named, verdict named_spec_b (C18_name_lookup_exact, C18_named_creation); names travel as hex bytes",
            "ftype cases: plugin.FactoryPluginType / Registry.LookupFactory / Registry.NewFactory for 17 Go types (both factory forms, named ones, wrong arity / result kinds, non-func, forms of the error interface and of an unregistered interface) x registered or not x name; model is_factory_type / new_factory_request, verdict from factory_form (C18_factory_forms, C18_factory_request); reg setdefault: plugin.SetDefaultRegistry then package-level Register/New, judged by spec_b as a plain case",
            "extraction: ExtrOcamlBasic only; OCaml driver ocaml/C18/main.ml (parses the harness's event lines into the model's datatypes) + ocaml/common/conv.ml",
            "nest cases: overlapping creations of the same registered entry (the fillConf lets another Registry.New of the same name run to completion, inline or in a second goroutine it waits for); verdict nest_b, proved of the model (C18_overlapping_creations)",
            "hook cases: core/register + pluginconfig.AddHooks + config.Decode (mapstructure) over the default registry; the verdict compares each product with the specification-side expected_arg (proved equal to the model: C18_new_config, C18_plugin_factory_config)",
            "correspondence harness harness/cmd/hC18: real plugin.Registry (Register/New/NewFactory) with constructors, default functions and fillConf built by reflect.MakeFunc for every shape; events recorded by that user code, pointer identities canonicalised by first appearance",
            "modelled, not verified: Go reflection (reflect.Call/MakeFunc/New/Zero, type identity of func types) is represented by the branch conditions of Model/Registry.v; registration-time type expectations other than 'no default for a constructor without config' are outside the model",
        ],
        assumptions=["the user's default-config function returns a fresh value on every call (the registry cannot make a shared pointer returned by user code fresh)"],
    )
