"""C13 — malformed ammo / scenario / config input is rejected, never panics or hangs."""
import os

from vlib import common


def key_fn(case, obs, verdict):
    f = case.split(" ")
    hostile = f[0] == "hostile"
    if hostile:
        f = f[1:]
    why = verdict.replace("BAD:", "").split(" ")
    kind = f[0]
    sub = f[1].lower() if kind in ("ammo", "pfx", "trunc", "badhdr", "conv", "cfghdrs", "wfile", "cfile", "sfile", "vsrc", "ctag", "indext", "sdesc", "popt", "rerr") and len(f) > 1 else ""
    site = why[0]
    what = "-".join(why[1:3])[:40]
    if hostile and what in ("outcome-oom", "outcome-hang", "outcome-crash"):
        what = "unbounded-allocation"     # memory exhausted or still allocating when the wait ended
    return ":".join(x for x in (kind, sub, "hostile" if hostile else "", site, what) if x)


def what_fn(case, obs, verdict):
    return "%s; observed: %s" % (verdict.replace("BAD:", "")[:200], obs[-120:])


def run(ctx):
    # the extracted model recurses once per byte (non-tail): megabyte bodies need a deep stack
    import resource
    try:
        resource.setrlimit(resource.RLIMIT_STACK, (resource.RLIM_INFINITY, resource.RLIM_INFINITY))
    except (ValueError, OSError):
        pass
    os.environ["A07_ORACLE"] = os.path.join(common.BIN, "hC13")
    common.standard(
        ctx, harness="hC13", extracted="C13_model", driver_dir="C13",
        rule=("non-trivial: every case except unparsable ones (each is a malformed / boundary input to a real entry point); "
              "distinct = distinct case lines"),
        key_fn=key_fn, what_fn=what_fn,
        translators=[("gofn-mp", "GoFnMpGen.v")], bridge_files=["Gen/GoFnMp_bridge.v"],
        trusted=[
            "extraction: ExtrOcamlBasic only; OCaml driver ocaml/C13/main.ml + ocaml/C07/a07lib.ml + ocaml/common/conv.ml",
            "harness harness/cmd/hC13 + harness/internal/a07ammo: real providers and library entry points under recover, bounded waits and (hostile sizes) a subprocess with ulimit -v",
            "oracles answered by the real libraries: net/url, net/http, encoding/json, json-iterator; yaml.v2 + mapstructure (kind cfg) are fuzzed only, not modelled",
            "kind clicfg: the real CLI config reader (verif hook cli.VerifReadConfig) in a child process of hC13 per case, outcome classified from exit status + the reader's Fatal text / panic text / a 20 s wait; config.DecodeAndValidate is an oracle (clidec); yaml.v2 / encoding/json rendering of the generated tree and viper's reading of it are trusted",
        ],
        assumptions=["a 5 s wait without a result means the call hangs", "an allocation of 4 GiB or more fails under ulimit -v 3000000"],
    )
